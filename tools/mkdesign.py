#!/usr/bin/env python3
"""Regenerate the generated blocks of DESIGN.md (between <!-- BEGIN GENERATED: x --> markers):
theorems per property (from coq/Cxx/Properties.v), findings (known_findings.json), seeded changes
(seeded/*/meta.json), measured run sizes (evidence/*.json)."""
import glob
import json
import os
import re
import sys

ROOT = os.path.dirname(os.path.dirname(os.path.abspath(__file__)))
sys.path.insert(0, os.path.join(ROOT, "tools"))
from props import PROPS  # noqa: E402


def strip_comments(src):
    out, depth, i = [], 0, 0
    while i < len(src):
        if src.startswith("(*", i):
            depth += 1
            i += 2
        elif src.startswith("*)", i) and depth:
            depth -= 1
            i += 2
        else:
            if not depth:
                out.append(src[i])
            i += 1
    return "".join(out)


def theorems_block():
    titles = {json.loads(l)["id"]: json.loads(l)["title"] for l in open(os.path.join(ROOT, "properties.jsonl"))}
    out = []
    for pid in sorted(PROPS):
        P = PROPS[pid]
        f = os.path.join(ROOT, "coq", P["dir"], "Properties.v")
        thms = re.findall(r"^\s*(?:Theorem|Lemma|Corollary)\s+([A-Za-z0-9_']+)", strip_comments(open(f).read()), re.M)
        ev = {}
        try:
            ev = json.load(open(os.path.join(ROOT, "evidence", pid + ".json")))["coverage"]
        except Exception:  # noqa: BLE001
            pass
        lines = sum(len(open(x).read().split("\n")) for x in glob.glob(os.path.join(ROOT, "coq", P["dir"], "*.v")))
        out.append("### %s — %s" % (pid, titles.get(pid, "")))
        out.append("")
        out.append("*Development:* `coq/%s/` (%d lines of Coq), deps %s. *Last quick run:* %s cases, %s distinct non-trivial, "
                   "%s/%s theorems discharged." % (P["dir"], lines, ", ".join(P.get("deps", [])) or "none",
                                                  ev.get("evaluations", "?"), ev.get("distinct_nontrivial", "?"),
                                                  ev.get("discharged", "?"), ev.get("obligations", "?")))
        out.append("")
        out.append("*Theorems* (`Properties.v`): " + ", ".join("`%s`" % t for t in thms) + ".")
        out.append("")
        out.append("*Claim:* " + P.get("level_text", ""))
        out.append("")
        out.append("*Trusted / partial:* " + P.get("level_note", ""))
        out.append("")
    return "\n".join(out)


def findings_block():
    d = json.load(open(os.path.join(ROOT, "known_findings.json")))
    fixed = [k for k in d["findings"] if k["kind"] == "fixed"]
    opn = [k for k in d["findings"] if k["kind"] == "open"]
    out = ["**Repaired in /repo (`fix:` commits; each witness is in `corpus/`):**", "",
           "| Property | Commit | What failed |", "|---|---|---|"]
    for k in sorted(fixed, key=lambda k: (k["property"], k["id"])):
        what = re.sub(r"^fixed: property=\S+ \S+ ", "", k["what"])
        out.append("| %s | `%s` | %s |" % (k["property"], k.get("commit", "?"), what.replace("|", "\\|")))
    out += ["", "**Open known findings (announced by the check, class explicit in the theorem):**", "",
            "| Property | Id | What fails |", "|---|---|---|"]
    for k in sorted(opn, key=lambda k: (k["property"], k["id"])):
        out.append("| %s | `%s` | %s |" % (k["property"], k["id"], k["what"].replace("|", "\\|")))
    return "\n".join(out) + "\n"


def seeded_block():
    rows = []
    for f in sorted(glob.glob(os.path.join(ROOT, "seeded", "*", "meta.json"))):
        m = json.load(open(f))
        rows.append("| `%s` | %s | %s | %s | %s |" % (os.path.basename(os.path.dirname(f)), m.get("property"),
                                                   m.get("change", "").replace("|", "\\|"),
                                                   m.get("needs", "").replace("|", "\\|"),
                                                   m.get("detected_by", "").replace("|", "\\|")))
    hist = []
    n = 0
    for f in sorted(glob.glob(os.path.join(ROOT, "seeded", "*", "meta.json"))):
        m = json.load(open(f))
        n += 1
        if m.get("history", "caught on the first run") != "caught on the first run":
            hist.append("* `%s`: %s" % (os.path.basename(os.path.dirname(f)), m["history"]))
    tail = ["", "The column shows the last run of each check against the change (`OK (missed)` next to a",
            "neighbouring property means that check is not the one the change is aimed at). %d of the %d changes"
            % (n - len(hist), n),
            "were reported with a failing input the first time the owning check ran against them; the others, and",
            "what was strengthened because of them:", ""] + hist
    return "\n".join(["| Seeded change | Breaks | Change | Needs, to manifest | Detected by |", "|---|---|---|---|---|"] + rows + tail) + "\n"


def main():
    p = os.path.join(ROOT, "DESIGN.md")
    s = open(p).read()
    for name, fn in (("theorems", theorems_block), ("findings", findings_block), ("seeded", seeded_block)):
        a, b = "<!-- BEGIN GENERATED: %s -->" % name, "<!-- END GENERATED: %s -->" % name
        if a in s and b in s:
            i, j = s.index(a) + len(a), s.index(b)
            s = s[:i] + "\n" + fn() + s[j:]
    open(p, "w").write(s)


if __name__ == "__main__":
    main()
