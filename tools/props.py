"""Registry of the properties the machinery decides (one entry per claimed property)."""

BASE_TRUSTED = [
    "Coq 8.16.1 kernel (coqc, full .vo builds; vm_compute used, native_compute not used)",
    "Coq extraction to OCaml 4.13.1 with ExtrOcamlBasic directives only; ocaml/driver.ml (generic s-expression driver, zarith)",
    "tools/translate.py (source/dump -> coq/Gen) and harness/src/dump.rs",
    "harness/ (Rust case generators, outcome canonicalisation) and bin/check (diff, verdict)",
]

PROPS = {
    "C04": {
        "dir": "C04",
        "deps": [],
        "rule": "systematic: 11 versions x 12 types x all specified keys through 3 entry points; random: events with "
                "random subsets of specified/unspecified top-level and content keys, nested values, third_party_invite "
                "shapes, ill-typed type/content; non-trivial = distinct case whose implementation outcome is Ok",
        "trusted": [
            "modelled, not verified: BTreeMap as strictly sorted association list (insert/remove/iteration order); "
            "mem::take + re-insert loop of RetainedKeys::apply",
            "Spec.v transcription of the Matrix redaction rules per room version number (DESIGN.md A.2)",
        ],
        "level_text": "Proof: for every room version 1-11 (rules and key tables regenerated from the source on every run) and "
                      "every well-formed event, the model of redact/redact_in_place/redact_content_in_place equals the "
                      "per-version specification (exact keys kept, values untouched), is idempotent, adds nothing but "
                      "redacted_because, and errors exactly on ill-typed input; the model is tied to the code by the translator "
                      "(tables, rules) and by an extraction-based correspondence run on structured events.",
        "level_note": "Trusted: Coq kernel; translator for canonical_json.rs tables and the Debug dump of RoomVersionRules; "
                      "BTreeMap modelled as sorted association list; Spec.v is a hand transcription of the spec (DESIGN.md A.2); "
                      "control flow of redact tied by differential testing, not by translation.",
        "assumptions": ["input objects are CanonicalJsonObjects (sorted unique keys at every depth) - guaranteed by the Rust type"],
    },
}
