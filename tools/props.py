"""Registry of the properties the machinery decides: one JSON file per claimed property in
/verif/props/ (keys: dir, deps, rule, trusted, assumptions, level_text, level_note, ...)."""
import glob
import json
import os

ROOT = os.path.dirname(os.path.dirname(os.path.abspath(__file__)))

BASE_TRUSTED = [
    "Coq 8.16.1 kernel (coqc, full .vo builds; vm_compute used, native_compute not used)",
    "Coq extraction to OCaml 4.13.1 with ExtrOcamlBasic directives only; ocaml/driver.ml (generic s-expression driver, zarith)",
    "tools/translate.py + tools/translators/*.py (source/dump -> coq/Gen) and the harness dump functions",
    "harness/ (Rust case generators, outcome canonicalisation) and bin/check (diff, verdict)",
]

PROPS = {}
for _f in sorted(glob.glob(os.path.join(ROOT, "props", "C*.json"))):
    PROPS[os.path.basename(_f)[:-5]] = json.load(open(_f))
