#!/usr/bin/env python3
"""Regenerate MANIFEST.json from tools/props.py (claimed properties) + the fixed text below."""
import json
import os
import sys

ROOT = os.path.dirname(os.path.dirname(os.path.abspath(__file__)))
sys.path.insert(0, os.path.join(ROOT, "tools"))
from props import PROPS  # noqa: E402

ALL = ["C%02d" % i for i in range(1, 21)]
BASELINE = ("cd /repo && export RUSTUP_TOOLCHAIN=1.88.0 && (cargo nextest run --workspace --no-fail-fast "
            "--tool-config-file pb:/w/lib/nextest.toml --profile pb --test-threads 8 --offline "
            "|| cargo test --workspace --no-fail-fast --offline)")

checks = []
for pid in sorted(PROPS):
    P = PROPS[pid]
    checks.append({
        "property_id": pid,
        "quick_cmd": "bin/check run %s --tier quick" % pid,
        "thorough_cmd": "bin/check run %s --tier thorough" % pid,
        "evidence_file": "/verif/evidence/%s.json" % pid,
        "replay_cmd_template": "bin/check replay %s {path}" % pid,
        "engine": "rocq-proof",
        "level_claimed": {"category": "proof", "text": P["level_text"], "design_ref": P.get("design_ref", "DESIGN.md section 6 (%s)" % pid)},
        "level_note": P["level_note"],
        "technique": P.get("technique", "Rocq (Coq 8.16) theorems over an executable Gallina model; model regenerated (tables) "
                           "and checked by extraction-based correspondence against the Rust implementation on every run"),
    })

na = [{"property_id": p, "reason": NA.get(p, "no executable model built yet in this development; not claimed")}
      for p in ALL if p not in PROPS] if (NA := {}) is not None else []

manifest = {
    "version": 1,
    "setup_cmd": "bin/check setup",
    "hooks": {
        "guard": "ruma_verif",
        "enable": "RUSTFLAGS=\"--cfg ruma_verif\" (no hook is needed: every anchored behaviour is reachable through ruma's public API, so the list of hook commits is empty)",
        "baseline_off_cmd": BASELINE,
        "source_commits": [],
        "add_only": True,
    },
    "engines": [{
        "name": "rocq-proof", "path": "/verif/coq",
        "serves_properties": sorted(PROPS),
        "kind_free_text": "Coq 8.16.1 development (Base, Gen = regenerated from /repo, Cxx/{Model,Spec,Proofs,Properties,Run}); "
                          "OCaml extraction driver in /verif/ocaml; Rust correspondence harness in /verif/harness; orchestration bin/check",
    }],
    "checks": checks,
    "not_applicable": na,
    "notes": "See DESIGN.md. Known findings and fixed defects are listed in known_findings.json.",
}
with open(os.path.join(ROOT, "MANIFEST.json"), "w") as f:
    json.dump(manifest, f, indent=1)
    f.write("\n")
print("MANIFEST.json: %d checks, %d not_applicable" % (len(checks), len(na)))
