#!/usr/bin/env python3
"""Round 5: copy the confirmed seeded changes from /tmp/seed5-<id>-out/<n> into seeded/<id>-<k>/ with
meta.json (what the change is, what it needs, what I ran, first and last detection results)."""
import json, os, re, shutil, ast, glob
INFO = {
 'C06/1': ("iterative_auth_check collects an event's auth event IDs into a HashSet before fetching them (`only fetch each of them once`)", "an event citing two auth events for one state slot (the sender's stale leave and current join) whose slot is absent from the partial state when the event is checked: which one decides follows the hash order"),
 'C06/2': ("the loop guard of get_mainline_depth shares its `visited` set between the events being sorted", "two conflicted ordinary events whose walks to the mainline pass through a common power-levels event: the second walk stops early and gets depth 0"),
 'C14/1': ("the reply-fallback test matches `mx-reply` only in the HTML namespace", "an mx-reply element inside svg or math foreign content with remove_reply_fallback: it and its content survive"),
 'C14/2': ("ALLOWED_ATTRIBUTES_STRICT: the div entry shares the span set (data-mx-bg-color, data-mx-color, data-mx-spoiler, data-mx-maths)", "a div carrying data-mx-color, data-mx-bg-color or data-mx-spoiler, strict or compat mode"),
 'C16/1': ("RoomEventFilter::is_empty (the skip predicate of the `filter` query parameter) treats Some(vec![]) allow-lists as absent", "get_message_events / get_context with a filter whose only non-default fields are empty allow-lists (RoomEventFilter::ignore_all())"),
 'C16/2': ("parse_multipart_body_part (federation media) returns the part body through trim_ascii_end()", "a federation get_content / get_content_thumbnail response whose file ends in a blank, tab, CR, LF or FF byte"),
 'C17/1': ("http_headers::is_tchar rewritten as a deny-list: bytes >= 0x80 count as token characters", "ContentDisposition::try_from(&[u8]) with a disposition type that is not valid UTF-8: from_utf8(..).expect panics"),
 'C17/2': ("StrExt::char_len by a lead-byte table with `first <= 0xE0 => 2`", "word matching on content.body (event_match without wildcards, contains_display_name) with the match directly next to a character of U+0800..U+0FFF (Thai, Devanagari ...): slice at a non-boundary panics"),
 'C18/1': ("Raw::get_field returns Ok(None) early when the field name does not occur in the raw text", "a member name written with a JSON escape in the text (\\u00e9), or a non-object text"),
 'C18/2': ("Deserialize for push::Action reads the legacy string action `coalesce` as Notify", "m.push_rules account data with \"actions\":[\"coalesce\"]: rewritten to notify on the round trip"),
 'C19/1': ("Deserialize for room::join_rules::JoinRule peeks at the `join_rule` member as borrowed &str instead of Cow<str>", "a join_rule value whose JSON spelling contains an escape sequence (\\u0070ublic, a\\\"b)"),
 'C19/2': ("VoipVersionId::from(\"0\") yields V0 (serialized as the number 0)", "the one-character string \"0\" as call version, followed by a serialization"),
}
HIST = {
 'C06/1': "first run: missed by C06 and C07 (no generated event cited two events for one slot; the theorems exclude it by auth_keys_unique) -> duplicate-slot scenarios and a random duplicate_slot_variant; the same generators expose the defect repaired in /repo 2da10dd",
 'C19/1': "missed by C19 (events::room::join_rules::JoinRule is a content enum with a hand-written Deserialize, outside the string-enum family C19's translator collects); caught by C18, whose JSON writer spells one letter of a string as an escape",
 'C19/2': "first run: missed by C19 (VoipVersionId is a hand-written identifier type outside the derive family) -> C18's call events carry the string spelling \"0\" of the version",
 'C16/1': "first run: missed (no request carried a filter) -> get_message_events and get_context with filter shapes including empty allow-lists",
 'C16/2': "first run: missed (the federation media response was not among the endpoints with values) -> federation get_content response with payloads ending in blank bytes, compared by value (random boundary)",
 'C18/2': "first run: missed (push rule actions were notify / set_tweak only) -> legacy and unknown string actions",
 'C17/2': "first run: missed by C17 and C12 (non-ASCII characters were of 2 and 4 bytes, or 3 bytes with lead byte E2 / EF) -> characters of every UTF-8 length class and its boundary code points next to matched words",
 'C14/2': "the regenerated table breaks C14_strict_tables_eq_matrix_spec; no input is searched when that theorem fails (the run files depend on it)",
}
SKIP = {}
first, last = {}, {}
cur = None
for line in open('/var/tmp/seedres/queue.log'):
    m = re.match(r"=== seed5 (C\d+/\d) -> (.*)", line)
    if m:
        cur = m.group(1); first.setdefault(cur, {}); last.setdefault(cur, {}); continue
    if line.startswith('=== '):
        cur = None; continue
    m = re.match(r"(OK|VIOLATION) property=(C\d+)(.*)", line)
    if m and cur:
        v = ('VIOLATION' + (' no-failing-input-found' if 'no-failing-input-found' in m.group(3) else ' with failing input')) if m.group(1) == 'VIOLATION' else 'OK (missed)'
        first[cur].setdefault(m.group(2), v); last[cur][m.group(2)] = v
conf = {}
for line in open('/var/tmp/seedres/confirmq.log'):
    k, _, rest = line.partition(' ')
    try:
        v = ast.literal_eval(rest.strip())
        if isinstance(v, dict): conf[k[2:] if k.startswith('5:') else k] = v
    except Exception:
        pass
EXTRA_LAST = {}   # results of runs made directly in /repo (patch applied, check run, patch reverted) after the queue
if os.path.exists('/var/tmp/seedres/direct5.json'):
    EXTRA_LAST = json.load(open('/var/tmp/seedres/direct5.json'))
for key, (change, needs) in sorted(INFO.items()):
    if key in SKIP:
        continue
    pid, n = key.split('/')
    have = sorted(int(d.rsplit('-', 1)[1]) for d in glob.glob(f'/verif/seeded/{pid}-*') if not os.path.exists(d + '/.round3'))
    base = max([x for x in have] or [0])
    # stable numbering: round-3 seeds follow the earlier ones
    k = (8 if pid != 'C17' else 6) + int(n)
    src = f'/tmp/seed5-{pid}-out/{n}'; dst = f'/verif/seeded/{pid}-{k}'
    if not os.path.exists(src + '/patch.diff'): print('missing', key); continue
    os.makedirs(dst, exist_ok=True)
    for fn in os.listdir(src):
        if os.path.isfile(src + '/' + fn) and os.path.getsize(src + '/' + fn) < 200000:
            shutil.copy(src + '/' + fn, dst + '/' + fn)
    c = conf.get(key)
    l = dict(last.get(key, {})); l.update(EXTRA_LAST.get(key, {}))
    demo_fail = demo_ok = None
    if c and c['demo']:
        fails = [x for x in c['demo'] if x[0] == 'FAILED' and (x[1], x[2]) != ('54', '1')]
        oks = [x for x in c['demo'] if x[0] == 'ok']
        if fails: demo_fail = list(fails[0])
        if oks: demo_ok = list(oks[0])
    meta = {'property': pid, 'round': 5, 'history': HIST.get(key, 'caught on the first run'), 'change': change, 'needs': needs,
            'first_run': '; '.join(f'{a}: {b}' for a, b in sorted(first.get(key, {}).items())),
            'detected_by': '; '.join(f'{a}: {b}' for a, b in sorted(l.items())) or 'not run',
            'what_i_ran': [
              f'RUN.md commands in the scratch worktree /tmp/seed5-{pid} (cargo +1.88.0, offline): demo on the clean tree, then with the patch',
              'with the patch applied: cargo +1.88.0 test -p <each crate the patch touches (+ dependants for ruma-macros / ruma-identifiers-validation)> --offline --no-fail-fast',
              'tools/seedtest.sh patch.diff <checks>  (scratch copies of /repo and /verif under /var/tmp; /repo untouched)'],
            'demo_with_change': demo_fail, 'demo_clean_tree': demo_ok,
            'existing_tests_with_change': ([list(x) for x in c['existing']] if c else None),
            'existing_tests_note': 'the only failing existing test in any run is ruma-common tests/it identifiers::id_macros::ui (trybuild, compiler-message wording under a non-default target dir); it fails identically without the change'}
    json.dump(meta, open(dst + '/meta.json', 'w'), indent=1)
print(len(INFO), 'seeds;', sum(1 for k in INFO if k in conf), 'confirmed')
for k in sorted(INFO):
    print(k, '| first:', first.get(k), '| last:', last.get(k))
