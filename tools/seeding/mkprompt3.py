#!/usr/bin/env python3
"""Round-3 prompt for a seeding sub-agent: property text + the changes of earlier rounds to avoid.
usage: mkprompt3.py Cxx [round-tag]   (prints the prompt)"""
import json, sys, glob, os
pid = sys.argv[1]
tag = sys.argv[2] if len(sys.argv) > 2 else 'seed3'
here = os.path.dirname(os.path.abspath(__file__))
root = os.path.abspath(os.path.join(here, '..', '..'))
prop = None
for l in open(os.path.join(root, 'properties.jsonl')):
    p = json.loads(l)
    if p['id'] == pid:
        prop = p
prev = []
for d in sorted(glob.glob(os.path.join(root, 'seeded', pid + '-*'))):
    try:
        prev.append(json.load(open(d + '/meta.json'))['change'])
    except Exception:
        pass
a = prop['anchors']
wt = f'/tmp/{tag}-{pid}'
out = f'/tmp/{tag}-{pid}-out'
print(f"""You are testing how well a verification suite detects regressions in the Rust repository ruma/ruma (Matrix protocol crates). You are given ONE semantic property of the codebase and your own scratch git worktree of the repository. Your job: produce TWO independent, realistic source changes ("seeded defects"), each of which BREAKS the property below while the crate still compiles and ALL existing tests of the repository still pass, and for each a small demonstration (a new test file or small program) that FAILS with the change and PASSES without it.

Property {pid}: {prop['title']}
Statement: {prop['statement']}
Quantifier: {prop['quantifier']['text']}
Why the existing tests cannot settle it: {prop['why_tests_cant']}
Code the property is anchored in: {', '.join(a['files'])}
Mechanisms: {'; '.join(m['name'] + ' (' + m['where'] + ')' for m in a.get('mechanism', []))}
Observation points: {', '.join(a.get('observe_at', []))}

Your worktree: {wt} (a git worktree of the repository at its current HEAD; create it first with `git -C /repo worktree add --detach {wt}`; work ONLY there; never edit /repo itself and never look at or use anything under /verif). Build and test with the 1.88 toolchain and your own target directory, offline: `cd {wt} && CARGO_TARGET_DIR={wt}/target cargo +1.88.0 test -p <crate> --offline` (the pinned nightly toolchain in the repo cannot build the dependencies; there is no network; ruma-common needs `--features api,canonical-json,rand`, ruma-events `--features canonical-json`, the API crates `--features client,server`). The trybuild test `identifiers::id_macros::ui` may fail on the untouched tree too; ignore it. Other builds share this 16-core machine: pass `-j 6` to cargo.

Requirements for each change:
- It is the kind of mistake a developer could plausibly make during a refactoring, optimisation or feature addition (an off-by-one, a flipped or dropped condition, a wrong table entry for one version, a wrong order of operations, a lost special case, a cache keyed too coarsely, an early return, a changed helper in a *different file or crate* that the anchored code calls, two sites that each look fine alone ...), NOT sabotage that ordinary use would expose at once. It must need something specific to manifest: a particular room version, an unusual but legal input, a boundary size, a multi-step sequence of operations, a specific combination of fields, a particular iteration order.
- The crate(s) compile and the EXISTING tests of the affected crates pass unchanged with the change applied (run them and report the result lines). Do not edit or delete existing tests.
- The two changes must use different mechanisms and touch different functions.
- Keep each change small (a few lines).

This is a THIRD round. These changes were already produced for this property in earlier rounds; yours must differ in mechanism and location from all of them (do not reproduce them or close variants):
""" + "\n".join('- ' + c for c in prev) + f"""
Prefer subtler changes than those, in parts of the code path the earlier ones did not touch: helper functions, macros or crates the anchored code depends on; clauses of the property statement the earlier changes leave alone; inputs that are legal but rare; interactions between two functions or two calls.

Deliver, under {out}/1/ and {out}/2/: `patch.diff` (output of `git diff` in the worktree for that change alone, applicable with `git apply` to a clean checkout), the demonstration (e.g. `demo.rs` to drop into the crate's tests/ directory, or a small cargo example) plus `RUN.md` with the exact shell commands in one fenced ```sh block that (1) copy the demo into place, (2) run it on the clean tree (must pass), (3) apply the patch, (4) run it again (must fail), (5) restore the tree; and `NOTES.md` (what the change is, why it breaks the property, what specific input/state is needed to manifest it, which existing tests you ran and their results with the change). Make sure the worktree is clean (`git checkout -- . && git clean -fdq -e target`) between the two changes so each patch is independent, and leave the worktree clean at the end. When you are completely done, delete the build output with `rm -rf {wt}/target` but do not remove the worktree. Final answer: a short summary of the two changes (one paragraph each: what, where, what it needs to manifest).""")
