#!/usr/bin/env python3
"""Round 3: copy the confirmed seeded changes from /tmp/seed3-<id>-out/<n> into seeded/<id>-<k>/ with
meta.json (what the change is, what it needs, what I ran, first and last detection results)."""
import json, os, re, shutil, ast, glob
INFO = {
 'C01/1': ("ruma_signatures::canonical_json returns Err(PduSize) for a canonical string over 65535 bytes (guard copied from content_hash)", "an object whose canonical form is 65536 bytes or more (verify_json on large key blobs, the `signed` block of a third-party invite)"),
 'C01/2': ("Display for CanonicalJsonValue writes bare strings with Rust Debug escaping instead of serde_json", "Display of a CanonicalJsonValue::String holding a control character other than \\n \\r \\t, DEL, a combining mark / ZWJ / U+2028 or a private-use character"),
 'C02/1': ("key_id::validate (ruma-identifiers-validation) gains the 255-byte limit the other identifiers have; sign_json builds the key ID unchecked, verify_json parses it", "a key version of 248 bytes or more (ed25519:<version> longer than 255 bytes): sign-then-verify fails, a bad signature under such an ID is skipped"),
 'C02/2': ("sign_json's up-front type check no longer covers the signing entity's own entry; the later arm returns after signatures/unsigned were removed", "`signatures` an object whose entry for the signing entity is not an object"),
 'C03/1': ("EventId::server_name() splits at the last colon (rsplit_once) while validation and localpart use the first", "room version 1 or 2 and an event ID whose server name has a port or is an IPv6 literal"),
 'C03/2': ("CONTENT_HASH_FIELDS_TO_REMOVE gains age_ts, destinations, outlier (copied from Synapse's compute_content_hash)", "an event with a top-level member of one of these names, changed after signing: still Verified::All"),
 'C04/1': ("room_redaction_content_retained_keys: guard clause + closure `rules.keep_room_redaction_redacts || field == \"redacts\"` keeps every content key", "room version 11, redacting an m.room.redaction event whose content has a key other than `redacts`"),
 'C04/2': ("is_event_key_retained: `prev_state` moves to the unconditional arm during an alphabetical re-sort", "room version 11 and an event with the legacy top-level key prev_state"),
 'C05/1': ("redact_in_place returns early when no redacted_because is passed and the event already carries unsigned.redacted_because", "reference_hash of an event with unsigned.redacted_because that still has something redaction strips"),
 'C05/2': ("CONTENT_HASH_FIELDS_TO_REMOVE gains age_ts, destinations, outlier (same change as C03-6, found independently)", "an event with a top-level member age_ts, destinations or outlier"),
 'C06/1': ("get_auth_chain_diff caps the difference with .take(4096) on an iterator over a HashMap", "an auth-chain difference of more than 4096 events one of which matters for the result; the runs then disagree"),
 'C06/2': ("separate() takes the number of state sets from size_hint() instead of counting", "state sets passed through an iterator with an inexact lower bound (filter, take_while, chain ...) and a state set holding an event that fails auth against that state"),
 'C07/1': ("add_event_and_auth_chain_to_graph records the edge to a conflicted auth event only for the first event that reaches it", "two conflicted events citing one conflicted auth event, the later one sorting at or before its dependency (clock skew)"),
 'C07/2': ("is_power_event keeps only bans: kicks and unbans (leave sent by someone else) are no longer power events", "a conflicted kick next to a conflicted ordinary event of the kicked user with an earlier timestamp"),
 'C08/1': ("the `@`-state-key rule parses the state key as a UserId and is skipped when the parse fails", "a state key that starts with @, differs from the sender and is not a valid user ID (@ella, @, `@a:b c`)"),
 'C08/2': ("RoomThirdPartyInviteEvent::public_keys() ignores the top-level public_key once public_keys is non-empty", "a third-party invite signed with the key in public_key while public_keys lists other keys only"),
 'C09/1': ("auth_check for m.room.create reads the state's create event and rejects when it is another event", "authorising a create event against a state that holds a different create event"),
 'C09/2': ("iterative_auth_check caches auth_types_for_event per ((type, state_key), sender)", "two member events of one sender/target with different membership in the conflicted set, the smaller selection first, and join rules changed on the other fork"),
 'C10/1': ("server_name::validate no longer checks that the byte after the host is `:`", "an IPv6 literal followed by one arbitrary byte and a valid port: [::1]8448, [::1]x80, [::1]é80 (panic)"),
 'C10/2': ("the IdZst derive deserializes Box<Id> from <&str> instead of String", "the Box<T> serde form fed from serde_json::Value, a reader, or text with an escape inside the ID"),
 'C11/1': ("MatrixId::to_string_with_type strips the sigil with trim_start_matches", "a matrix: URI of an identifier whose first character after the sigil is the sigil (!!abc:x, @@bob:x)"),
 'C11/2': ("room_id_or_alias_id::validate demands `:<server name>` for room IDs too", "an event URI (matrix: or matrix.to) whose room ID has no valid server part (!opaque, !a:b:c:d)"),
 'C12/1': ("FlattenedJson::flatten_value treats the empty parent path as the root", "an event whose root object has the key \"\" with an object value"),
 'C12/2': ("matches_pattern lowercases value and pattern with to_ascii_lowercase", "pattern and text holding the same non-ASCII cased letter in different cases at a literally matched position"),
 'C13/1': ("PartialEq for PatternedPushRule also compares the pattern", "re-inserting a content rule ID with a different pattern: two rules of one ID, stale copy left behind"),
 'C13/2': ("Ruleset::remove uses swap_remove for sender and room rules", "a room or sender kind with at least three rules, removing one that is not among the last two"),
 'C14/1': ("NodeRef::replace_with_element_name hands the children vector to the new node without re-pointing their parent links", "a deprecated / replaced element (font, strike) with at least two child nodes and something to filter in a later child"),
 'C14/2': ("remove_html_reply_fallback returns the input unchanged when it does not contain the bytes `<mx-reply`", "a fallback tag spelled <MX-REPLY> / <Mx-Reply>"),
 'C15/1': ("clean(): the attribute allow-list runs on the node before replacement, so the replacement keeps every attribute", "a deprecated element with an attribute its replacement does not allow: <font color face size>, <strike class title>"),
 'C15/2': ("scheme extraction tries `://` before `:`", "an allowed scheme without // whose value carries :// further on: magnet:?..&tr=udp://.., mailto:..?body=https://.."),
 'C16/1': ("Metadata::authorization_header: the AccessTokenOptional and AppserviceTokenOptional arms merged, both using get_required_for_endpoint()", "AppserviceTokenOptional x SendAccessToken::IfRequired (register, login)"),
 'C16/2': ("quote_ascii_string_if_required loses its empty-string special case", "an X-Matrix header with an empty signature, a Content-Disposition with an empty filename"),
 'C17/1': ("is_valid_port checks the 1*5DIGIT grammar only; ServerName::port() unwraps a u16 parse", "a five-digit port above 65535 and a call of port()"),
 'C17/2': ("CodeData::parse finds the end of the language- class with chars().position() and uses it as a byte offset", "<code> with a non-ASCII language- class followed by whitespace, and a call of to_matrix()"),
 'C18/1': ("the event-enum dispatch strips `.*` instead of `*` from a type-fragment arm: starts_with(\"m.secret_storage.key\")", "an unknown global account-data type that starts with m.secret_storage.key not followed by `.`"),
 'C18/2': ("the hand-written m.dummy content visitor no longer drains the map", "an m.dummy to-device event whose content has any member"),
 'C19/1': ("ErrorCode::UnableToAuthorizeJoin loses its rename = \"M_UNABLE_TO_AUTHORISE_JOIN\"", "the specified spelling M_UNABLE_TO_AUTHORISE_JOIN"),
 'C19/2': ("the PartialEqAsRefStr derive returns true early when the discriminants are equal", "two distinct unknown values of one of the ten enums deriving it"),
 'C20/1': ("integer_power_levels: true moves from AuthorizationRules::V10 to V8", "room version 8 or 9 and a string-typed level"),
 'C20/2': ("user_can_ban_user takes the target's level from users.get(target), an absent entry meaning level 0", "a target without users entry, users_default at or above the actor's level"),
}
HIST = {
 'C08/2': "first run: missed (no third-party-invite state event had its signing key only in public_key next to a non-empty public_keys) -> four key layouts added to the C08 generator",
 'C02/1': "first run: missed by C02 (caught by C10, which models key_id::validate) -> key versions that bring the key ID to 255, 256 and 308 bytes added to the C02 generator",
 'C17/2': "first run: missed (ElementData::to_matrix was not an entry point of the C17 harness; ruma-html's `matrix` feature was off) -> feature enabled, the typed view is walked before and after sanitizing, seed with non-ASCII typed attributes and two language- classes",
 'C03/2': "first run: no-failing-input-found (the SigConsts translator noticed the table) -> post-signing mutation of top-level keys named in the anchored sources that redaction strips",
 'C06/1': "first run: missed (no history had an auth-chain difference above a few dozen events) -> long one-sided fork stream, 70 to 9000 events in quick and up to 16500 in thorough",
 'C06/2': "first run: missed (state sets were always passed as a slice iterator) -> the runs pass them through filtered, chained and linked-list iterators too",
 'C15/2': "first run: missed (no URI value carried `://` after an allowed scheme without `//`) -> such values added to the C14/C15 URI pool",
 'C19/1': "first run: missed (the declaration is regenerated from the source, so model and implementation changed together; nothing stated which spellings the specification defines) -> specification spelling table coq/C19/SpecSpellings.v with theorem C19_specified_spellings_dedicated and a failing-input check (which also found MembershipEventFilter lacking `knock`, repaired in /repo 067bedf)",
 'C09/2': "C09 observes auth_check, not iterative_auth_check: not visible to C09; caught by C07 and C06 with a failing history",
 'C11/2': "C11: no-failing-input-found (model/implementation difference); failing input reported by C10, which owns the validator",
 'C01/1': "C01: reported through the SigConsts obligation (no-failing-input-found); failing input reported by C02 (verify_json on a large object)",
}
first, last = {}, {}
cur = None
for line in open('/var/tmp/seedres/queue.log'):
    m = re.match(r"=== seed3 (C\d+/\d) -> (.*)", line)
    if m:
        cur = m.group(1); first.setdefault(cur, {}); last.setdefault(cur, {}); continue
    m = re.match(r"(OK|VIOLATION) property=(C\d+)(.*)", line)
    if m and cur:
        v = ('VIOLATION' + (' no-failing-input-found' if 'no-failing-input-found' in m.group(3) else ' with failing input')) if m.group(1) == 'VIOLATION' else 'OK (missed)'
        first[cur].setdefault(m.group(2), v); last[cur][m.group(2)] = v
conf = {}
for line in open('/var/tmp/seedres/confirmq.log'):
    k, _, rest = line.partition(' ')
    try:
        v = ast.literal_eval(rest.strip())
        if isinstance(v, dict): conf[k[2:] if k.startswith('3:') else k] = v
    except Exception:
        pass
EXTRA_LAST = {}   # results of runs made directly in /repo (patch applied, check run, patch reverted) after the queue
if os.path.exists('/var/tmp/seedres/direct.json'):
    EXTRA_LAST = json.load(open('/var/tmp/seedres/direct.json'))
for key, (change, needs) in sorted(INFO.items()):
    pid, n = key.split('/')
    have = sorted(int(d.rsplit('-', 1)[1]) for d in glob.glob(f'/verif/seeded/{pid}-*') if not os.path.exists(d + '/.round3'))
    base = max([x for x in have] or [0])
    # stable numbering: round-3 seeds follow the earlier ones
    k = (4 if pid != 'C17' else 2) + int(n)
    src = f'/tmp/seed3-{pid}-out/{n}'; dst = f'/verif/seeded/{pid}-{k}'
    if not os.path.exists(src + '/patch.diff'): print('missing', key); continue
    os.makedirs(dst, exist_ok=True)
    for fn in os.listdir(src):
        if os.path.isfile(src + '/' + fn) and os.path.getsize(src + '/' + fn) < 200000:
            shutil.copy(src + '/' + fn, dst + '/' + fn)
    c = conf.get(key)
    l = dict(last.get(key, {})); l.update(EXTRA_LAST.get(key, {}))
    demo_fail = demo_ok = None
    if c and c['demo']:
        fails = [x for x in c['demo'] if x[0] == 'FAILED' and (x[1], x[2]) != ('54', '1')]
        oks = [x for x in c['demo'] if x[0] == 'ok']
        if fails: demo_fail = list(fails[0])
        if oks: demo_ok = list(oks[0])
    meta = {'property': pid, 'round': 3, 'history': HIST.get(key, 'caught on the first run'), 'change': change, 'needs': needs,
            'first_run': '; '.join(f'{a}: {b}' for a, b in sorted(first.get(key, {}).items())),
            'detected_by': '; '.join(f'{a}: {b}' for a, b in sorted(l.items())) or 'not run',
            'what_i_ran': [
              f'RUN.md commands in the scratch worktree /tmp/seed3-{pid} (cargo +1.88.0, offline): demo on the clean tree, then with the patch',
              'with the patch applied: cargo +1.88.0 test -p <each crate the patch touches (+ dependants for ruma-macros / ruma-identifiers-validation)> --offline --no-fail-fast',
              'tools/seedtest.sh patch.diff <checks>  (scratch copies of /repo and /verif under /var/tmp; /repo untouched)'],
            'demo_with_change': demo_fail, 'demo_clean_tree': demo_ok,
            'existing_tests_with_change': ([list(x) for x in c['existing']] if c else None),
            'existing_tests_note': 'the only failing existing test in any run is ruma-common tests/it identifiers::id_macros::ui (trybuild, compiler-message wording under a non-default target dir); it fails identically without the change'}
    json.dump(meta, open(dst + '/meta.json', 'w'), indent=1)
print(len(INFO), 'seeds;', sum(1 for k in INFO if k in conf), 'confirmed')
for k in sorted(INFO):
    print(k, '| first:', first.get(k), '| last:', last.get(k))
