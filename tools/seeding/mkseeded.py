#!/usr/bin/env python3
import json,os,re,shutil,ast,glob
INFO={
 'C04/1':("RoomVersionRules::V10 inherits from V8 instead of V9, so room version 10 silently gets the v8 redaction rules","room version 10 only (rules through RoomVersionId::rules()/RoomVersionRules::V10), an m.room.member event carrying join_authorised_via_users_server"),
 'C04/2':("third_party_invite is pruned on a clone: retain(signed) acts on a temporary and the whole object is re-inserted","room version 11, m.room.member whose third_party_invite has `signed` plus another key"),
 'C01/1':("Serialize for CanonicalJsonValue re-sorts object members by UTF-16 code units instead of iterating the BTreeMap","sibling keys that first differ at an astral character versus a BMP character >= U+E000"),
 'C01/2':("TryFrom<serde_json::Value> falls back to as_f64(): whole-valued floats, exponents and -0 are silently rewritten to integers","number literals such as 1.0, 1e2, -0, 9007199254740991.0"),
 'C05/1':("reference_hash keeps the standard base64 alphabet only for event-id format V1 (V2 = room version 3 becomes URL-safe)","room version 3 and a hash containing '+' or '/'"),
 'C05/2':("content_hash compares chars().count() instead of len() with the 65535 limit","a non-ASCII event larger than 65535 bytes but with at most 65535 characters"),
 'C02/1':("sign_json stores the new signature with entry().or_insert_with(): an existing signature under the same key id is kept","signing again with the same entity and key version after changing the object (or an object already carrying that key id)"),
 'C02/2':("Ed25519 verifier takes signature.first_chunk::<64>() instead of requiring exactly 64 bytes","a signature string with extra base64 characters appended (decodes to > 64 bytes)"),
 'C03/1':("SignaturesRules::V8 is attached to RoomVersionRules::V9 instead of V8","room version 8 exactly, restricted join whose authorising user's server signature is missing or wrong"),
 'C03/2':("v11 third_party_invite emptiness test taken before the inner keys are stripped: `{}` survives the first redaction and is dropped by the second","room version 11, member event whose third_party_invite has keys but no `signed`; sign -> redact -> verify"),
 'C13/1':("insert_and_move_rule drops the `from < to` compensation (clamping the target instead)","re-inserting an existing rule with after/before while it sits above its anchor"),
 'C13/2':("replacing an underride rule reads the previous enabled flag from the override list","insert, set_enabled(false), re-insert an underride rule (or an override and underride sharing an id)"),
 'C10/1':("validate_id counts characters instead of bytes against the 255 limit","a non-ASCII identifier longer than 255 bytes with at most 255 characters"),
 'C10/2':("is_valid_port checks the 1*5DIGIT grammar only; ServerName::port() still unwraps a u16 parse","a five-digit port above 65535 and a call to port()"),
 'C12/1':("the (?-u) flag is hoisted over the whole word-matching regex, so `.` (from `?`) matches one byte instead of one character","word matching (content.body / display name) with `?` over a multi-byte character"),
 'C12/2':("room_member_count `<=N` gets an exclusive end bound (behaves as `<N`)","a `<=` condition evaluated in a room with exactly N members"),
 'C14/1':("scheme check loop `break`s instead of `continue`s at an attribute without a scheme list","a disallowed scheme plus another attribute whose name sorts before href/src"),
 'C14/2':("class list split on ' ' only instead of split_whitespace","class value separated by TAB/LF/FF/CR with a language-* class first"),
 'C15/1':("mx-reply is removed only at depth 0","reply-fallback removal on and an <mx-reply> whose ancestors are all ignored elements (it is hoisted by the first pass)"),
 'C15/2':("deprecated attribute rewrite gated on mode == Strict exactly (compat no longer renames font[color])","compat mode, <font color=...>"),
 'C18/1':("EventTypeDeHelper.type becomes &'a str instead of Cow<'a, str>","a `type` value written with a JSON escape sequence"),
 'C18/2':("Any*EventContent::from_parts arms use only the main type, not the aliases","an alias type string passed to from_parts (org.matrix.call.sdp_stream_metadata_changed)"),
 'C19/1':("wildcard event type From<&str> uses trim_start_matches(prefix) instead of strip_prefix","a m.secret_storage.key.* suffix that itself starts with the prefix"),
 'C19/2':("room version id length check `>=` instead of `>` 32 code points","a custom room version id of exactly 32 characters"),
 'C08/1':("knock_restricted allowance gated on restricted_join_rule instead of knock_restricted_join_rule","room versions 8-9, membership knock under join rule knock_restricted"),
 'C08/2':("`users` validation of a power-levels event moved below the 'no current power levels: allow' early return","first power-levels event of a room with a malformed users map"),
 'C09/1':("auth_types_for_event no longer selects m.room.join_rules for membership knock","membership knock events in room versions >= 7"),
 'C09/2':("restricted-join branch gated on rules.knocking instead of rules.restricted_join_rule","room version 7 exactly, join rule `restricted` in state, join with join_authorised_via_users_server"),
 'C16/1':("versioning_decision_for uses greater_or_equal_any for the 'all versions removed the endpoint' test","an endpoint history with `removed` and a mixed supported-version list"),
 'C16/2':("XMatrix Display no longer quotes `destination`","destination with a port or an IPv6 literal"),
 'C06/1':("mainline_sort loses the event-id tie-break","two conflicted non-power events with equal mainline depth and equal origin_server_ts"),
 'C06/2':("early-exit condition in get_power_level_for_sender loses its parentheses (stops at m.room.create while the creator cache is empty)","non-creator moderators sending concurrent power events, create listed before power_levels in auth_events"),
 'C07/1':("get_auth_chain_diff keeps only events in exactly one auth chain (count == 1) instead of fewer than all","three or more forks with an event in the auth chains of some but not all"),
 'C07/2':("mainline_sort numbers mainline positions from the wrong end (.rev() dropped)","mainline of length >= 2 and conflicted ordinary events anchored on different mainline events"),
 'C11/1':("MatrixUri::parse percent-decodes the path before handing it to parse_with_type, which decodes each segment again","an identifier containing '%' followed by two hex digits, or '/'"),
 'C11/2':("MatrixToUri::parse compares the base URL case-insensitively by slicing s[..20]","text of at least 20 bytes whose byte 20 is inside a multi-byte character (panic)"),
 'C20/1':("ban -> leave (unban) allowed by the ban level alone: the fall-through to the kick check is lost","an unban by a sender with ban level but below kick, or with a target at or above the sender's level"),
 'C20/2':("user_can_kick_user accepts a target at the same level (<= instead of <)","actor and target at exactly the same effective level >= kick"),
 '2:C01/1':("the canonical_json and reference_hash field tables are merged and `age_ts` added: ruma_signatures::canonical_json drops a top-level age_ts","an object with a top-level member named age_ts"),
 '2:C01/2':("TryFrom<serde_json::Value> for CanonicalJsonValue: array arm uses flat_map over the Result, dropping elements that fail to convert","an unrepresentable number (fraction, exponent, > 2^53-1) inside an array"),
 '2:C02/1':("the 65535-byte PDU size check is moved into the shared canonical-JSON helper, so verify_json refuses large objects that sign_json signs","an object whose canonical form exceeds 65535 bytes"),
 '2:C02/2':("verify_json skips entities named in `signatures` for which the key map has no entry","a second signer whose keys are absent from the public key map"),
 '2:C03/1':("hash_and_sign_event keeps an existing hashes.sha256 (entry().or_insert_with)","an event that already carries a hashes.sha256 not matching its content"),
 '2:C03/2':("is_invite_via_third_party_id no longer compares membership with `invite`","a join/leave/ban/knock member event carrying an object-valued third_party_invite, not signed by the sender's server"),
 '2:C04/1':("m.room.member key join_authorised_via_users_server gated on keep_room_join_rules_allow","room version 8 only (the two flags differ in no other version)"),
 '2:C04/2':("redact_in_place returns early when the event has no `content`","an event object without a content key"),
 '2:C05/1':("RoomVersionRules::V10 built from ..Self::V8 instead of ..Self::V9","room version 10 only, m.room.member with join_authorised_via_users_server"),
 '2:C05/2':("hash_and_sign_event keeps an existing hashes.sha256 (same change as C03-3, found independently)","an event that already carries a hashes.sha256"),
 '2:C08/1':("creator-join shortcut computed with Iterator::all, vacuously true for empty prev_events","a join of the creator with no prev_events at all that the later rules reject"),
 '2:C08/2':("check_power_level_maps returns early when the new event omits the whole map, skipping the removed-entry checks","a power-levels event that drops `events`/`users`/`notifications` whose current entries exceed the sender's level"),
 '2:C10/1':("key id validator splits at the last colon (rsplit_once) while the accessors split at the first","a key id with two colons"),
 '2:C10/2':("UserId::parse_with_server_name_arc wraps the completed id unchecked (only the Arc copy of three)","a bare localpart whose completed id exceeds 255 bytes, Arc form only"),
 '2:C12/1':("matches_word restarts after the end of an occurrence that failed only its end boundary","body with an overlapping second occurrence inside the rejected one, e.g. pattern 'aa' ... "),
 '2:C12/2':("flattening an array uses map_while instead of filter_map: truncated at the first non-scalar element","event_property_contains on an array with a non-scalar element before the wanted scalar"),
 '2:C13/1':("the two server-default anchor guards merged into after.or(before): `before` is ignored when `after` is given","insert with after = user rule and before = a server-default ('.'-prefixed) rule"),
 '2:C13/2':("with both anchors the target index stays at index(after)+1 instead of index(before)","both anchors given with another rule strictly between them"),
 '2:C16/1':("generated IncomingResponse accepts only 2xx (is_success) instead of < 400","an endpoint whose response declares a 3xx status (sso_login: 302)"),
 '2:C16/2':("'%' dropped from PATH_PERCENT_ENCODE_SET","a path argument containing '%' followed by two hex digits"),
 '2:C18/1':("sync-format m.room.redaction deserializer loses the content.redacts fallback","a room-version-11 style redaction (redacts only in content) in sync format"),
 '2:C18/2':("RedactedRoomPowerLevelsEventContent.invite loses serde(default)","a redacted power-levels event without `invite` (every one redacted under v1-v10 rules)"),
 '2:C19/1':("rename_all table: m.snake_case and m.lowercase entries transposed","enums using those two rules whose variants have several words (StreamPurpose etc.)"),
 '2:C19/2':("OneTimeKeyAlgorithm derives std PartialOrd/Ord instead of the AsRefStr-based ones","comparing a known variant with a _Custom value that sorts before it as a string"),
 'C17/1':("TreeSink::reparent_children no longer clears the child's parent link before append_child","a formatting end tag (</b>, </i>, </a>...) arriving while a non-empty block element opened inside it is still open: Html::parse panics"),
 'C17/2':("ContentDisposition parse_param_value skips the byte after a backslash by *pos += 1","an unterminated quoted parameter value whose last byte is a backslash: slice out of range panic"),
 '2:C06/1':("add_event_and_auth_chain_to_graph uses graph.insert(..).is_some() to skip visited events, wiping the edges of an event reached earlier","a chain of three power events where the middle sender outranks the first; result depends on HashSet iteration order"),
 '2:C06/2':("reverse_topological_power_sort caches the sender power level per sender instead of per event","a user promoted on one fork who sends power events under both levels, plus a competing sender ranked in between"),
 '2:C07/1':("events left for the mainline pass computed as `not a power event` instead of `not in the sorted power list`: auth-chain events of pass 1 are replayed","a kick (or withdrawn invite) of a user whose join is in the conflicted set, public room"),
 '2:C07/2':("get_power_level_for_sender returns users_default early when the event has no power-levels auth event (creator loses the implicit 100)","a power event sent by the creator before the first power-levels event, conflicting with a power event of a user with level > 0"),
 '2:C09/1':("join_authorised_via_users_server parsed before the membership/version gate in auth_types_for_event","a malformed join_authorised_via_users_server on a non-join member event or in room versions < 8"),
 '2:C09/2':("the (m.room.third_party_invite, token) pair is selected only when the token is non-empty","an invite whose third_party_invite.signed.token is the empty string, with a matching state event at state key \"\""),
 '2:C11/1':("Display for MatrixUri escapes the action with the path set instead of form-urlencoding","a custom action containing '+' or '&'"),
 '2:C11/2':("MatrixId::parse_with_sigil rejects text longer than 2*255+1 bytes before percent-decoding","a legal identifier whose escaped form exceeds 511 bytes (e.g. 57+ three-byte characters)"),
 '2:C14/1':("the 100-level depth limit applies only when mode == Strict (compat loses it)","compat mode and an element nested at level 100 or deeper"),
 '2:C14/2':("remove_reply_fallback() folded into the remove_elements set, which the remove_elements(..) builder replaces","builder order .remove_reply_fallback() then .remove_elements(..), input with mx-reply"),
 '2:C15/1':("sanitize_html enables reply-fallback removal only when the raw text contains the literal `<mx-reply>`","a fallback tag spelled <MX-REPLY> or with attributes/space, RemoveReplyFallback::Yes, two passes"),
 '2:C15/2':("sanitize_inner returns text containing neither '<' nor '&' unchanged, skipping the parse/serialize round trip","pure text containing '>', U+00A0, CR or NUL"),
 '2:C20/1':("state-res power-level helper gives the creator 100 also when a power-levels event exists but has no users entry for them","creator absent from `users`, acting as or targeted by the action"),
 '2:C20/2':("state-res event_power_level uses the spec default (0/50) when the content has no `events` key, ignoring events_default/state_default","no `events` key, non-default events_default/state_default, sender level in between"),
}
# detection results from the batch logs (last occurrence wins)
det={}
for f in sorted(glob.glob('/var/tmp/seedres/batch*.log'))+['/var/tmp/seedres/queue.log']:
    cur=None
    for line in open(f):
        m=re.match(r"=== (seed2? )?(C\d+/\d)( -> (.*))?",line)
        if m: cur=('2:' if m.group(1)=='seed2 ' else '')+m.group(2); det.setdefault(cur,{}); continue
        m=re.match(r"(OK|VIOLATION) property=(C\d+)(.*)",line)
        if m and cur:
            det[cur][m.group(2)]=('VIOLATION'+(' no-failing-input-found' if 'no-failing-input-found' in m.group(3) else ' with failing input')) if m.group(1)=='VIOLATION' else 'OK (missed)'
conf={}
for f in ['/var/tmp/seedres/confirm2.log','/var/tmp/seedres/confirm2b.log','/var/tmp/seedres/confirm2c.log','/var/tmp/seedres/confirm2d.log','/var/tmp/seedres/confirmq.log']:
    if os.path.exists(f):
        for line in open(f):
            k,_,rest=line.partition(' ')
            try:
                v=ast.literal_eval(rest.strip())
                if isinstance(v,dict) and (v.get('demo') or k not in conf): conf[k]=v
            except Exception: pass
os.makedirs('/verif/seeded',exist_ok=True)
for key,(change,needs) in INFO.items():
    r2=key.startswith('2:'); pid,n=key[2:].split('/') if r2 else key.split('/')
    src=f'/tmp/seed2-{pid}-out/{n}' if r2 else f'/tmp/seed-{pid}-out/{n}'
    dst=f'/verif/seeded/{pid}-{int(n)+2}' if r2 else f'/verif/seeded/{pid}-{n}'
    if r2 and key not in det: continue   # not run yet
    if not os.path.exists(src+'/patch.diff'): print('missing',key); continue
    os.makedirs(dst,exist_ok=True)
    for fn in ['patch.diff','demo.rs','RUN.md','NOTES.md']:
        if os.path.exists(src+'/'+fn): shutil.copy(src+'/'+fn,dst+'/'+fn)
    c=conf.get(key)
    d=det.get(key,{})
    HIST={'C05/2':'first run: missed (boundary events were ASCII only) -> multi-byte boundary events added to the C05 generator',
          'C01/2':'first run: reported no-failing-input-found -> spec predicate now requires the accepted value to be the value of the text',
          'C10/2':'first run: missed (the open finding C10-port-above-65535 exempted every case of that class) -> known findings now exempt spec failures only, and this one only when the implementation rejects',
          'C18/1':'first run: missed (event texts never spelled strings with escapes) -> equivalent escape spellings added to the rendered texts',
          'C19/1':'first run: missed -> self-repeating wildcard suffixes added to the C19 generator',
          'C19/2':'not visible to C19 (the length rule of room version ids lives in ruma-identifiers-validation, which C10 models); caught by C10',
          'C06/2':'first run: missed by C06 (caught by C07) -> concurrent-moderators scenario added to C06/C07',
          'C03/2':'first run: no-failing-input-found (translator error only) -> systematic third_party_invite shapes added to the C04 generator, C03 generator varies `signed`',
          'C14/2':'first run: no-failing-input-found -> class values with TAB/LF/FF/CR separators after a language- class added',
          'C15/2':'first run: no-failing-input-found -> deprecated-rewrite clause added to the C15 spec predicate',
          '2:C01/1':'first run: missed (no generated object had a member named age_ts) -> object keys are now also drawn from every string literal of the anchored source files (read at build time), plus a systematic stream of each such key',
          '2:C05/2':'first run: missed by C05 (caught by C03): the stale-hash events for hash_and_sign_event had an ill-typed `signatures` and were dropped as sign errors -> signable variants added',
          '2:C09/2':'first run: missed (every generated token was non-empty) -> empty-token invites added to the C08/C09 generator, systematic and random',
          '2:C11/2':'first run: missed (no identifier near the 255-byte limit with escaped characters) -> systematic-long stream added',
          '2:C15/1':'first run: missed by C15 (caught by C14): the C15 harness drove Html::sanitize_with only -> it now observes sanitize_html applied once and twice, as the property names',
          '2:C15/2':'first run: missed by C15 (caught by C14), same gap as C15-3',
          '2:C16/1':'first run: missed (no endpoint with a 3xx response status went through the real macros) -> sso_login (302) added to the real-endpoint round-trip stream',
          '2:C02/1':'not blind: the > 65535-byte objects were added to the C02 generator after I had read this change, before its first run',
          'C02/2':'tamper stream extended with signatures carrying appended base64 characters before this run'}
    CLEAN={'C02/1':['ok','3','0'],'C02/2':['ok','3','0'],'2:C02/1':['ok','3','0'],'2:C02/2':['ok','4','0'],'C17/1':['ok','4','0'],'C17/2':['ok','3','0']}
    demo_fail=demo_ok=None
    if c and c['demo']:
        fails=[x for x in c['demo'] if x[0]=='FAILED' and (x[1],x[2]) not in (('16','1'),('54','1'))]
        if fails:
            demo_fail=list(fails[0]); tot=str(int(fails[0][1])+int(fails[0][2]))
            if ('ok',tot,'0') in c['demo']: demo_ok=['ok',tot,'0']
            elif key in CLEAN: demo_ok=CLEAN[key]+['run separately on a clean worktree: RUN.md has no clean-tree step']
    meta={'property':pid,'history':HIST.get(key,'caught on the first run'),'change':change,'needs':needs,
          'detected_by':'; '.join(f'{k}: {v}' for k,v in sorted(d.items())) or 'not run yet',
          'what_i_ran':[
            'RUN.md commands in the scratch worktree /tmp/%s-%s (cargo +1.88.0, offline): demo on the clean tree, then with the patch'%('seed2' if r2 else 'seed',pid),
            'with the patch applied: cargo +1.88.0 test -p <each crate the patch touches (+ dependants for ruma-macros / ruma-identifiers-validation)> --offline --no-fail-fast',
            'tools/seedtest.sh patch.diff <checks>  (scratch copies of /repo and /verif; /repo untouched)'],
          'demo_with_change':demo_fail,
          'demo_clean_tree':demo_ok,
          'existing_tests_with_change':( [list(x) for x in c['existing']] if c else None),
          'existing_tests_note':'the only failing existing test in any run is ruma-common tests/it identifiers::id_macros::ui (trybuild, compiler-message wording under a non-default target dir); it fails identically without the change',
         }
    json.dump(meta,open(dst+'/meta.json','w'),indent=1)
print(len(INFO),'seeds;', sum(1 for k in INFO if k in conf),'confirmed so far')
for k in sorted(det): print(k,det[k])
