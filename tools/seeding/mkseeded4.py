#!/usr/bin/env python3
"""Round 4: copy the confirmed seeded changes from /tmp/seed4-<id>-out/<n> into seeded/<id>-<k>/ with
meta.json (what the change is, what it needs, what I ran, first and last detection results)."""
import json, os, re, shutil, ast, glob
INFO = {
 'C01/1': ("to_canonical_value removes object members whose value is null (at every depth) before converting", "a value reaching canonical form through to_canonical_value with an object member that is JSON null"),
 'C01/2': ("Deserialize for CanonicalJsonValue pre-checks numbers with strict bounds MIN_SAFE_INT < n < MAX_SAFE_INT", "a JSON text containing exactly 9007199254740991 or -9007199254740991"),
 'C02/1': ("sign_json sets `unsigned` aside only when it is an object", "a top-level `unsigned` that is null, a string, an array or a number: signed bytes still contain it, verify_json strips it"),
 'C02/2': ("verify_canonical_json_for_entity stops checking an entity's signatures after the first good one (`if checked { continue }`)", "one entity with two Ed25519 signatures, keys for both supplied, the later one (in key-ID order) tampered"),
 'C03/1': ("verify_event returns Verified::Signatures early when unsigned carries redacted_because", "an intact event whose unsigned has a redacted_because member: downgraded from All by unauthenticated data"),
 'C03/2': ("is_event_key_retained no longer keeps the top-level `membership` key (room versions 1-10)", "room version 1-10 and an event with a top-level membership key, changed after signing"),
 'C04/1': ("retained_event_content_keys matches on event_type.strip_prefix(\"m.room.\").unwrap_or(event_type): bare `member`, `create` ... get the m.room.* rules", "an event whose type is literally member, create, join_rules, power_levels, history_visibility, redaction or aliases"),
 'C04/2': ("room_create_content_retained_keys for v11 becomes an allow-list of the five specified keys instead of All", "room version 11, m.room.create with a content key outside creator / m.federate / predecessor / room_version / type"),
 'C05/1': ("reference_hash skips redaction when content is {}", "content exactly {} and a top-level key redaction drops (top-level redacts of a v3-10 redaction, origin in v11, a custom key)"),
 'C05/2': ("v11 redaction of third_party_invite checks emptiness before stripping: an object that becomes empty is kept as {}", "room version 11, m.room.member whose third_party_invite is non-empty without `signed`"),
 'C06/1': ("resolve calls mainline_sort only when the resolved control state has a power-levels event; otherwise the HashSet order is replayed", "a room without m.room.power_levels and two conflicted non-power events of one key"),
 'C06/2': ("lexicographical_topological_sort returns heap.into_iter() when no node has edges (heap array order, not sorted)", "a conflicted control-event graph of three or more nodes without edges, two of them competing for one state key"),
 'C07/1': ("the power-levels event handed to mainline_sort is looked up in the unconflicted map instead of the resolved control state", "forks that disagree on the power-levels event, competing ordinary events whose closest mainline events differ, the one under the older power levels carrying the later timestamp"),
 'C07/2': ("auth_types_for_event selects the join_authorised_via_users_server member only when knock_restricted_join_rule (v10+) instead of restricted_join_rule (v8+)", "room version 8 or 9, a restricted join whose vouching user is banned / leaves concurrently on another fork"),
 'C08/1': ("check_room_member_leave decides an unban by the ban level alone (returns Ok), skipping the kick-level and target-level rule", "target membership ban, sender at or above ban, and kick above the sender's level or the banned user's level at or above the sender's"),
 'C08/2': ("check_room_redaction (v1-v2) takes the origin from the sender's server name instead of the redaction's event ID", "room version 1 or 2, sender below the redact level, redaction event ID on a different domain than its sender"),
 'C09/1': ("check_room_member_join parses join_authorised_via_users_server and fetches that user's membership before the join-rule / version gate", "room version <= 7 (or a non-restricted join rule) and a join carrying a valid join_authorised_via_users_server; outcome differs when that user's member event is malformed"),
 'C09/2': ("the state-res member content helper reads the field under the `authorized` spelling with the specified spelling as serde alias", "a v8+ join whose content has the member join_authorized_via_users_server (or both spellings)"),
 'C10/1': ("event_id::validate returns early for IDs containing a colon, skipping the NUL check", "an original-format event ID with NUL in its localpart: $abc\\0def:example.org"),
 'C10/2': ("server_name hostname alphabet written as b'A'..=b'z' (includes [ \\ ] ^ _ `)", "a hostname with one of the six characters between Z and a; `ab]c.org:8448` makes port() panic"),
 'C11/1': ("PATH_PERCENT_ENCODE_SET rebuilt on a query set: the space is lost", "a matrix: URI whose last identifier ends in a space (url::Url::parse trims it)"),
 'C11/2': ("MatrixId::parse_with_sigil decodes the event segment only if decoding the room segment changed something", "an event URI whose room part needs no escapes and whose event ID does (v3 IDs with `/`)"),
 'C12/1': ("wildcards_to_regex counts the `?` of a run only up to the first `*`", "content.body / display-name matching with a run such as `*?` or `?*?` and a body too short for it"),
 'C12/2': ("the own-event checks are dropped from get_match and kept only in the room / sender arms of AnyPushRuleRef::applies", "the user's own event and an enabled override / underride rule with an empty condition list (.m.rule.master switched on)"),
 'C13/1': ("Ruleset::set_actions rebuilds room and sender rules with NewSimplePushRule::new(..).into(): enabled is reset to true", "set_enabled(false) then set_actions on one room or sender rule"),
 'C13/2': ("ConditionalPushRule::room_one_to_one() is built with default: false", "remove(Underride, .m.rule.room_one_to_one) from the server-default ruleset succeeds"),
 'C14/1': ("clean(): the Ignore branch iterates node.children() directly and the stack push re-reads it after the children were hoisted", "a not-allowed or scheme-rejected element with an element child that itself needs sanitizing"),
 'C14/2': ("has_one_of_schemes splits the value at the first `:` but compares with starts_with instead of ==", "a scheme that extends an allowed one: ftps://, httpx://, mailtoo:, mxcs://"),
 'C15/1': ("clean(): the children of an ignored element are collected after they were moved away (empty list)", "an ignored element with an element child that needs work: idempotence and the deprecated rewrite break"),
 'C15/2': ("ALLOWED_SCHEMES_A_HREF_COMPAT becomes a complete list without magnet, used instead of chained with the strict list", "compat mode and a magnet: link"),
 'C16/1': ("VersionHistory::unstable() returns the first unstable path instead of the last", "a history with two or more unstable paths and no supported version reaching the stable one"),
 'C16/2': ("Content-Disposition parse_param_value loses the escape_next toggle (a backslash can itself be escaped)", "a filename ending in a backslash"),
 'C17/1': ("RoomCanonicalAliasEventContent.alt_aliases gains deserialize_with = ignore_invalid_vec_items", "one element of alt_aliases replaced by an array or object, read from text: the loop never ends"),
 'C17/2': ("deserialize_v1_powerlevel: the doubled-sign guard becomes !without.as_bytes()[0].is_ascii_digit()", "a string power level that is a bare plus sign (`+`, ` + `)"),
 'C18/1': ("the EventContent derive puts serde(deny_unknown_fields) on generated Redacted*EventContent structs", "a redacted event whose content keeps a member the redacted struct does not list"),
 'C18/2': ("duration::opt_ms serializes through as_secs_f64() * 1000.0", "m.audio / m.video info.duration that is not a whole number of seconds, on about 1 % of values (1001, 1003, ...)"),
 'C19/1': ("the OrdAsRefStr / PartialOrdAsRefStr derives compare after to_ascii_lowercase()", "two values differing only in ASCII case (a custom value or a case near-miss)"),
 'C19/2': ("two entries of event_enum! MessageLike swap places while the alias attribute stays: the legacy name lands on m.call.select_answer", "the legacy type org.matrix.call.sdp_stream_metadata_changed"),
 'C20/1': ("RoomPowerLevelsEventContent.invite: serde default becomes default = default_power_level (50)", "a power-levels content without `invite` and an actor between 0 and 49"),
 'C20/2': ("check_room_member_invite: the deny-list on the target's membership becomes an allow-list (leave | invite)", "room version 7-11, inviting a user whose membership is knock"),
}
HIST = {
 'C16/2': "first run: missed by C16 (C17 noticed a model difference without input): the Content-Disposition of the media response had no filename -> filename taken from the hostile value, quoted-string characters among the per-position values",
 'C17/2': "first run: missed by C17 (caught by C08 and C20, which generate string levels systematically) -> sign-only and degenerate numeric strings among the hostile strings, power-levels seed read on its own",
 'C19/2': "first run: missed by C19 (caught by C18): nothing stated what a legacy name must read as -> spec_aliases table with theorem C19_legacy_names_read_as_standard and a failing-input check",
 'C18/1': "first run: missed (redacted events always carried content pruned by ruma's own algorithm) -> redacted events whose content keeps leftover members",
 'C18/2': "first run: missed by C18 (caught by C16 through a body with the same helper) -> precision-sensitive integers in the content generators",
 'C04/1': "first run: no-failing-input-found (the RedactTables translator noticed the rewritten match) -> near-miss event types (bare suffixes, case, blanks, other prefixes) in the systematic stream",
 'C13/2': "first run: no-failing-input-found (the defaults obligation broke; the specification read `server-default` off the compiled flag) -> every server-default rule against every edit, and the specification's start state marks rules server-default by origin",
 'C07/2': "not visible to C07: auth_types_for_event enters C07's model as an oracle observed per case (the selection is C09's subject); caught by C09 with a failing input",
 'C09/2': "first run: missed by C09 and C08 (no content carried a near-miss spelling of the member) -> near-miss spellings in restricted joins",
 'C02/2': "first run: no-failing-input-found (the model differed; the spec predicate asked for one honest signature per entity only) -> the predicate now requires every supported signature of an entity to be honest",
}
first, last = {}, {}
cur = None
for line in open('/var/tmp/seedres/queue.log'):
    m = re.match(r"=== seed4 (C\d+/\d) -> (.*)", line)
    if m:
        cur = m.group(1); first.setdefault(cur, {}); last.setdefault(cur, {}); continue
    if line.startswith('=== '):
        cur = None; continue
    m = re.match(r"(OK|VIOLATION) property=(C\d+)(.*)", line)
    if m and cur:
        v = ('VIOLATION' + (' no-failing-input-found' if 'no-failing-input-found' in m.group(3) else ' with failing input')) if m.group(1) == 'VIOLATION' else 'OK (missed)'
        first[cur].setdefault(m.group(2), v); last[cur][m.group(2)] = v
conf = {}
for line in open('/var/tmp/seedres/confirmq.log'):
    k, _, rest = line.partition(' ')
    try:
        v = ast.literal_eval(rest.strip())
        if isinstance(v, dict): conf[k[2:] if k.startswith('4:') else k] = v
    except Exception:
        pass
EXTRA_LAST = {}   # results of runs made directly in /repo (patch applied, check run, patch reverted) after the queue
if os.path.exists('/var/tmp/seedres/direct4.json'):
    EXTRA_LAST = json.load(open('/var/tmp/seedres/direct4.json'))
# confirmed when made, but no longer a breaking change on the current tree
SKIP = {'C17/1': 'the hang it caused went through ruma_common::serde::ignore_invalid_vec_items, whose endless loop was repaired in /repo 9d6b836 (found through this very change: see DESIGN 13.2b); with the repaired helper the demo passes'}
for key, (change, needs) in sorted(INFO.items()):
    if key in SKIP:
        continue
    pid, n = key.split('/')
    have = sorted(int(d.rsplit('-', 1)[1]) for d in glob.glob(f'/verif/seeded/{pid}-*') if not os.path.exists(d + '/.round3'))
    base = max([x for x in have] or [0])
    # stable numbering: round-3 seeds follow the earlier ones
    k = (6 if pid != 'C17' else 4) + int(n)
    src = f'/tmp/seed4-{pid}-out/{n}'; dst = f'/verif/seeded/{pid}-{k}'
    if not os.path.exists(src + '/patch.diff'): print('missing', key); continue
    os.makedirs(dst, exist_ok=True)
    for fn in os.listdir(src):
        if os.path.isfile(src + '/' + fn) and os.path.getsize(src + '/' + fn) < 200000:
            shutil.copy(src + '/' + fn, dst + '/' + fn)
    c = conf.get(key)
    l = dict(last.get(key, {})); l.update(EXTRA_LAST.get(key, {}))
    demo_fail = demo_ok = None
    if c and c['demo']:
        fails = [x for x in c['demo'] if x[0] == 'FAILED' and (x[1], x[2]) != ('54', '1')]
        oks = [x for x in c['demo'] if x[0] == 'ok']
        if fails: demo_fail = list(fails[0])
        if oks: demo_ok = list(oks[0])
    meta = {'property': pid, 'round': 4, 'history': HIST.get(key, 'caught on the first run'), 'change': change, 'needs': needs,
            'first_run': '; '.join(f'{a}: {b}' for a, b in sorted(first.get(key, {}).items())),
            'detected_by': '; '.join(f'{a}: {b}' for a, b in sorted(l.items())) or 'not run',
            'what_i_ran': [
              f'RUN.md commands in the scratch worktree /tmp/seed4-{pid} (cargo +1.88.0, offline): demo on the clean tree, then with the patch',
              'with the patch applied: cargo +1.88.0 test -p <each crate the patch touches (+ dependants for ruma-macros / ruma-identifiers-validation)> --offline --no-fail-fast',
              'tools/seedtest.sh patch.diff <checks>  (scratch copies of /repo and /verif under /var/tmp; /repo untouched)'],
            'demo_with_change': demo_fail, 'demo_clean_tree': demo_ok,
            'existing_tests_with_change': ([list(x) for x in c['existing']] if c else None),
            'existing_tests_note': 'the only failing existing test in any run is ruma-common tests/it identifiers::id_macros::ui (trybuild, compiler-message wording under a non-default target dir); it fails identically without the change'}
    json.dump(meta, open(dst + '/meta.json', 'w'), indent=1)
print(len(INFO), 'seeds;', sum(1 for k in INFO if k in conf), 'confirmed')
for k in sorted(INFO):
    print(k, '| first:', first.get(k), '| last:', last.get(k))
