#!/bin/bash
# processes lines "<pre> <pid> <n> <check> [<check>...]" appended to /var/tmp/sq.txt
touch /var/tmp/sq.txt
i=0
cd /verif
while true; do
  total=$(wc -l < /var/tmp/sq.txt)
  if [ $i -lt $total ]; then
    i=$((i+1)); line=$(sed -n "${i}p" /var/tmp/sq.txt)
    [ "$line" = "STOP" ] && exit 0
    set -- $line; pre=$1; pid=$2; n=$3; shift 3
    f=/tmp/$pre-$pid-out/$n/patch.diff
    if [ ! -f $f ]; then echo "=== $pre $pid/$n MISSING PATCH" >> /var/tmp/seedres/queue.log; continue; fi
    if [ "$1" != "CONFIRMONLY" ]; then
      echo "=== $pre $pid/$n -> $*" >> /var/tmp/seedres/queue.log
      tools/seedtest.sh $f "$@" 2>&1 | tail -4 >> /var/tmp/seedres/queue.log
    fi
    case $pre in seed) a="$pid/$n";; *) a="${pre#seed}:$pid/$n";; esac
    python3 /verif/tools/seeding/confirm2.py $a >> /var/tmp/seedres/confirmq.log 2>&1
  else
    sleep 20
  fi
done
