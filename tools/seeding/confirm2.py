#!/usr/bin/env python3
"""Confirm a seeded change myself: (a) the RUN.md demo commands (demo passes clean / fails with the
patch), (b) the existing tests of every crate the patch touches, with the patch applied."""
import re,subprocess,sys,os
FEATS={'ruma-common':'--features api,canonical-json,rand','ruma-events':'--features canonical-json','ruma-federation-api':'--features client,server','ruma-client-api':'--features client,server'}
def sh(script,log,timeout=7200):
    with open(log,'a') as f:
        return subprocess.run(['bash','-c',script],stdout=f,stderr=subprocess.STDOUT,timeout=timeout).returncode
def run(pid,n,pre='seed'):
    d=f'/tmp/{pre}-{pid}-out/{n}'; wt=f'/tmp/{pre}-{pid}'
    log=f'/var/tmp/seedres/confirm2-{pre}-{pid}-{n}.log'; open(log,'w').close()
    made=False
    if not os.path.isdir(wt):
        subprocess.run(['git','-C','/repo','worktree','add','-q','--detach',wt]); made=True
        os.makedirs('/var/tmp/seedtarget',exist_ok=True)
        os.symlink('/var/tmp/seedtarget',wt+'/target')
    rm=open(d+'/RUN.md').read()
    blocks=re.findall(r"```(?:sh|bash|shell|console)?\n(.*?)```", rm, re.S)
    if not blocks:
        blocks=["\n".join(l[4:] for l in rm.split("\n") if l.startswith("    "))]
    sh("set -x\n"+"\n".join(blocks),log)
    subprocess.run(['git','-C',wt,'checkout','--','.']); subprocess.run(['git','-C',wt,'clean','-fdq','-e','target'])
    out=open(log).read()
    demo=re.findall(r"test result: (ok|FAILED)\. (\d+) passed; (\d+) failed", out)
    # (b) existing tests with the patch
    patch=open(d+'/patch.diff').read()
    crates=sorted(set(re.findall(r"^\+\+\+ b/crates/([^/]+)/", patch, re.M)))
    log2=f'/var/tmp/seedres/confirm2-{pre}-{pid}-{n}-existing.log'; open(log2,'w').close()
    sh(f"cd {wt} && git apply {d}/patch.diff", log2)
    res=[]
    for c in crates:
        if c=='ruma-macros': cs=['ruma-macros','ruma-common','ruma-events']
        elif c=='ruma-identifiers-validation': cs=[c,'ruma-common']
        else: cs=[c]
        for cc in cs:
            sh(f"cd {wt} && CARGO_TARGET_DIR={wt}/target cargo +1.88.0 test -p {cc} {FEATS.get(cc,'')} --offline --no-fail-fast 2>&1 | grep -E 'test result|FAILED|failed' ", log2)
    subprocess.run(['git','-C',wt,'checkout','--','.']); subprocess.run(['git','-C',wt,'clean','-fdq','-e','target'])
    if made:
        subprocess.run(['git','-C','/repo','worktree','remove','--force',wt])
    ex=open(log2).read()
    exres=re.findall(r"test result: (ok|FAILED)\. (\d+) passed; (\d+) failed", ex)
    bad=[l for l in ex.split("\n") if ('FAILED' in l or ' failed' in l) and 'id_macros' not in l and 'test result: ok' not in l]
    return {'demo':demo,'existing':exres,'existing_bad_lines':bad[:6],'crates':crates}
for arg in sys.argv[1:]:
    pre='seed'
    m=re.match(r'(\d+):(.*)',arg)
    if m: pre='seed'+m.group(1); arg2=m.group(2)
    else: arg2=arg
    pid,n=arg2.split('/')
    try: r=run(pid,n,pre)
    except Exception as e: r=repr(e)
    print(arg, r, flush=True)
