#!/bin/bash
# soak.sh: run every claimed check with several seeds (quick) and once thorough; print one line per run.
cd "$(dirname "$0")/.."
bin/check setup >/dev/null 2>&1 || echo "SETUP FAILED"
PROPS=$(ls props/*.json | xargs -n1 basename | sed 's/.json//')
for s in ${SEEDS:-2 3 4 5 6}; do
  for p in $PROPS; do
    out=$(VERIF_SEED=$s bin/check run $p 2>&1 | grep -E "^(OK|VIOLATION)")
    echo "seed=$s $out"
    case "$out" in VIOLATION*) f=$(echo "$out" | sed 's/.*replay=\([^ ]*\).*/\1/'); head -c 1500 "$f"; echo;; esac
  done
done
if [ -n "${THOROUGH:-1}" ]; then
  for p in $PROPS; do
    out=$(VERIF_SEED=1 bin/check run $p --tier thorough 2>&1 | grep -E "^(OK|VIOLATION)")
    echo "thorough $out"
    case "$out" in VIOLATION*) f=$(echo "$out" | sed 's/.*replay=\([^ ]*\).*/\1/'); head -c 1500 "$f"; echo;; esac
  done
fi
