#!/usr/bin/env python3
"""Debug helper: decode C08/C09 cases (s-expressions) into readable text.
usage: c08_show.py <run dir> [--max N]   lists disagreements / spec failures of a run
       c08_show.py --case '<sexp>'        pretty-prints one case"""
import json
import sys


def parse(s):
    toks = s.split()
    pos = 0

    def item():
        nonlocal pos
        t = toks[pos]
        pos += 1
        if t == "(":
            l = []
            while toks[pos] != ")":
                l.append(item())
            pos += 1
            return l
        if t[0] == "N":
            return int(t[1:])
        return bytes.fromhex(t[1:]).decode("utf-8", "replace")
    return item()


def js(x):
    t = x[0]
    if t == 0:
        return None
    if t == 1:
        return bool(x[1])
    if t == 2:
        return x[1]
    if t == 3:
        return x[1]
    if t == 4:
        return [js(y) for y in x[1:]]
    return {k: js(v) for k, v in x[1:]}


def ev(x):
    i, room, sender, ty, sk, content, prev, auth, red = x
    d = {"id": i, "sender": sender, "type": ty, "content": js(content)}
    if room != "!room:s1":
        d["room"] = room
    if sk:
        d["state_key"] = sk[0]
    if prev:
        d["prev"] = prev
    if auth:
        d["auth"] = auth
    if red:
        d["redacts"] = red[0]
    return d


def show_case(c):
    v, e, st, orc = c[0], c[1], c[2], c[3]
    out = ["v%d EVENT %s" % (v, json.dumps(ev(e), ensure_ascii=False))]
    for t, k, se in st:
        d = ev(se)
        out.append("   state (%s, %r): sender=%s content=%s id=%s" % (t, k, d["sender"], json.dumps(d["content"], ensure_ascii=False), d["id"]))
    if orc:
        out.append("   oracle: %d verifying triples" % len(orc))
    for extra in c[4:]:
        out.append("   extra: %s" % str(extra)[:300])
    return "\n".join(out)


def main():
    a = sys.argv[1:]
    if a[0] == "--case":
        print(show_case(parse(a[1])))
        return
    d = a[0]
    mx = int(a[a.index("--max") + 1]) if "--max" in a else 20
    n = 0
    kinds = {}
    for cl, ml in zip(open(d + "/cases.txt"), open(d + "/model.txt")):
        pair = parse(cl)
        case, impl = pair
        m = parse(ml)
        mout, flag = m
        bad = []
        if mout != impl:
            bad.append("MODEL!=IMPL")
        if flag != 1:
            bad.append("SPEC")
        if bad:
            key = (tuple(bad), case[0], case[1][3], json.dumps(js(case[1][5]))[:60])
            kinds[key] = kinds.get(key, 0) + 1
            if n < mx:
                print("----", " ".join(bad), "impl=", impl, "model=", mout)
                print(show_case(case))
            n += 1
    print("total flagged:", n)
    for k, c in sorted(kinds.items(), key=lambda kv: -kv[1])[:60]:
        print(c, k)


main()
