#!/usr/bin/env python3
"""C19/C18 translator: string-enum declarations and event tables, from ruma's SOURCE TEXT.

  coq/Gen/StringEnums.v       every enum deriving StringEnum (or FromString + AsRefStr): rename_all
                              rule, variants in declaration order with `rename` / `alias`
                              attributes, the data-carrying fallback variant; the seven
                              `*EventType` enums that `event_enum!` generates (event_type.rs:
                              per-kind grouping, dedup, aliases, `.*` entries); the per-kind
                              dispatch tables of the `Any*Event` enums (event_enum.rs).
  harness/src/gen_enums.rs    the same enums as Rust paths, so that the harness instantiates its
                              generic checker for every one of them (an enum added to ruma is
                              picked up; one whose path cannot be derived is an error, not a skip).

Two configurations are emitted for declarations that contain `#[cfg(feature = ..)]` items: the one
compiled into the harness (features read from harness/Cargo.toml and the crates' [features] tables)
- that is what the correspondence run compares against - and the one with every feature on, so that
the well-formedness obligation also covers the unstable spellings.

Deliberately dumb: anything outside the attribute grammar of ruma-macros/src/serde/{attr,util}.rs and
ruma-macros/src/events/event_parse.rs is a TranslateError.
"""
import os
import re
import sys

sys.path.insert(0, os.path.dirname(os.path.dirname(os.path.abspath(__file__))))
import translate  # noqa: E402
from translate import TranslateError  # noqa: E402

REPO = "/repo"
VERIF = os.path.dirname(os.path.dirname(os.path.dirname(os.path.abspath(__file__))))

# crates scanned for string enums (all library crates of the workspace except the proc-macro crate)
CRATES = ["ruma-common", "ruma-events", "ruma-state-res", "ruma-client-api", "ruma-federation-api",
          "ruma-appservice-api", "ruma-identity-service-api", "ruma-push-gateway-api", "ruma-signatures",
          "ruma-html", "ruma-identifiers-validation"]

RULES = {  # case.rs FromStr for RenameRule
    "lowercase": "LowerCase", "UPPERCASE": "Uppercase", "PascalCase": "PascalCase", "camelCase": "CamelCase",
    "snake_case": "SnakeCase", "SCREAMING_SNAKE_CASE": "ScreamingSnakeCase", "kebab-case": "KebabCase",
    "SCREAMING-KEBAB-CASE": "ScreamingKebabCase", "M_MATRIX_ERROR_CASE": "MatrixErrorCase",
    "m.snake_case": "MatrixSnakeCase", "m.lowercase": "MatrixLowerCase", "m.dotted.case": "MatrixDottedCase",
    ".m.rule.snake_case": "MatrixRuleSnakeCase", "m.role.snake_case": "MatrixRoleSnakeCase",
}


# ----------------------------------------------------------------------------------------------
# A total lexer for Rust source files (comments dropped; enough token classes for item scanning)
# ----------------------------------------------------------------------------------------------
IDENT = re.compile(r"(?:r#)?[A-Za-z_][A-Za-z0-9_]*")
NUM = re.compile(r"\d[\dA-Za-z_.]*")
ESC = {"n": "\n", "r": "\r", "t": "\t", "\\": "\\", "0": "\0", '"': '"', "'": "'"}


def unescape(body, where):
    out, i = [], 0
    while i < len(body):
        c = body[i]
        if c != "\\":
            out.append(c)
            i += 1
            continue
        e = body[i + 1]
        if e in ESC:
            out.append(ESC[e])
            i += 2
        elif e == "x":
            out.append(chr(int(body[i + 2:i + 4], 16)))
            i += 4
        elif e == "u":
            j = body.index("}", i)
            out.append(chr(int(body[i + 3:j].replace("_", ""), 16)))
            i = j + 1
        elif e == "\n":
            i += 2
            while i < len(body) and body[i] in " \t\n\r":
                i += 1
        else:
            raise TranslateError("%s: unknown escape \\%s" % (where, e))
    return "".join(out)


def lex(src, where):
    toks, i, n = [], 0, len(src)
    while i < n:
        c = src[i]
        if c in " \t\r\n":
            i += 1
        elif src.startswith("//", i):
            j = src.find("\n", i)
            i = n if j < 0 else j
        elif src.startswith("/*", i):
            depth, i = 1, i + 2
            while depth and i < n:
                if src.startswith("/*", i):
                    depth, i = depth + 1, i + 2
                elif src.startswith("*/", i):
                    depth, i = depth - 1, i + 2
                else:
                    i += 1
        elif c == '"' or (c == "b" and src.startswith('b"', i)):
            i += 1 if c == '"' else 2
            j = i
            while src[j] != '"':
                j += 2 if src[j] == "\\" else 1
            toks.append(("str", unescape(src[i:j], where)))
            i = j + 1
        elif (c == "r" or src.startswith("br", i)) and re.match(r"b?r#*\"", src[i:i + 12]):
            m = re.match(r"b?r(#*)\"", src[i:])
            close = '"' + m.group(1)
            j = src.index(close, i + m.end())
            toks.append(("str", src[i + m.end():j]))
            i = j + len(close)
        elif c == "'" or src.startswith("b'", i):
            k = i + (1 if c == "'" else 2)
            # char literal: 'x' or '\..'; otherwise a lifetime
            if src[k] == "\\":
                j = src.index("'", k + 2)
                toks.append(("chr", src[k:j]))
                i = j + 1
            elif k + 1 < n and src[k + 1] == "'":
                toks.append(("chr", src[k]))
                i = k + 2
            elif ord(src[k]) > 127 and k + 1 < n and src[k + 1] == "'":
                toks.append(("chr", src[k]))
                i = k + 2
            else:
                m = IDENT.match(src, k)
                if not m:
                    raise TranslateError("%s: cannot lex at %r" % (where, src[i:i + 20]))
                toks.append(("life", m.group(0)))
                i = m.end()
        elif IDENT.match(src, i):
            m = IDENT.match(src, i)
            toks.append(("id", m.group(0)))
            i = m.end()
        elif c.isdigit():
            m = NUM.match(src, i)
            toks.append(("num", m.group(0)))
            i = m.end()
        else:
            toks.append(("p", c))
            i += 1
    return toks


CLOSE = {"(": ")", "[": "]", "{": "}"}


def group_end(t, i):
    """t[i] is an opening bracket; index just after its matching close."""
    stack = []
    while i < len(t):
        k, v = t[i]
        if k == "p" and v in CLOSE:
            stack.append(CLOSE[v])
        elif k == "p" and v in ")]}":
            if not stack or stack.pop() != v:
                raise TranslateError("unbalanced brackets")
            if not stack:
                return i + 1
        i += 1
    raise TranslateError("unbalanced brackets (eof)")


# ----------------------------------------------------------------------------------------------
# cfg predicates
# ----------------------------------------------------------------------------------------------
def parse_cfg(t):
    """tokens of a cfg predicate -> tree: ('feat',name) | ('flag',name) | ('kv',k,v) | ('not',x) | ('any',[..]) | ('all',[..])"""
    pos = [0]

    def pred():
        k, v = t[pos[0]]
        if k != "id":
            raise TranslateError("cfg: unexpected token %r" % (t[pos[0]],))
        pos[0] += 1
        if pos[0] < len(t) and t[pos[0]] == ("p", "("):
            pos[0] += 1
            args = []
            while t[pos[0]] != ("p", ")"):
                args.append(pred())
                if t[pos[0]] == ("p", ","):
                    pos[0] += 1
            pos[0] += 1
            if v == "not":
                if len(args) != 1:
                    raise TranslateError("cfg(not) arity")
                return ("not", args[0])
            if v in ("any", "all"):
                return (v, args)
            raise TranslateError("cfg: unknown combinator %s" % v)
        if pos[0] < len(t) and t[pos[0]] == ("p", "="):
            pos[0] += 1
            k2, lit = t[pos[0]]
            if k2 != "str":
                raise TranslateError("cfg: expected string")
            pos[0] += 1
            return ("feat", lit) if v == "feature" else ("kv", v, lit)
        return ("flag", v)

    r = pred()
    if pos[0] != len(t):
        raise TranslateError("cfg: trailing tokens")
    return r


def cfg_eval(c, feats, everything=False):
    """feats: set of enabled features of the crate; everything=True: every feature on."""
    k = c[0]
    if k == "feat":
        return True if everything else c[1] in feats
    if k == "flag":
        return {"test": False, "doc": False, "ruma_unstable_exhaustive_types": False, "docsrs": False,
                "debug_assertions": True, "unix": True, "windows": False}.get(c[1], False)
    if k == "kv":
        return False
    if k == "not":
        return not cfg_eval(c[1], feats, everything)
    if k == "any":
        return any(cfg_eval(x, feats, everything) for x in c[1])
    if k == "all":
        return all(cfg_eval(x, feats, everything) for x in c[1])
    raise TranslateError("cfg_eval")


def cfg_text(c):
    k = c[0]
    if k == "feat":
        return 'feature = "%s"' % c[1]
    if k == "flag":
        return c[1]
    if k == "kv":
        return '%s = "%s"' % (c[1], c[2])
    if k == "not":
        return "not(%s)" % cfg_text(c[1])
    return "%s(%s)" % (k, ", ".join(cfg_text(x) for x in c[1]))


# ----------------------------------------------------------------------------------------------
# attributes
# ----------------------------------------------------------------------------------------------
class Attrs:
    def __init__(self):
        self.derives, self.cfgs, self.ruma, self.other = [], [], [], []


def read_attrs(t, i):
    """Consecutive outer attributes starting at t[i].  Returns (Attrs, next index)."""
    a = Attrs()
    while i + 1 < len(t) and t[i] == ("p", "#") and t[i + 1] == ("p", "["):
        j = group_end(t, i + 1)
        body = t[i + 2:j - 1]
        i = j
        if not body or body[0][0] != "id":
            raise TranslateError("attribute without a path")
        name = body[0][1]
        if name == "derive":
            inner = body[2:-1]
            # paths separated by commas; keep the last segment
            cur = None
            for k, v in inner:
                if k == "id":
                    cur = v
                elif (k, v) == ("p", ","):
                    if cur:
                        a.derives.append(cur)
                    cur = None
            if cur:
                a.derives.append(cur)
        elif name == "cfg":
            a.cfgs.append(parse_cfg(body[2:-1]))
        elif name == "cfg_attr":
            # cfg_attr(pred, attr..): only relevant if it smuggles in a derive / ruma_enum
            flat = [v for _, v in body]
            if "ruma_enum" in flat or any(d in flat for d in ("StringEnum", "FromString", "AsRefStr")):
                raise TranslateError("cfg_attr carrying string-enum attributes is not supported")
            a.other.append(name)
        elif name == "ruma_enum":
            a.ruma.append(body[2:-1])
        else:
            a.other.append(name)
    return a, i


def ruma_enum_items(toks, allowed):
    """`key = "lit"` / `key = Ident` items separated by commas."""
    items, i = [], 0
    while i < len(toks):
        if toks[i][0] != "id" or toks[i][1] not in allowed:
            raise TranslateError("ruma_enum: unexpected %r (allowed %s)" % (toks[i], allowed))
        key = toks[i][1]
        if toks[i + 1] != ("p", "="):
            raise TranslateError("ruma_enum: expected `=` after %s" % key)
        kind, val = toks[i + 2]
        if key == "ident":
            if kind != "id":
                raise TranslateError("ruma_enum(ident) needs an identifier")
        elif kind != "str":
            raise TranslateError("ruma_enum(%s) needs a string literal" % key)
        items.append((key, val))
        i += 3
        if i < len(toks):
            if toks[i] != ("p", ","):
                raise TranslateError("ruma_enum: expected `,`")
            i += 1
    return items


# ----------------------------------------------------------------------------------------------
# scanning one file for string enums
# ----------------------------------------------------------------------------------------------
class Enum:
    pass


def scan_file(path, crate, modpath, mod_cfgs, out, mods_out):
    """Collect string enums of one file.  `modpath`: list of module names of the file,
    `mod_cfgs`: cfg predicates guarding it.  `mods_out[(tuple(modpath+[name]))] = (is_pub, cfgs)`
    records out-of-line and inline `mod` declarations."""
    src = open(path, encoding="utf-8").read()
    t = lex(src, path)
    i = 0
    stack = []  # (name, closing index, is_pub, cfgs)
    while i < len(t):
        while stack and i >= stack[-1][1]:
            stack.pop()
        if t[i] == ("p", "#") and i + 1 < len(t) and t[i + 1] == ("p", "!"):
            i = group_end(t, i + 2)  # inner attribute
            continue
        if not (t[i] == ("p", "#") and i + 1 < len(t) and t[i + 1] == ("p", "[")) and t[i][0] != "id":
            i += 1
            continue
        start = i
        attrs, i = read_attrs(t, i)
        # visibility
        is_pub = False
        if i < len(t) and t[i] == ("id", "pub"):
            is_pub = True
            i += 1
            if i < len(t) and t[i] == ("p", "("):
                i = group_end(t, i)
                is_pub = False  # pub(crate) etc.
        if i >= len(t):
            break
        cur_mods = modpath + [s[0] for s in stack]
        cur_cfgs = mod_cfgs + [c for s in stack for c in s[3]]
        if t[i] == ("id", "mod") and t[i + 1][0] == "id":
            name = t[i + 1][1]
            if t[i + 2] == ("p", ";"):
                mods_out[tuple(cur_mods + [name])] = (is_pub, cur_cfgs + attrs.cfgs, "file")
                i += 3
                continue
            if t[i + 2] == ("p", "{"):
                end = group_end(t, i + 2)
                mods_out[tuple(cur_mods + [name])] = (is_pub, cur_cfgs + attrs.cfgs, "inline")
                stack.append((name, end, is_pub, attrs.cfgs))
                i += 3
                continue
        if t[i] == ("id", "enum") and t[i + 1][0] == "id" and any(
                d in attrs.derives for d in ("StringEnum", "FromString", "AsRefStr")):
            name = t[i + 1][1]
            j = i + 2
            if t[j] != ("p", "{"):
                raise TranslateError("%s: enum %s: generics are not supported" % (path, name))
            end = group_end(t, j)
            e = parse_enum(t[j + 1:end - 1], "%s: enum %s" % (path, name))
            e.name, e.file, e.crate = name, os.path.relpath(path, REPO), crate
            e.mods, e.cfgs, e.is_pub = cur_mods, cur_cfgs + attrs.cfgs, is_pub
            e.derives = attrs.derives
            rules = []
            for r in attrs.ruma:
                items = ruma_enum_items(r, ("rename_all",))
                if len(items) != 1:
                    raise TranslateError("%s: enum %s: ruma_enum(rename_all) expected" % (path, name))
                if items[0][1] not in RULES:
                    raise TranslateError("%s: enum %s: unknown rename rule %r" % (path, name, items[0][1]))
                rules.append(RULES[items[0][1]])
            if len(rules) > 1:
                raise TranslateError("%s: enum %s: multiple rename_all" % (path, name))
            e.rule = rules[0] if rules else "RNone"
            out.append(e)
            i = end
            continue
        if i == start:
            i += 1
    return out


def parse_enum(t, where):
    """Variants: attrs Ident [ (Type) | {field: Type} ] [= discr] ,"""
    e = Enum()
    e.variants = []
    i = 0
    while i < len(t):
        attrs, i = read_attrs(t, i)
        if i >= len(t):
            raise TranslateError("%s: attributes without a variant" % where)
        if t[i][0] != "id":
            raise TranslateError("%s: expected a variant name, got %r" % (where, t[i]))
        vname = t[i][1]
        if not all(ord(c) < 128 for c in vname):
            raise TranslateError("%s: non-ASCII variant name" % where)
        i += 1
        fields = None
        if i < len(t) and t[i] in (("p", "("), ("p", "{")):
            j = group_end(t, i)
            inner = t[i + 1:j - 1]
            # one field only (enum_from_string.rs:31): no top-level comma followed by more tokens
            depth, commas = 0, 0
            for idx, (k, v) in enumerate(inner):
                if k == "p" and v in "([{<":
                    depth += 1
                elif k == "p" and v in ")]}>":
                    depth -= 1
                elif (k, v) == ("p", ",") and depth == 0 and idx != len(inner) - 1:
                    commas += 1
            if commas:
                raise TranslateError("%s: variant %s has several fields" % (where, vname))
            fields = "named" if t[i] == ("p", "{") else "tuple"
            ty = [v for k, v in inner if k == "id"]
            fty = ty[-1] if ty else "?"
            i = j
        rename, aliases = None, []
        if not fields:
            fty = None
        for r in attrs.ruma:
            for key, val in ruma_enum_items(r, ("rename", "alias")):
                if key == "rename":
                    if rename is not None:
                        raise TranslateError("%s: variant %s: multiple rename" % (where, vname))
                    rename = val
                else:
                    aliases.append(val)
        if fields and (rename is not None):
            raise TranslateError("%s: rename on data variant %s" % (where, vname))
        e.variants.append(dict(name=vname, fields=fields, rename=rename, aliases=aliases, cfgs=attrs.cfgs,
                               fty=fty if fields else None))
        if i < len(t):
            if t[i] != ("p", ","):
                raise TranslateError("%s: expected `,` after variant %s, got %r" % (where, vname, t[i]))
            i += 1
    return e


# ----------------------------------------------------------------------------------------------
# crate walking, module paths, features
# ----------------------------------------------------------------------------------------------
def crate_files(crate):
    root = os.path.join(REPO, "crates", crate, "src")
    res = []
    for d, _, fs in sorted(os.walk(root)):
        for f in sorted(fs):
            if f.endswith(".rs"):
                p = os.path.join(d, f)
                rel = os.path.relpath(p, root)[:-3].split(os.sep)
                if rel[-1] in ("lib", "mod"):
                    rel = rel[:-1]
                elif rel == ["main"]:
                    continue
                res.append((p, rel))
    return res


def read_toml(path):
    import tomllib
    with open(path, "rb") as f:
        return tomllib.load(f)


def enabled_features():
    """Features of each /repo crate as compiled into the harness: closure of the features the
    harness's Cargo.toml asks for (+ defaults) under the crates' [features] tables."""
    ht = read_toml(os.path.join(VERIF, "harness", "Cargo.toml"))
    tables, deps, pkgname = {}, {}, {}
    for c in CRATES + ["ruma-macros"]:
        ct = read_toml(os.path.join(REPO, "crates", c, "Cargo.toml"))
        tables[c] = ct.get("features", {})
        d = {}
        for sect in ("dependencies",):
            for k, v in ct.get(sect, {}).items():
                d[k] = v
        deps[c] = d
    ws = read_toml(os.path.join(REPO, "Cargo.toml")).get("workspace", {}).get("dependencies", {})
    en = {c: set() for c in tables}
    linked = set()
    work = []

    def dep_spec(c, d):
        v = deps[c].get(d)
        if isinstance(v, dict) and v.get("workspace"):
            base = ws.get(d, {})
            base = base if isinstance(base, dict) else {}
            merged = dict(base)
            merged["features"] = list(base.get("features", [])) + list(v.get("features", []))
            if "default-features" in v:
                merged["default-features"] = v["default-features"]
            if "optional" in v:
                merged["optional"] = v["optional"]
            return merged
        return v if isinstance(v, dict) else {}

    def link(c, feats, default=True):
        if c not in tables:
            return
        if c not in linked:
            linked.add(c)
            # non-optional deps on workspace crates
            for d in deps[c]:
                if d in tables:
                    sp = dep_spec(c, d)
                    if not sp.get("optional"):
                        link(d, sp.get("features", []), sp.get("default-features", True))
        for f in list(feats) + (["default"] if default else []):
            work.append((c, f))

    for d, v in ht.get("dependencies", {}).items():
        if d in tables:
            link(d, v.get("features", []) if isinstance(v, dict) else [],
                 v.get("default-features", True) if isinstance(v, dict) else True)
    while work:
        c, f = work.pop()
        if f in en[c]:
            continue
        if f not in tables[c]:
            if f == "default":
                continue
            if f in deps[c] and f in tables:  # implicit feature of an optional dependency
                en[c].add(f)
                sp = dep_spec(c, f)
                link(f, sp.get("features", []), sp.get("default-features", True))
                continue
            en[c].add(f)
            continue
        en[c].add(f)
        for g in tables[c][f]:
            if g.startswith("dep:"):
                d = g[4:]
                if d in tables:
                    sp = dep_spec(c, d)
                    link(d, sp.get("features", []), sp.get("default-features", True))
            elif "/" in g:
                d, gf = g.split("/", 1)
                weak = d.endswith("?")
                d = d.rstrip("?")
                if d in tables and (not weak or d in linked):
                    if not weak:
                        sp = dep_spec(c, d)
                        link(d, sp.get("features", []), sp.get("default-features", True))
                    work.append((d, gf))
            else:
                work.append((c, g))
    return en, linked


# Enums that use one of the derives but are NOT members of the lossless family (hand-written,
# validating or case-insensitive conversion from strings).  They are outside C19's statement
# (like RoomVersionId, which C10 covers).  Key "<file>:<Enum>" -> reason.
EXCLUDED = {
    "crates/ruma-common/src/http_headers/content_disposition.rs:ContentDispositionType":
        "HTTP token: hand-written case-insensitive, validating TryFrom; only AsRefStr is derived",
}


def collect_enums():
    enums, mods = [], {}
    for crate in CRATES:
        files = crate_files(crate)
        per = {}
        for p, rel in files:
            lst = []
            per[p] = (rel, lst)
            mm = {}
            scan_file(p, crate, rel, [], lst, mm)
            for k, v in mm.items():
                mods[(crate,) + k] = v
        for p, (rel, lst) in per.items():
            enums += lst
    # excluded from the string-enum family: hand-written conversions (validated / partial)
    keep, seen_excl = [], set()
    for e in enums:
        key = "%s:%s" % (e.file, e.name)
        if any(not cfg_eval(c, set(), True) for c in e.cfgs):
            continue  # test-only code
        has_from = "StringEnum" in e.derives or "FromString" in e.derives
        has_asref = "StringEnum" in e.derives or "AsRefStr" in e.derives
        if key in EXCLUDED:
            seen_excl.add(key)
            if has_from and has_asref:
                raise TranslateError("%s now derives both conversions; remove it from EXCLUDED" % key)
            continue
        if not (has_from and has_asref):
            raise TranslateError("%s: enum %s derives only one of FromString/AsRefStr; not a lossless string enum "
                                 "(add it to EXCLUDED with a reason)" % (e.file, e.name))
        fb = [v for v in e.variants if v["fields"]]
        if len(fb) != 1:
            raise TranslateError("%s: expected exactly one data-carrying fallback variant, found %d" % (key, len(fb)))
        if fb[0]["fty"] != "PrivOwnedStr":
            raise TranslateError("%s: fallback variant does not wrap PrivOwnedStr" % key)
        if fb[0]["cfgs"]:
            raise TranslateError("%s: cfg on the fallback variant" % key)
        keep.append(e)
    if seen_excl != set(EXCLUDED):
        raise TranslateError("EXCLUDED entries not found in the source: %s" % sorted(set(EXCLUDED) - seen_excl))
    return keep, mods


def module_guards(e, mods):
    """cfg predicates and visibility of every module on the path of e (out-of-line declarations)."""
    cfgs, private = list(e.cfgs), []
    for k in range(1, len(e.mods) + 1):
        key = (e.crate,) + tuple(e.mods[:k])
        if key not in mods:
            raise TranslateError("%s: module %s is not declared in its parent" % (e.file, "::".join(e.mods[:k])))
        is_pub, mcfgs, kind = mods[key]
        if kind == "file":
            cfgs += [c for c in mcfgs if c not in cfgs]
        if not is_pub:
            private.append(k - 1)
    return cfgs, private


# Public paths that cannot be derived from the module tree (private module + selective re-export
# somewhere else than in the parent).  Key: "<file>:<Enum>".
PATH_OVERRIDES = {
}


def rust_path(e, private):
    key = "%s:%s" % (e.file, e.name)
    if key in PATH_OVERRIDES:
        return PATH_OVERRIDES[key]
    segs = [m for idx, m in enumerate(e.mods) if idx not in private]  # re-exported by the parent (`pub use x::*`)
    return "::".join([e.crate.replace("-", "_")] + segs + [e.name])


# ----------------------------------------------------------------------------------------------
# event_enum! { .. }  (ruma-events/src/enums.rs; grammar of ruma-macros/src/events/event_parse.rs)
# ----------------------------------------------------------------------------------------------
KINDS = ["GlobalAccountData", "RoomAccountData", "EphemeralRoom", "MessageLike", "State", "ToDevice"]


def parse_event_enum():
    path = os.path.join(REPO, "crates/ruma-events/src/enums.rs")
    src = open(path, encoding="utf-8").read()
    if re.search(r"^\s*///", src[src.index("event_enum!"):src.index("macro_rules! timeline_event_accessors")], re.M):
        # doc comments become attributes; on an *entry* they take part in the macro's dedup rule
        body = src[src.index("event_enum!"):src.index("macro_rules! timeline_event_accessors")]
        for m in re.finditer(r"^\s*///[^\n]*\n(\s*(?:#\[[^\n]*\]\s*\n)*)\s*(\S+)", body, re.M):
            if m.group(2) != "enum":
                raise TranslateError("event_enum!: doc comment on an entry is not supported")
    t = lex(src, path)
    starts = [i for i in range(len(t) - 2) if t[i] == ("id", "event_enum") and t[i + 1] == ("p", "!") and t[i + 2] == ("p", "{")]
    if len(starts) != 1:
        raise TranslateError("expected exactly one event_enum! invocation in enums.rs, found %d" % len(starts))
    i = starts[0] + 2
    end = group_end(t, i)
    t = t[i + 1:end - 1]
    decls, i = [], 0
    while i < len(t):
        attrs, i = read_attrs(t, i)
        if attrs.cfgs or attrs.ruma or attrs.derives:
            raise TranslateError("event_enum!: unexpected attribute on an enum")
        if t[i] != ("id", "enum") or t[i + 1][0] != "id" or t[i + 2] != ("p", "{"):
            raise TranslateError("event_enum!: expected `enum Kind {`")
        kind = t[i + 1][1]
        if kind not in KINDS:
            raise TranslateError("event_enum!: unknown kind %s" % kind)
        j = group_end(t, i + 2)
        body = t[i + 3:j - 1]
        i = j
        entries, k = [], 0
        while k < len(body):
            a, k = read_attrs(body, k)
            if a.derives or [o for o in a.other if o != "doc"]:
                raise TranslateError("event_enum! %s: unsupported attribute %s" % (kind, a.other))
            if body[k][0] != "str" or body[k + 1] != ("p", "=") or body[k + 2] != ("p", ">"):
                raise TranslateError("event_enum! %s: expected `\"type\" => path`" % kind)
            ev_type = body[k][1]
            k += 3
            pathsegs = []
            while k < len(body) and body[k] != ("p", ","):
                if body[k][0] == "id":
                    pathsegs.append(body[k][1])
                elif body[k] != ("p", ":"):
                    raise TranslateError("event_enum! %s: bad path for %s" % (kind, ev_type))
                k += 1
            k += 1
            aliases, ident = [], None
            has_suffix = ev_type.endswith(".*")
            for r in a.ruma:
                for key, val in ruma_enum_items(r, ("alias", "ident")):
                    if key == "alias":
                        if val.endswith(".*") != has_suffix:
                            raise TranslateError("event_enum! %s: alias %s suffix mismatch" % (kind, val))
                        aliases.append(val)
                    else:
                        if ident is not None:
                            raise TranslateError("event_enum! %s: multiple ident" % kind)
                        ident = val
            entries.append(dict(ev_type=ev_type, aliases=aliases, ident=ident, cfgs=a.cfgs, path=pathsegs))
        decls.append((kind, entries))
    if [k for k, _ in decls] != KINDS:
        raise TranslateError("event_enum!: kinds %s differ from the modelled %s" % ([k for k, _ in decls], KINDS))
    return decls


def entry_ident(e):
    """event_enum.rs `ident()`: explicit ident, or CamelCase of the stable (`m.`) name."""
    if e["ident"]:
        return e["ident"]
    names = [e["ev_type"]] + e["aliases"]
    stable = e["ev_type"] if e["ev_type"].startswith("m.") else next((a for a in e["aliases"] if a.startswith("m.")), None)
    if stable is None:
        raise TranslateError("event_enum!: %s has no `m.` name and no ident" % names)
    name = stable[2:]
    if name.endswith(".*"):
        name = name[:-2]
    parts = re.split(r"[._]", name)
    if any(not p for p in parts):
        raise TranslateError("event_enum!: empty segment in %s" % stable)
    return "".join(p[0].upper() + p[1:] for p in parts)


def event_type_groups(decls):
    """event_type.rs:17-37: which kinds feed which `*EventType` enum, in input order."""
    d = dict(decls)
    order = [k for k, _ in decls]
    groups = {
        "TimelineEventType": [k for k in order if k in ("MessageLike", "State")],
        "StateEventType": ["State"],
        "MessageLikeEventType": ["MessageLike"],
        "EphemeralRoomEventType": ["EphemeralRoom"],
        "RoomAccountDataEventType": ["RoomAccountData"],
        "GlobalAccountDataEventType": ["GlobalAccountData"],
        "ToDeviceEventType": ["ToDevice"],
    }
    out = []
    for name in ["TimelineEventType", "StateEventType", "MessageLikeEventType", "EphemeralRoomEventType",
                 "RoomAccountDataEventType", "GlobalAccountDataEventType", "ToDeviceEventType"]:
        items = [e for k in groups[name] for e in d[k]]
        deduped = []  # event_type.rs:93-103
        for it in items:
            idx = next((n for n, x in enumerate(deduped) if x["ev_type"] == it["ev_type"]), None)
            if idx is not None:
                if deduped[idx]["cfgs"] != it["cfgs"] and not it["cfgs"]:
                    deduped[idx] = it
            else:
                deduped.append(it)
        out.append((name, deduped))
    return out


def entry_variant(e, for_type_enum):
    """(kind, out, arms).  event_type.rs:120-160 (type enums) / event_enum.rs:163-176 (dispatch)."""
    names = e["aliases"] + [e["ev_type"]]
    if e["ev_type"].endswith(".*"):
        arms = []
        for n in names:
            if not n.endswith("*"):
                raise TranslateError("alias %s of a `.*` type lacks the suffix" % n)
            arms.append(n[:-1])          # strip_suffix('*')
        out = e["ev_type"][:-2] + "."    # strip_suffix(".*") + ".{}"
        return ("VPrefix", out, arms)
    return ("VExact", e["ev_type"], names)


# ----------------------------------------------------------------------------------------------
# output
# ----------------------------------------------------------------------------------------------
def cs(s):
    return translate.coq_str(s)


def clist(items, indent="    "):
    if not items:
        return "[]"
    return "[ " + (";\n" + indent).join(items) + " ]"


def cmp_impls(derives):
    eq = "ByStr" if "PartialEqAsRefStr" in derives else "Derived" if "PartialEq" in derives else "NoImpl"
    if ("OrdAsRefStr" in derives) != ("PartialOrdAsRefStr" in derives) or ("Ord" in derives) != ("PartialOrd" in derives):
        raise TranslateError("Ord and PartialOrd derived differently: %s" % derives)
    od = "ByStr" if "OrdAsRefStr" in derives else "Derived" if "Ord" in derives else "NoImpl"
    return eq, od


def coq_enum_src(e, name, variants):
    eq, od = cmp_impls(e.derives)
    vs = []
    for v in variants:
        vs.append("{| sv_ident := %s; sv_rename := %s; sv_aliases := [%s]; sv_fallback := %s |}" % (
            cs(v["name"]), "Some " + cs(v["rename"]) if v["rename"] is not None else "None",
            "; ".join(cs(a) for a in v["aliases"]), "true" if v["fields"] else "false"))
    return ("{| es_name := %s; es_rule := %s; es_eq := %s; es_ord := %s;\n     es_variants :=\n      %s |}" % (
        cs(name), e.rule, eq, od, clist(vs, "        ")))


def coq_variant(kind, out, arms):
    return "{| v_kind := %s; v_out := %s; v_arms := [%s] |}" % (kind, cs(out), "; ".join(cs(a) for a in arms))


def rust_str(x):
    if not all(32 <= ord(c) < 127 and c not in '"\\' for c in x):
        raise TranslateError("literal %r needs escaping" % x)
    return '"%s"' % x


def rust_entry(path, variants, literals, as_ref, eq, cmp):
    return ("    {\n        type T = %s;\n        reg.add(Info::<T> {\n            name: \"%s\",\n"
            "            variants: vec![%s],\n            literals: vec![%s],\n            as_ref: %s,\n"
            "            eq: %s,\n            cmp: %s,\n        });\n    }" % (
                path, path, variants, ", ".join(rust_str(x) for x in literals), as_ref, eq, cmp))


FALLBACK = "{| v_kind := VFallback; v_out := []; v_arms := [] |}"


def build():
    enums, mods = collect_enums()
    feats, linked = enabled_features()
    decls = parse_event_enum()
    coq = ["(* GENERATED by tools/translators/c19.py from the source text of every string enum in /repo/crates",
           "   (derive(StringEnum) / FromString + AsRefStr, ruma_enum attributes) and of the event_enum! input",
           "   in ruma-events/src/enums.rs.  `*_all_features` = the same declarations with every cargo feature on",
           "   (only those that differ from the configuration compiled into the harness). *)",
           "From Base Require Import Prelude EnumDecl.", ""]
    rust = ["// GENERATED by tools/translators/c19.py (same pass as coq/Gen/StringEnums.v) - do not edit.",
            "// Every string enum of the ruma crates linked into the harness, with its unit variants in",
            "// declaration order (`None` = the position of the fallback variant).",
            "#![allow(deprecated, clippy::all)]",
            "use super::{Info, Registry};", "",
            "pub fn register(reg: &mut Registry) {"]
    cur, full, skipped = [], [], []
    for e in enums:
        cfgs, private = module_guards(e, mods)
        path = rust_path(e, private)
        f = feats.get(e.crate, set())
        active = e.crate in linked and all(cfg_eval(c, f) for c in cfgs)
        v_cur = [v for v in e.variants if all(cfg_eval(c, f) for c in v["cfgs"])]
        v_all = [v for v in e.variants if all(cfg_eval(c, f, True) for c in v["cfgs"])]
        if active:
            cur.append(coq_enum_src(e, path, v_cur))
            eq, od = cmp_impls(e.derives)
            vs = ", ".join("None" if v["fields"] else "Some(T::%s)" % v["name"] for v in v_cur)
            lits = [x for v in v_cur for x in ([v["rename"]] if v["rename"] is not None else []) + v["aliases"]]
            rust.append(rust_entry(path, vs, lits, "Some(<T as AsRef<str>>::as_ref)",
                                   "Some(<T as PartialEq>::eq)" if eq != "NoImpl" else "None",
                                   "Some(<T as Ord>::cmp)" if od != "NoImpl" else "None"))
            if not e.is_pub:
                raise TranslateError("%s is not `pub`" % path)
        else:
            skipped.append("%s (%s)" % (path, "crate not linked" if e.crate not in linked else
                                        ", ".join(cfg_text(c) for c in cfgs)))
        if not active or v_all != v_cur:
            full.append(coq_enum_src(e, path + "#all-features", v_all))
    coq.append("Definition string_enums : list enum_src :=\n  %s.\n" % clist(cur, "    "))
    coq.append("Definition string_enums_all_features : list enum_src :=\n  %s.\n" % clist(full, "    "))

    # the *EventType enums
    fe = feats.get("ruma-events", set())
    tcur, tfull = [], []
    for name, entries in event_type_groups(decls):
        def mk(ents, nm):
            vs = [coq_variant(*entry_variant(x, True)) for x in ents] + [FALLBACK]
            return ("{| d_name := %s; d_eq := Derived; d_ord := %s;\n     d_variants :=\n      %s |}" % (
                cs(nm), EVENT_TYPE_ORD, clist(vs, "        ")))
        e_cur = [x for x in entries if all(cfg_eval(c, fe) for c in x["cfgs"])]
        e_all = [x for x in entries if all(cfg_eval(c, fe, True) for c in x["cfgs"])]
        path = "ruma_events::" + name
        tcur.append(mk(e_cur, path))
        if e_all != e_cur:
            tfull.append(mk(e_all, path + "#all-features"))
        vs = ", ".join(("Some(T::%s(String::new()))" if x["ev_type"].endswith(".*") else "Some(T::%s)") % entry_ident(x)
                       for x in e_cur)
        lits = [n for x in e_cur for n in [x["ev_type"]] + x["aliases"]]
        rust.append(rust_entry(path, vs + (", " if vs else "") + "None", lits, "None",
                               "Some(<T as PartialEq>::eq)", "Some(<T as Ord>::cmp)"))
    coq.append("Definition event_type_enums : list decl :=\n  %s.\n" % clist(tcur, "    "))
    coq.append("Definition event_type_enums_all_features : list decl :=\n  %s.\n" % clist(tfull, "    "))

    # the dispatch tables of the Any*Event enums (event_enum.rs: per kind, not deduplicated)
    dcur, dfull = [], []
    for kind, entries in decls:
        e_cur = [x for x in entries if all(cfg_eval(c, fe) for c in x["cfgs"])]
        e_all = [x for x in entries if all(cfg_eval(c, fe, True) for c in x["cfgs"])]
        def ent(x):
            return "(%s, %s)" % (cs(entry_ident(x)), coq_variant(*entry_variant(x, False)))
        dcur.append("(%s,\n      %s)" % (cs(kind), clist([ent(x) for x in e_cur], "        ")))
        if e_all != e_cur:
            dfull.append("(%s,\n      %s)" % (cs(kind + "#all-features"), clist([ent(x) for x in e_all], "        ")))
    coq.append("(* per kind: (variant identifier of the Any*Event enums, declaration), in the order of the generated match *)")
    coq.append("Definition event_tables : list (str * list (str * variant)) :=\n  %s.\n" % clist(dcur, "    "))
    coq.append("Definition event_tables_all_features : list (str * list (str * variant)) :=\n  %s.\n" % clist(dfull, "    "))
    rust.append("}")
    rust.append("")
    rust.append("// Declared in the source but not compiled into the harness (checked by the Coq obligations only):")
    for s in skipped:
        rust.append("//   " + s)
    return "\n".join(coq), "\n".join(rust) + "\n"


def event_type_ord():
    """How the generated `*EventType` enums order their values: read off the derive list in
    event_type.rs (`#[derive(Clone, PartialEq, Eq, PartialOrd, Ord, Hash)]`) or an explicit impl."""
    src = open(os.path.join(REPO, "crates/ruma-macros/src/events/event_type.rs"), encoding="utf-8").read()
    m = re.search(r"#\[derive\(([^)]*)\)\]\s*#\[cfg_attr\(not\(ruma_unstable_exhaustive_types\), non_exhaustive\)\]\s*pub enum #ident",
                  src)
    if not m:
        raise TranslateError("event_type.rs: derive list of the generated enum not found")
    derives = [d.strip() for d in m.group(1).split(",") if d.strip()]
    if "PartialEq" not in derives or "Eq" not in derives:
        raise TranslateError("event_type.rs: generated enum no longer derives PartialEq/Eq")
    if "Ord" in derives and "PartialOrd" in derives:
        return "Derived"
    if "Ord" in derives or "PartialOrd" in derives:
        raise TranslateError("event_type.rs: Ord/PartialOrd derived inconsistently")
    by_str = re.search(r"impl ::std::cmp::Ord for #ident\s*\{\s*fn cmp\(&self, other: &Self\) -> ::std::cmp::Ordering\s*\{\s*"
                       r"self\.to_cow_str\(\)\.cmp\(&other\.to_cow_str\(\)\)", src)
    if by_str:
        return "ByStr"
    raise TranslateError("event_type.rs: cannot tell how the generated enums implement Ord")


EVENT_TYPE_ORD = None


def generators(dump_dir):
    cache = {}

    def both():
        global EVENT_TYPE_ORD
        if "r" not in cache:
            EVENT_TYPE_ORD = event_type_ord()
            cache["r"] = build()
        return cache["r"]
    return [("StringEnums.v", lambda: both()[0]),
            ("../../harness/src/gen_enums.rs", lambda: both()[1])]


if __name__ == "__main__":
    for name, fn in generators(None):
        p = os.path.normpath(os.path.join(VERIF, "coq", "Gen", name))
        print(p, "changed" if translate.write_if_changed(p, fn()) else "unchanged")
