#!/usr/bin/env python3
"""C16 translator (bodies): the JSON body of every endpoint's Request and Response, from SOURCE TEXT.

The `#[request]` / `#[response]` attribute macros (ruma-macros/src/api/{request,response}.rs) put
the fields that carry no `#[ruma_api(path | query | query_all | header = .. | raw_body)]`
attribute into a generated `RequestBody` / `ResponseBody` struct that derives Serialize and
Deserialize with the fields' own serde attributes; a `#[ruma_api(body)]` field is the whole body
(newtype).  This reads those field lists for every endpoint module of the five API crates (the list
of gen_c16_endpoints.endpoint_modules(), which the harness's dispatch tables are generated from) and
emits, into

  coq/Gen/EndpointBodies.v      the derive schema (C18.Serde.ty) of each body that lies in the modelled
                                subset, and the list of the others with the reason;
  harness/src/gen_bodies.json   the same for the harness' generator.
"""
import json
import os
import sys

sys.path.insert(0, os.path.dirname(os.path.dirname(os.path.abspath(__file__))))
sys.path.insert(0, os.path.dirname(os.path.abspath(__file__)))
import c18  # noqa: E402
import c19  # noqa: E402
import gen_c16_endpoints  # noqa: E402
import serde_scan as S  # noqa: E402
from translate import TranslateError  # noqa: E402

CRATE_DIR = {"ruma_client_api": "ruma-client-api", "ruma_federation_api": "ruma-federation-api",
             "ruma_appservice_api": "ruma-appservice-api", "ruma_identity_service_api": "ruma-identity-service-api",
             "ruma_push_gateway_api": "ruma-push-gateway-api"}
NON_BODY = {"path", "query", "query_all", "header", "raw_body"}


def build():
    crates = ("ruma-events", "ruma-client-api", "ruma-federation-api", "ruma-appservice-api",
              "ruma-identity-service-api", "ruma-push-gateway-api")
    of_item, of_type, fields_of, feats, per_crate = c18.resolver(crates)
    index = {}
    for c in crates[1:]:
        for it in per_crate[c]:
            if it.name in ("Request", "Response") and any(n in ("request", "response") for n, _ in it.attrs):
                index[(c, tuple(it.mods), it.name)] = it
    modelled, custom = [], []
    queries = []
    LEAF = ("str", "id", "enum", "bool", "int")
    for path in gen_c16_endpoints.endpoint_modules():
        segs = path.split("::")
        crate = CRATE_DIR[segs[0]]
        for which in ("Request", "Response"):
            it = index.get((crate, tuple(segs[1:]), which))
            if it is None:
                custom.append((path, which, "hand-written conversion (no #[%s] attribute)" % which.lower()))
                continue
            try:
                if it.unsupported:
                    raise c18.Custom(it.unsupported[0])
                for n, b in it.attrs:
                    if n in ("request", "response", "ruma_api") and any(v == "manual_body_serde" for _, v in b):
                        raise c18.Custom("manual_body_serde")
                fs = feats.get(crate, set())
                live = [f for f in it.fields if all(c19.cfg_eval(c, fs) for c in f.cfgs)]
                for f in live:
                    if "manual_body_serde" in f.ruma_api:
                        raise c18.Custom("manual_body_serde")
                kinds = {k for f in live for k in f.ruma_api}
                if "raw_body" in kinds:
                    raise c18.Custom("raw body")
                newtype = [f for f in live if "body" in f.ruma_api]
                other = {"headers": any("header" in f.ruma_api for f in live),
                         "query": any(("query" in f.ruma_api or "query_all" in f.ruma_api) for f in live),
                         "path": [S.ty_text(f.ty) for f in live if "path" in f.ruma_api]}
                if newtype:
                    if len(newtype) != 1:
                        raise c18.Custom("several #[ruma_api(body)] fields")
                    if newtype[0].serde:
                        raise c18.Custom("serde attributes on the newtype body field")
                    sch = of_type(newtype[0].ty, it)
                    shape = "newtype"
                else:
                    body = [f for f in live if not (set(f.ruma_api) & NON_BODY)]
                    sch = ("struct", "%s_%s" % ("_".join(segs), which), fields_of(it, body))
                    shape = "struct" if body else "empty"
                modelled.append((path, which, shape, other, sch))
                if which == "Request" and other["query"] and not any("query_all" in f.ruma_api for f in live):
                    try:
                        qf = fields_of(it, [f for f in live if "query" in f.ruma_api])
                        for f in qf:
                            t = f["ty"]
                            if not (t[0] in LEAF or (t[0] in ("opt", "vec") and t[1][0] in LEAF)):
                                raise c18.Custom("query member %s of type %s" % (f["name"], t[0]))
                            if f["aliases"]:
                                raise c18.Custom("alias on a query member")
                        queries.append((path, shape, other["path"], ("struct", "%s_Query" % "_".join(segs), qf)))
                    except c18.Custom:
                        pass
            except c18.Custom as e:
                custom.append((path, which, str(e)))
    return modelled, custom, queries


def gen_coq(built=None):
    modelled, custom, queries = built or build()
    defs, order, rows = {}, [], []
    for path, which, shape, other, sch in modelled:
        rows.append("  (%s, %s, %s)" % (c18.cs(path), c18.cs(which), c18.coq_ty(sch, defs, order)))
    out = ["(** GENERATED by tools/translators/c16b.py from ruma's source text - do not edit.",
           "    Derive schemas of the JSON bodies of the endpoints' Request and Response types (the fields the",
           "    #[request] / #[response] macros put into the generated body struct), for the bodies in the",
           "    modelled subset; [custom_bodies] lists the others with the reason. *)",
           "From Base Require Import Prelude Json.", "From C18 Require Import Serde.", ""]
    for n in order:
        out.append(defs[n])
    defs2, order2 = dict(defs), []
    out.append("Definition endpoint_bodies : list (str * str * ty) := [\n%s ].\n" % ";\n".join(rows))
    qrows = ["  (%s, %s)" % (c18.cs(p), c18.coq_ty(sch, defs2, order2)) for p, sh, pt, sch in queries]
    for n in order2:
        out.append(defs2[n])
    out.append("(** the typed query strings (the #[ruma_api(query)] fields of a Request) whose members are leaves,\n"
               "    Option<leaf> or Vec<leaf> *)\n"
               "Definition endpoint_queries : list (str * ty) := [\n%s ].\n" % ";\n".join(qrows))
    out.append("Definition custom_bodies : list (str * str * str) := [\n%s ].\n" % ";\n".join(
        "  (%s, %s, %s)" % (c18.cs(p), c18.cs(w), c18.cs(r)) for p, w, r in custom))
    return "\n".join(out)


def gen_json(built=None):
    modelled, custom, queries = built or build()
    return json.dumps({"bodies": [{"endpoint": p, "which": w, "shape": sh, "other": o, "schema": s}
                                  for p, w, sh, o, s in modelled],
                       "queries": [{"endpoint": p, "shape": sh, "path": pt, "schema": s} for p, sh, pt, s in queries],
                       "custom": [{"endpoint": p, "which": w, "reason": r} for p, w, r in custom]},
                      indent=1, sort_keys=True) + "\n"


def generators(dump_dir):
    cache = {}

    def both():
        if "r" not in cache:
            cache["r"] = build()
        return cache["r"]
    return [("EndpointBodies.v", lambda: gen_coq(both())),
            ("../../harness/src/gen_bodies.json", lambda: gen_json(both()))]


if __name__ == "__main__":
    from collections import Counter
    modelled, custom, queries = build()
    print(len(queries), 'query structs')
    print(len(modelled), "modelled;", len(custom), "custom")
    print(Counter(sh for _, _, sh, _, _ in modelled))
    c = Counter(r.split(":")[0] if ":" in r else r for _, _, r in custom)
    for k, v in c.most_common(40):
        print("%4d %s" % (v, k))
    if "-v" in sys.argv:
        for p, w, r in custom:
            print("  C", p, w, "--", r)
