#!/usr/bin/env python3
"""C18 translator: the serde-derive *input* of ruma's event-content structs, from SOURCE TEXT.

  coq/Gen/SerdeSchemas.v        for every struct carrying `#[ruma_event(type = .., kind = ..)]` whose
                                (de)serialization is plain serde-derive over the modelled type language
                                (C18.Serde.ty): its schema - wire names (rename), aliases, `default`,
                                `skip_serializing_if`, field types, nested structs inlined - keyed by
                                (kind, type string); and the list of content structs that are NOT in the
                                modelled subset, each with the reason (custom Deserialize, flatten,
                                untagged enum, unknown field type ...), so that what is modelled is
                                stated by the tool rather than by hand.
  harness/src/gen_schemas.json  the same schemas as JSON, for the harness' input generator.

Nothing is guessed: an attribute or type outside the tables below makes the struct "custom"."""
import json
import os
import sys

sys.path.insert(0, os.path.dirname(os.path.dirname(os.path.abspath(__file__))))
sys.path.insert(0, os.path.dirname(os.path.abspath(__file__)))
import c19  # noqa: E402
import serde_scan as S  # noqa: E402
from translate import TranslateError  # noqa: E402

VERIF = c19.VERIF
MAXI = 2 ** 53 - 1

# identifier classes (validators modelled in C10.Model); 0 = any string
CLASSES = {
    "ruma_identifiers_validation::user_id::validate": 1,
    "ruma_identifiers_validation::room_id::validate": 2,
    "ruma_identifiers_validation::event_id::validate": 3,
    "ruma_identifiers_validation::room_alias_id::validate": 4,
    "ruma_identifiers_validation::server_name::validate": 5,
    "ruma_identifiers_validation::room_id_or_alias_id::validate": 6,
    "ruma_identifiers_validation::base64_public_key::validate": 7,
    "ruma_identifiers_validation::client_secret::validate": 8,
    "validate_session_id": 11,
}

INTS = {
    "UInt": (0, MAXI), "Int": (-MAXI, MAXI),
    "u8": (0, 255), "u16": (0, 65535), "u32": (0, 2 ** 32 - 1), "u64": (0, 2 ** 64 - 1),
    "i8": (-128, 127), "i16": (-32768, 32767), "i32": (-2 ** 31, 2 ** 31 - 1), "i64": (-2 ** 63, 2 ** 63 - 1),
}
# transparent newtypes over UInt in ruma-common (checked below against their declarations)
UINT_NEWTYPES = {"MilliSecondsSinceUnixEpoch", "SecondsSinceUnixEpoch"}

SKIP_PRED = {  # skip_serializing_if path -> skind
    "Option::is_none": "SIfNone",
    "Vec::is_empty": "SIfEmpty", "BTreeMap::is_empty": "SIfEmpty", "String::is_empty": "SIfEmpty",
    "JsonObject::is_empty": "SIfEmpty", "<[_]>::is_empty": "SIfEmpty",
    "ruma_common::serde::is_default": "SIfDefault", "is_default": "SIfDefault",
    "crate::serde::is_default": "SIfDefault",
    "ruma_common::serde::is_true": ("SIfEq", True), "is_true": ("SIfEq", True),
}
DEFAULT_FN = {  # default = "path" -> JSON value the function returns
    "ruma_common::serde::default_true": True, "default_true": True,
    "default_room_version_id": "1",
    "default_power_level": 50,
}
DESER_WITH = {  # deserialize_with = "path": (field type as written -> modelled type)
    "ruma_common::serde::deserialize_v1_powerlevel": "intlax",
    "ruma_common::serde::btreemap_deserialize_v1_powerlevel_values": "map-intlax",
}
SKIP_EQ_FN = {  # skip predicates that compare with a constant: path -> JSON constant
    "is_default_power_level": 50,
}
# the bodies of the default functions named above, as they must appear in the source
DEFAULT_FN_BODY = {
    "default_room_version_id": ("crates/ruma-events/src/room/create.rs",
                                "fn default_room_version_id() -> RoomVersionId {\n    RoomVersionId::V1\n}"),
    "default_true": ("crates/ruma-common/src/serde.rs", "pub fn default_true() -> bool {\n    true\n}"),
    "default_power_level": ("crates/ruma-common/src/power_levels.rs", "pub fn default_power_level() -> Int {\n    int!(50)\n}"),
    "is_default_power_level": ("crates/ruma-events/src/room/power_levels.rs",
                               "fn is_default_power_level(l: &Int) -> bool {\n    *l == int!(50)\n}"),
    "NotificationPowerLevels::default": ("crates/ruma-common/src/power_levels.rs",
                                         "    pub fn new() -> Self {\n        Self { room: default_power_level() }\n    }"),
    "NotificationPowerLevels::is_default": ("crates/ruma-common/src/power_levels.rs",
                                            "    pub fn is_default(&self) -> bool {\n        self.room == default_power_level()\n    }"),
    "deserialize_v1_powerlevel": ("crates/ruma-common/src/serde/strings.rs", "pub fn deserialize_v1_powerlevel<'de, D>(de: D) -> Result<Int, D::Error>"),
}


# `with = "path"`: (field type as written, modelled type).  ruma-common/src/serde/duration/*.rs: a
# Duration is written as js_int::UInt milliseconds / seconds (an error above 2^53-1) and read from one.
WITH = {
    "ruma_common::serde::duration::ms": ("Duration", ("int", 0, MAXI)),
    "ruma_common::serde::duration::secs": ("Duration", ("int", 0, MAXI)),
    "ruma_common::serde::duration::opt_ms": ("Option<Duration>", ("opt", ("int", 0, MAXI))),
    "ruma_common::serde::duration::opt_secs": ("Option<Duration>", ("opt", ("int", 0, MAXI))),
}


class Custom(Exception):
    pass


def snake(name):
    out = ""
    for i, ch in enumerate(name):
        if ch.isupper() and i > 0:
            out += "_"
        out += ch.lower()
    return out


SIMPLE_RULES = {  # ruma-macros/src/util.rs / case.rs, the three rules whose result is plain to compute
    "SnakeCase": snake, "LowerCase": lambda n: n.lower(), "PascalCase": lambda n: n,
}


def identifier_classes():
    """Owned<X> / X for every `#[derive(IdZst)]` struct of ruma-common: validator class or 0."""
    out = {}
    items = S.crate_items("ruma-common")
    for it in items:
        if "IdZst" in it.derives:
            cls = 0
            for n, b in it.attrs:
                if n == "ruma_id":
                    txt = "".join(v for _, v in b)
                    if txt.startswith("validate="):
                        path = txt[len("validate="):]
                        cls = CLASSES.get(path, -1)
            if it.generics:
                cls = -1            # KeyId<A, K> etc.: not modelled
            out["Owned" + it.name] = cls
            out[it.name] = cls
    return out, items


def resolver(crates=("ruma-events",)):
    """-> (of_item, of_type, fields_of, feats, items per crate): the schema of an item / a type / a list
    of fields, resolved over the items of ruma-common and the given crates"""
    feats, _linked = c19.enabled_features()
    for fn, (path, body) in DEFAULT_FN_BODY.items():
        if body not in open(os.path.join(c19.REPO, path)).read():
            raise TranslateError("%s: the body of %s is not the expected one" % (path, fn))
    idcls, common_items = identifier_classes()
    per_crate = {c: S.crate_items(c) for c in crates}
    by_name = {}
    for it in [i for c in crates for i in per_crate[c]] + common_items:
        if all(c19.cfg_eval(c, feats.get(it.crate, set())) for c in it.cfgs):
            by_name.setdefault(it.name, []).append(it)
    enums = {}
    for e in c19.collect_enums()[0]:
        enums.setdefault(e.name, []).append(e)

    for n in UINT_NEWTYPES:
        its = by_name.get(n, [])
        if len(its) != 1 or its[0].kind != "tuple" or len(its[0].fields) != 1 or S.ty_text(its[0].fields[0].ty) != "UInt":
            raise TranslateError("expected %s to be a newtype over UInt" % n)

    sig_src = open(os.path.join(c19.REPO, "crates/ruma-common/src/identifiers/signatures.rs")).read()
    for needle in ("pub struct Signatures<E: Ord, K: KeyName + ?Sized>(BTreeMap<E, EntitySignatures<K>>);",
                   "pub type ServerSignatures = Signatures<OwnedServerName, ServerSigningKeyVersion>;",
                   "pub type EntitySignatures<K> = BTreeMap<OwnedSigningKeyId<K>, String>;"):
        if needle not in sig_src:
            raise TranslateError("identifiers/signatures.rs: expected `%s`" % needle)
    sid_src = open(os.path.join(c19.REPO, "crates/ruma-common/src/identifiers/session_id.rs")).read()
    for needle in ("if s.len() > 255 {", "} else if contains_invalid_byte(s.as_bytes()) {", "} else if s.is_empty() {",
                   "if byte.is_ascii_alphanumeric() || matches!(byte, b'.' | b'=' | b'_' | b'-') {"):
        if needle not in sid_src:
            raise TranslateError("identifiers/session_id.rs: expected `%s` (the validator is modelled by hand in "
                                 "coq/C18/SerdeBridge.v valid_session_id)" % needle)
    memo = {}
    stack = []

    def crate_feats(it):
        return feats.get(it.crate, set())

    def resolve(name, ctx):
        its = by_name.get(name, [])
        if not its:
            raise Custom("unknown type %s" % name)
        if len(its) > 1:
            same = [i for i in its if i.file == ctx.file]
            if len(same) == 1:
                return same[0]
            path = S.USES.get(ctx.file, {}).get(name)
            if path:
                mods = [p for p in path[:-1] if p not in ("crate", "self", "super")]
                if path[0] in ("ruma_common", "ruma_events"):
                    mods = mods[1:]
                crate = {"ruma_common": "ruma-common", "ruma_events": "ruma-events"}.get(path[0], ctx.crate)
                same = [i for i in its if i.crate == crate and i.mods == mods]
                if len(same) == 1:
                    return same[0]
            raise Custom("ambiguous type name %s" % name)
        return its[0]

    def string_enum(name, ctx):
        es = enums.get(name, [])
        if len(es) != 1:
            return None
        e = es[0]
        al = []
        fs = feats.get(e.crate, set())
        for v in e.variants:
            if not all(c19.cfg_eval(c, fs) for c in v["cfgs"]):
                continue
            if v["aliases"]:
                canon = v["rename"]
                if canon is None:
                    raise Custom("string enum %s: aliased variant without explicit rename" % name)
                for a in v["aliases"]:
                    al.append((a, canon))
        # Default::default(): the string of the variant carrying #[default], when the enum derives Default
        dflt = None
        its = [i for i in by_name.get(name, []) if i.kind == "enum" and i.file == e.file]
        if len(its) == 1 and "Default" in its[0].derives:
            dv = [v for v in its[0].variants if v.is_default]
            if len(dv) == 1:
                ren = dv[0].ruma_enum.get("rename")
                if ren is not None:
                    dflt = ren
                elif e.rule in SIMPLE_RULES:
                    dflt = SIMPLE_RULES[e.rule](dv[0].name)
        return ("enum", al, dflt)

    def of_type(ty, ctx):
        if ty[0] != "path":
            raise Custom("type %s" % S.ty_text(ty))
        name, args = ty[1], ty[2]
        if name in ("String",) and not args:
            return ("str",)
        if name == "Box" and len(args) == 1 and S.ty_text(args[0]) == "str":
            return ("str",)
        if name == "bool":
            return ("bool",)
        if name in INTS and not args:
            return ("int",) + INTS[name]
        if name in UINT_NEWTYPES:
            return ("int", 0, MAXI)
        if name in ("JsonValue", "Value", "RawJsonValue") and not args:
            return ("any",)
        if name == "Raw" and len(args) == 1:
            return ("any",)       # the JSON text is kept (fed in canonical form, so printed as the model prints it)
        if name == "JsonObject":
            return ("objany",)
        if name == "RoomVersionId" and not args:
            return ("id", 9)
        if name == "ServerSignatures" and not args:
            # ruma-common identifiers/signatures.rs: transparent newtypes over
            # BTreeMap<OwnedServerName, BTreeMap<OwnedServerSigningKeyId, String>> (checked below)
            return ("map", 5, ("map", 10, ("str",)))
        if name in idcls and not args:
            c = idcls[name]
            if c < 0:
                raise Custom("identifier type %s has no modelled validator" % name)
            return ("str",) if c == 0 else ("id", c)
        if name == "Option" and len(args) == 1:
            return ("opt", of_type(args[0], ctx))
        if name == "Box" and len(args) == 1:
            return of_type(args[0], ctx)
        if name == "Vec" and len(args) == 1:
            return ("vec", of_type(args[0], ctx))
        if name == "BTreeMap" and len(args) == 2:
            if S.ty_text(args[0]) == "TimelineEventType":
                # keys go through TimelineEventType::from: the aliases compiled into the generated enum
                al = [(a, e.get("ev_type")) for kind, entries in c19.parse_event_enum() if kind in ("MessageLike", "State")
                      for e in entries if all(c19.cfg_eval(c, feats.get("ruma-events", set())) for c in e["cfgs"])
                      for a in e["aliases"] if not e["ev_type"].endswith(".*")]
                return ("mapenum", sorted(set(al)), of_type(args[1], ctx))
            k = of_type(args[0], ctx)
            if k[0] == "str":
                c = 0
            elif k[0] == "id":
                c = k[1]
            else:
                raise Custom("map key type %s" % S.ty_text(args[0]))
            return ("map", c, of_type(args[1], ctx))
        if args:
            raise Custom("generic type %s" % S.ty_text(ty))
        se = string_enum(name, ctx)
        if se is not None:
            return se
        it = resolve(name, ctx)
        return of_item(it)

    def fields_of(it, flds):
        fields = []
        fs = feats.get(it.crate, set())
        for f in flds:
            if not all(c19.cfg_eval(c, fs) for c in f.cfgs):
                continue
            if f.unsupported:
                raise Custom("%s.%s: %s" % (it.name, f.name, f.unsupported[0]))
            f_serde = dict(f.serde)
            f_aliases = list(f.aliases)
            for pred, items in f.cond_serde:
                if c19.cfg_eval(pred, fs):
                    for k, v in items:
                        if k == "alias":
                            f_aliases.append(v)
                        else:
                            f_serde[k] = v
            f = type("F", (), {"serde": f_serde, "aliases": f_aliases, "ty": f.ty, "name": f.name})()
            if f.serde.get("flatten") is True and set(f.serde) == {"flatten"} and not f.aliases:
                # #[serde(flatten)] of a plain struct: its members are read from and written into the
                # enclosing object at this position, exactly as if they were declared here
                t = of_type(f.ty, it)
                if t[0] != "struct":
                    raise Custom("%s.%s: serde(flatten) of a non-struct" % (it.name, f.name))
                if any(x["ty"][0] == "const" for x in t[2]):
                    raise Custom("%s.%s: serde(flatten) of a tagged struct" % (it.name, f.name))
                fields.extend(dict(x, rust=f.name + "." + x["rust"]) for x in t[2])
                continue
            strict = False
            w = f.serde.get("with")
            if w is not None:
                w = w.replace("crate::serde::", "ruma_common::serde::")
                if w not in WITH or S.ty_text(f.ty) != WITH[w][0]:
                    raise Custom("%s.%s: serde(with = %s) on %s" % (it.name, f.name, w, S.ty_text(f.ty)))
                strict = "default" not in f.serde     # no `default`: a missing member is an error, Option or not
            dw = f.serde.get("deserialize_with")
            if dw is not None:
                dw = dw.replace("crate::serde::", "ruma_common::serde::")
                if dw not in DESER_WITH:
                    raise Custom("%s.%s: serde(deserialize_with = %s)" % (it.name, f.name, dw))
                strict = "default" not in f.serde
            for k in f.serde:
                if k not in ("rename", "default", "skip_serializing_if", "with", "deserialize_with"):
                    raise Custom("%s.%s: serde(%s)" % (it.name, f.name, k))
            if w is not None:
                t = WITH[w][1]
            elif dw is not None:
                base = of_type(f.ty, it)
                if DESER_WITH[dw] == "intlax" and base == ("int", -MAXI, MAXI):
                    t = ("intlax", -MAXI, MAXI)
                elif DESER_WITH[dw] == "map-intlax" and base[0] in ("map", "mapenum") and base[-1] == ("int", -MAXI, MAXI):
                    t = base[:-1] + (("intlax", -MAXI, MAXI),)
                else:
                    raise Custom("%s.%s: deserialize_with = %s on %s" % (it.name, f.name, dw, S.ty_text(f.ty)))
            else:
                t = of_type(f.ty, it)
            wire = f.serde.get("rename", f.name)
            d = f.serde.get("default")
            if d is None:
                dk = ("strict",) if strict else ("required",)
            elif d is True:
                dk = ("default",)
            elif d in DEFAULT_FN:
                dk = ("const", DEFAULT_FN[d])
            else:
                raise Custom("%s.%s: default = %s" % (it.name, f.name, d))
            sk = f.serde.get("skip_serializing_if")
            if sk is None:
                skind = ("never",)
            elif sk in SKIP_PRED:
                p = SKIP_PRED[sk]
                skind = (p,) if isinstance(p, str) else p
            elif sk in SKIP_EQ_FN:
                skind = ("SIfEq", SKIP_EQ_FN[sk])
            elif sk == "NotificationPowerLevels::is_default" and S.ty_text(f.ty) == "NotificationPowerLevels":
                # Default for NotificationPowerLevels is { room: 50 } (source-checked above), which prints as
                # {"room":50}; `default` on the member re-creates exactly that
                skind = ("SIfEq", {"room": 50})
                if dk == ("default",):
                    dk = ("const", {"room": 50})
            else:
                raise Custom("%s.%s: skip_serializing_if = %s" % (it.name, f.name, sk))
            if t[0] == "enum" and t[2] is not None:
                # `default` / `is_default` on a string enum: the value of the #[default] variant
                if dk == ("default",):
                    dk = ("const", t[2])
                if skind == ("SIfDefault",):
                    skind = ("SIfEq", t[2])
            fields.append({"rust": f.name, "name": wire, "aliases": list(f.aliases), "default": dk, "skip": skind, "ty": t})
        return fields

    def of_item(it):
        key = (it.file, it.name)
        if key in memo:
            if memo[key] is None:
                raise Custom("recursive type %s" % it.name)
            if isinstance(memo[key], Custom):
                raise memo[key]
            return memo[key]
        memo[key] = None
        try:
            r = of_item_uncached(it)
        except Custom as e:
            memo[key] = e
            raise
        memo[key] = r
        return r

    def of_item_uncached(it):
        if it.unsupported:
            raise Custom("%s: %s" % (it.name, it.unsupported[0]))
        if it.generics:
            raise Custom("%s is generic" % it.name)
        if "Serialize" not in it.derives or "Deserialize" not in it.derives:
            raise Custom("%s: hand-written or conditional Serialize/Deserialize" % it.name)
        bad = [k for k in it.serde if not k.startswith("ruma_enum_")]
        if it.kind == "tuple":
            if len(it.fields) == 1 and (not bad or bad == ["transparent"]):
                f = it.fields[0]
                if f.serde:
                    raise Custom("%s: attributes on the newtype field" % it.name)
                return of_type(f.ty, it)
            raise Custom("%s: tuple struct" % it.name)
        if it.kind != "struct":
            raise Custom("%s: %s with derived serde (not modelled)" % (it.name, it.kind))
        tag = None
        if set(bad) <= {"tag", "rename"} and "tag" in bad:
            # #[serde(tag = "t", rename = "n")] on a struct: the member t: "n" is written first; on
            # input the member is not looked at
            tag = {"rust": "#tag", "name": it.serde["tag"], "aliases": [], "default": ("const", it.serde.get("rename", it.name)),
                   "skip": ("never",), "ty": ("const", it.serde.get("rename", it.name))}
            bad = []
        if bad:
            raise Custom("%s: container attribute serde(%s)" % (it.name, bad[0]))
        fl = fields_of(it, it.fields)
        return ("struct", it.name, ([tag] if tag else []) + fl)

    return of_item, of_type, fields_of, feats, per_crate


def build():
    of_item, of_type, fields_of, feats, per_crate = resolver(("ruma-events",))
    ev_items = per_crate["ruma-events"]
    evf = feats.get("ruma-events", set())
    compiled = {(kind, e["ev_type"]) for kind, entries in c19.parse_event_enum() for e in entries
                if all(c19.cfg_eval(c, evf) for c in e["cfgs"])}
    contents, custom = [], []
    for it in ev_items:
        if "type" not in it.ruma_event or "kind" not in it.ruma_event:
            continue
        if not all(c19.cfg_eval(c, feats.get(it.crate, set())) for c in it.cfgs):
            continue
        ty = it.ruma_event["type"]
        kind = it.ruma_event["kind"]
        if not isinstance(kind, str):
            kind = "+".join(v for k, v in kind if k == "id")
        names = [ty] + it.ruma_event.get("alias", [])
        try:
            if "type_fragment" in str(it.ruma_event) or ty.endswith(".*"):
                raise Custom("type with a fragment")
            sch = of_item(it)
            for k in kind.split("+"):
                if (k, ty) in compiled:
                    contents.append((k, ty, it.name, sch))
                else:
                    custom.append((k, ty, it.name, "not in the event enum as compiled into the harness (cargo feature off)"))
        except Custom as e:
            for k in kind.split("+"):
                custom.append((k, ty, it.name, str(e)))
    contents.sort(key=lambda x: (x[0], x[1]))
    custom.sort(key=lambda x: (x[0], x[1]))
    return contents, custom


# ----------------------------------------------------------------------------------------------
# emission
# ----------------------------------------------------------------------------------------------
def cs(s):
    return c19.cs(s)


def coq_json(v):
    if v is True:
        return "(JBool true)"
    if v is False:
        return "(JBool false)"
    if isinstance(v, int):
        return "(JInt (%d)%%Z)" % v
    if isinstance(v, str):
        return "(JStr %s)" % cs(v)
    if isinstance(v, dict):
        return "(JObj [%s])" % "; ".join("(%s, %s)" % (cs(k), coq_json(x)) for k, x in sorted(v.items()))
    raise TranslateError("constant %r" % (v,))


def coq_ty(t, defs, order):
    k = t[0]
    if k == "str":
        return "TStr"
    if k == "id":
        return "(TId %d)" % t[1]
    if k == "enum":
        return "(TEnum [%s])" % "; ".join("(%s, %s)" % (cs(a), cs(c)) for a, c in t[1])
    if k == "bool":
        return "TBool"
    if k == "int":
        return "(TInt (%d)%%Z (%d)%%Z)" % (t[1], t[2])
    if k == "intlax":
        return "(TIntLax (%d)%%Z (%d)%%Z)" % (t[1], t[2])
    if k == "mapenum":
        return "(TMapEnum [%s] %s)" % ("; ".join("(%s, %s)" % (cs(a), cs(c)) for a, c in t[1]), coq_ty(t[2], defs, order))
    if k == "any":
        return "TAny"
    if k == "const":
        return "(TConst %s)" % coq_json(t[1])
    if k == "objany":
        return "TObjAny"
    if k == "opt":
        return "(TOpt %s)" % coq_ty(t[1], defs, order)
    if k == "vec":
        return "(TVec %s)" % coq_ty(t[1], defs, order)
    if k == "map":
        return "(TMap %d %s)" % (t[1], coq_ty(t[2], defs, order))
    if k == "struct":
        fs = []
        for f in t[2]:
            d = f["default"]
            dk = {"required": "DRequired", "default": "DDefault", "strict": "DStrict"}.get(d[0]) or "(DConst %s)" % coq_json(d[1])
            s = f["skip"]
            sk = {"never": "SNever"}.get(s[0]) or (s[0] if len(s) == 1 else "(SIfEq %s)" % coq_json(s[1]))
            fs.append("    ({| f_name := %s; f_aliases := [%s]; f_default := %s; f_skip := %s |},\n     %s)" % (
                cs(f["name"]), "; ".join(cs(a) for a in f["aliases"]), dk, sk, coq_ty(f["ty"], defs, order)))
        body = "TStruct [\n%s ]" % ";\n".join(fs)
        # two structs of the same name in different modules get different Coq names
        base, n = "schema_" + t[1], 0
        while True:
            name = base if n == 0 else "%s_%d" % (base, n)
            if name not in defs:
                defs[name] = "Definition %s : ty := %s.\n" % (name, body)
                order.append(name)
                return name
            if defs[name] == "Definition %s : ty := %s.\n" % (name, body):
                return name
            n += 1
    raise TranslateError("type %r" % (t,))


def gen_coq(built=None):
    contents, custom = built or build()
    defs, order = {}, []
    rows = []
    for kind, ty, name, sch in contents:
        rows.append("  (%s, %s, %s)" % (cs(kind), cs(ty), coq_ty(sch, defs, order)))
    out = ["(** GENERATED by tools/translators/c18.py from ruma's source text - do not edit.",
           "    Derive schemas of the event-content structs whose (de)serialization is plain serde-derive",
           "    over the modelled type language; [custom_contents] lists the others with the reason. *)",
           "From Base Require Import Prelude Json.", "From C18 Require Import Serde.", ""]
    for n in order:
        out.append(defs[n])
    out.append("Definition content_schemas : list (str * str * ty) := [\n%s ].\n" % ";\n".join(rows))
    out.append("Definition custom_contents : list (str * str * str) := [\n%s ].\n" % ";\n".join(
        "  (%s, %s, %s)" % (cs(k), cs(t), cs(r)) for k, t, n, r in custom))
    return "\n".join(out)


def gen_json(built=None):
    contents, custom = built or build()
    return json.dumps({"contents": [{"kind": k, "type": t, "struct": n, "schema": s} for k, t, n, s in contents],
                       "custom": [{"kind": k, "type": t, "struct": n, "reason": r} for k, t, n, r in custom]},
                      indent=1, sort_keys=True) + "\n"


def generators(dump_dir):
    cache = {}

    def both():
        if "r" not in cache:
            cache["r"] = build()
        return cache["r"]
    return [("SerdeSchemas.v", lambda: gen_coq(both())),
            ("../../harness/src/gen_schemas.json", lambda: gen_json(both()))]


if __name__ == "__main__":
    contents, custom = build()
    print(len(contents), "modelled;", len(custom), "custom")
    for k, t, n, s in contents:
        print("  M", k, t, n)
    for k, t, n, r in custom:
        print("  C", k, t, n, "--", r)
