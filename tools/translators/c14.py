"""C14/C15 translator: the phf_set!/phf_map! literals and constants of
crates/ruma-html/src/sanitizer_config/clean.rs  ->  coq/Gen/HtmlTables.v.

Source-text extraction of exactly these item shapes (anything else before `impl SanitizerConfig`
is an error, not a guess):

    [pub(crate)] static NAME: Set<&str> = phf_set! { "a", "b", };
    [pub(crate)] static NAME: Map<&str, &str> = phf_map! { "a" => "b", };
    [pub(crate)] static NAME: Map<&str, &...> = phf_map! { "a" => &OTHER_STATIC, };
    const NAME: &str = "lit";
    const NAME: u32 = 100;

Sets and maps are unordered in Rust; they are emitted sorted (by key) so that a harmless
reordering of a literal does not change the generated file.
"""
import translate
from translate import P, TranslateError, coq_str, tokenize

SRC = "/repo/crates/ruma-html/src/sanitizer_config/clean.rs"

# root item -> (Coq name, shape)
ROOTS = [
    ("ALLOWED_ELEMENTS_STRICT", "allowed_elements_strict", "set"),
    ("RICH_REPLY_ELEMENT_NAME", "rich_reply_element_name", "str"),
    ("DEPRECATED_ELEMENTS", "deprecated_elements", "map:str"),
    ("ALLOWED_ATTRIBUTES_STRICT", "allowed_attributes_strict", "map:set"),
    ("DEPRECATED_ATTRS", "deprecated_attrs", "map:map:str"),
    ("ALLOWED_SCHEMES_STRICT", "allowed_schemes_strict", "map:map:set"),
    ("ALLOWED_SCHEMES_COMPAT", "allowed_schemes_compat", "map:map:set"),
    ("ALLOWED_CLASSES_STRICT", "allowed_classes_strict", "map:set"),
    ("MAX_DEPTH_STRICT", "max_depth_strict", "num"),
]


def parse_items(src):
    head = src.split("impl SanitizerConfig")[0]
    if head == src:
        raise TranslateError("clean.rs: `impl SanitizerConfig` not found")
    p = P(tokenize(head))
    items = {}
    # skip the `use` declarations
    while p.at("id", "use"):
        while not p.at("p", ";"):
            p.eat()
        p.eat("p", ";")
    while not p.done():
        if p.at("id", "pub"):
            p.eat()
            p.eat("p", "(")
            p.eat("id", "crate")
            p.eat("p", ")")
        kind = p.eat("id")[1]
        if kind not in ("static", "const"):
            raise TranslateError("clean.rs: unexpected item starting with %r" % kind)
        name = p.eat("id")[1]
        p.eat("p", ":")
        ty = []
        while not p.at("p", "="):
            ty.append(p.eat()[1])
        p.eat("p", "=")
        ty = "".join(ty)
        if p.at("str"):
            if ty != "&str":
                raise TranslateError("%s: string literal of type %s" % (name, ty))
            val = ("str", p.eat("str")[1])
        elif p.at("num"):
            if ty != "u32":
                raise TranslateError("%s: number of type %s" % (name, ty))
            val = ("num", int(p.eat("num")[1].replace("_", "")))
        elif p.at("id", "phf_set"):
            p.eat()
            p.eat("p", "!")
            p.eat("p", "{")
            xs = []
            while not p.at("p", "}"):
                xs.append(p.eat("str")[1])
                if p.at("p", ","):
                    p.eat()
                elif not p.at("p", "}"):
                    raise TranslateError("%s: malformed phf_set!" % name)
            p.eat("p", "}")
            if len(set(xs)) != len(xs):
                raise TranslateError("%s: duplicate set entry" % name)
            val = ("set", xs)
        elif p.at("id", "phf_map"):
            p.eat()
            p.eat("p", "!")
            p.eat("p", "{")
            kv = []
            while not p.at("p", "}"):
                k = p.eat("str")[1]
                p.eat("p", "=>")
                if p.at("str"):
                    v = ("lit", p.eat("str")[1])
                else:
                    p.eat("p", "&")
                    v = ("ref", p.eat("id")[1])
                kv.append((k, v))
                if p.at("p", ","):
                    p.eat()
                elif not p.at("p", "}"):
                    raise TranslateError("%s: malformed phf_map!" % name)
            p.eat("p", "}")
            if len({k for k, _ in kv}) != len(kv):
                raise TranslateError("%s: duplicate map key" % name)
            val = ("map", kv)
        else:
            raise TranslateError("%s: unsupported initialiser %s" % (name, p.peek()))
        p.eat("p", ";")
        if name in items:
            raise TranslateError("item %s defined twice" % name)
        items[name] = val
    return items


def gen_html_tables(path=SRC):
    items = parse_items(open(path).read())
    used = set()

    def resolve(name, shape):
        if name not in items:
            raise TranslateError("clean.rs: item %s not found" % name)
        used.add(name)
        kind, v = items[name]
        if shape == "str":
            if kind != "str":
                raise TranslateError("%s: expected a string constant" % name)
            return coq_str(v)
        if shape == "num":
            if kind != "num":
                raise TranslateError("%s: expected a number" % name)
            return str(v)
        if shape == "set":
            if kind != "set":
                raise TranslateError("%s: expected a phf_set!" % name)
            return "[" + "; ".join(coq_str(x) for x in sorted(v)) + "]"
        if shape.startswith("map:"):
            if kind != "map":
                raise TranslateError("%s: expected a phf_map!" % name)
            inner = shape[4:]
            parts = []
            for k, (vk, vv) in sorted(v):
                if inner == "str":
                    if vk != "lit":
                        raise TranslateError("%s[%s]: expected a string value" % (name, k))
                    parts.append("(%s, %s)" % (coq_str(k), coq_str(vv)))
                else:
                    if vk != "ref":
                        raise TranslateError("%s[%s]: expected a reference to a static" % (name, k))
                    parts.append("(%s, %s)" % (coq_str(k), resolve(vv, inner)))
            return "[" + "; ".join(parts) + "]"
        raise TranslateError("internal: shape %s" % shape)

    ty = {"set": "list str", "str": "str", "num": "N", "map:str": "list (str * str)",
          "map:set": "list (str * list str)", "map:map:str": "list (str * list (str * str))",
          "map:map:set": "list (str * list (str * list str))"}
    out = ["(* GENERATED by tools/translators/c14.py from crates/ruma-html/src/sanitizer_config/clean.rs",
           "   (phf_set!/phf_map! literals and constants before `impl SanitizerConfig`; sets and map keys sorted). *)",
           "From Base Require Import Prelude.", ""]
    for rust, coq, shape in ROOTS:
        out.append("(* %s *)" % rust)
        out.append("Definition %s : %s :=\n  %s.\n" % (coq, ty[shape], resolve(rust, shape)))
    unused = sorted(set(items) - used)
    if unused:
        raise TranslateError("clean.rs: table(s) not reachable from the modelled roots: %s" % ", ".join(unused))
    return "\n".join(out)


def generators(dump_dir):
    return [("HtmlTables.v", gen_html_tables)]


if __name__ == "__main__":
    print(gen_html_tables())
