#!/usr/bin/env python3
"""Translators: /repo source text and harness dumps -> coq/Gen/*.v.

Deliberately dumb and loud: anything outside the tiny Rust subset each recogniser knows is
an error (TranslateError), never a guess.  Part of the trusted base (DESIGN.md section 7).
"""
import os
import re
import sys


class TranslateError(Exception):
    pass


# --------------------------------------------------------------------------------------
# A tiny Rust tokenizer (enough for the table-like functions we translate)
# --------------------------------------------------------------------------------------
TOK = re.compile(
    r"""\s*(?:(//[^\n]*|/\*.*?\*/)|("(?:[^"\\]|\\.)*")|(b?'(?:[^'\\]|\\.)')|([A-Za-z_][A-Za-z0-9_]*)|(\d[\d_]*)|(=>|->|::|==|!=|&&|\|\||[{}()\[\],;:|&!.=<>#*?+\-/]))""",
    re.S,
)


def tokenize(src):
    pos, out = 0, []
    while pos < len(src):
        m = TOK.match(src, pos)
        if not m:
            if src[pos:].strip() == "":
                break
            raise TranslateError("cannot tokenize at: %r" % src[pos:pos + 40])
        pos = m.end()
        if m.group(1):
            continue
        if m.group(2):
            out.append(("str", bytes(m.group(2)[1:-1], "utf-8").decode("unicode_escape")))
        elif m.group(3):
            out.append(("chr", m.group(3)))
        elif m.group(4):
            out.append(("id", m.group(4)))
        elif m.group(5):
            out.append(("num", m.group(5)))
        else:
            out.append(("p", m.group(6)))
    return out


def find_fn(src, name):
    """Return the token list of the body (between the outer braces) of `fn name`."""
    m = re.search(r"\bfn\s+" + re.escape(name) + r"\b", src)
    if not m:
        raise TranslateError("function %s not found" % name)
    i = src.index("{", m.end())
    # the signature may contain braces only in where clauses we do not use; find matching
    depth, j = 0, i
    in_str = False
    while j < len(src):
        c = src[j]
        if in_str:
            if c == "\\":
                j += 1
            elif c == '"':
                in_str = False
        elif c == '"':
            in_str = True
        elif c == "/" and src[j:j + 2] == "//":
            j = src.index("\n", j)
            continue
        elif c == "{":
            depth += 1
        elif c == "}":
            depth -= 1
            if depth == 0:
                return tokenize(src[i + 1:j])
        j += 1
    raise TranslateError("unbalanced braces in %s" % name)


def strip_cfg_items(src, feature):
    """Remove `#[cfg(feature = "<feature>")]` + the following match arm / item line group.

    Only the forms present in canonical_json.rs are handled: an attribute line followed by
    a match arm ending in `}),` or `,` at the same indentation, or by an fn item.
    """
    lines = src.split("\n")
    out, i = [], 0
    pat = re.compile(r'^\s*#\[cfg\(feature = "%s"\)\]\s*$' % re.escape(feature))
    while i < len(lines):
        if pat.match(lines[i]):
            indent = len(lines[i]) - len(lines[i].lstrip())
            i += 1
            # doc comments / other attributes directly after
            # skip until the construct closes: track braces/parens from the first line
            depth = 0
            started = False
            while i < len(lines):
                l = lines[i]
                code = re.sub(r'"(?:[^"\\]|\\.)*"', '""', l)
                code = code.split("//")[0]
                depth += code.count("{") + code.count("(") - code.count("}") - code.count(")")
                started = True
                i += 1
                if depth <= 0 and started and (code.rstrip().endswith(",") or code.rstrip().endswith("}")
                                               or code.rstrip().endswith(";")):
                    break
            continue
        out.append(lines[i])
        i += 1
    return "\n".join(out)


class P:
    def __init__(self, toks):
        self.t, self.i = toks, 0

    def peek(self, k=0):
        return self.t[self.i + k] if self.i + k < len(self.t) else ("eof", "")

    def eat(self, kind=None, val=None):
        tk = self.peek()
        if (kind and tk[0] != kind) or (val is not None and tk[1] != val):
            raise TranslateError("expected %s %s, got %s at token %d" % (kind, val, tk, self.i))
        self.i += 1
        return tk

    def at(self, kind, val=None):
        tk = self.peek()
        return tk[0] == kind and (val is None or tk[1] == val)

    def done(self):
        return self.i >= len(self.t)


def coq_str(s):
    if not all(32 <= ord(c) < 127 and c != '"' for c in s):
        raise TranslateError("non-ASCII literal %r" % s)
    return 's!"%s"' % s


# --------------------------------------------------------------------------------------
# Room version rules (from the harness's Debug dump)
# --------------------------------------------------------------------------------------
def parse_debug(s):
    toks = tokenize(s)
    p = P(toks)

    def val():
        tk = p.eat()
        if tk[0] == "id":
            if p.at("p", "{"):
                p.eat()
                d = {}
                while not p.at("p", "}"):
                    k = p.eat("id")[1]
                    p.eat("p", ":")
                    d[k] = val()
                    if p.at("p", ","):
                        p.eat()
                p.eat("p", "}")
                return (tk[1], d)
            return tk[1]
        raise TranslateError("unexpected token in Debug dump: %s" % (tk,))

    v = val()
    if not p.done():
        raise TranslateError("trailing tokens in Debug dump")
    return v


AUTH_FIELDS = ["special_case_room_redaction", "special_case_room_aliases", "strict_canonical_json",
               "limit_notifications_power_levels", "knocking", "restricted_join_rule",
               "knock_restricted_join_rule", "integer_power_levels", "use_room_create_sender"]
RED_FIELDS = ["keep_room_aliases_aliases", "keep_room_join_rules_allow",
              "keep_room_member_join_authorised_via_users_server", "keep_origin_membership_prev_state",
              "keep_room_create_content", "keep_room_redaction_redacts", "keep_room_power_levels_invite",
              "keep_room_member_third_party_invite_signed"]
SIG_FIELDS = ["check_event_id_server", "check_join_authorised_via_users_server"]
TOP_FIELDS = ["disposition", "event_id_format", "state_res", "enforce_key_validity", "authorization",
              "redaction", "signatures"]


def rec(name, d, fields, conv=None):
    if sorted(d.keys()) != sorted(fields):
        raise TranslateError("%s: fields %s differ from the modelled record %s" % (name, sorted(d), sorted(fields)))
    parts = []
    for f in fields:
        v = d[f]
        if conv and f in conv:
            v = conv[f](v)
        elif v not in ("true", "false"):
            raise TranslateError("%s.%s: unexpected value %r" % (name, f, v))
        parts.append("%s := %s" % (f, v))
    return "{| " + "; ".join(parts) + " |}"


def gen_room_rules(dump_path):
    out = ["(* GENERATED by tools/translate.py from the harness dump of RoomVersionId::rules(). *)",
           "From Base Require Import Prelude Rules.", ""]
    versions = {}
    others = []
    for line in open(dump_path):
        line = line.strip()
        if not line:
            continue
        if line.startswith("other "):
            m = re.match(r"other (\S+) = (true|false)$", line)
            others.append((m.group(1), m.group(2)))
            continue
        v, _, dbg = line.partition(" = ")
        versions[int(v)] = parse_debug(dbg)
    if sorted(versions) != list(range(1, 12)):
        raise TranslateError("expected rules for room versions 1..11, got %s" % sorted(versions))
    for o, has in others:
        if has != "false":
            raise TranslateError("room version %r unexpectedly has rules" % o)
    for v in range(1, 12):
        name, d = versions[v]
        if name != "RoomVersionRules":
            raise TranslateError("unexpected struct %s" % name)
        conv = {
            "disposition": lambda x: {"Stable": "true", "Unstable": "false"}[x],
            "event_id_format": lambda x: {"V1": "EidV1", "V2": "EidV2", "V3": "EidV3"}[x],
            "state_res": lambda x: {"V1": "SresV1", "V2": "SresV2"}[x],
            "authorization": lambda x: rec("AuthorizationRules", x[1], AUTH_FIELDS),
            "redaction": lambda x: rec("RedactionRules", x[1], RED_FIELDS),
            "signatures": lambda x: rec("SignaturesRules", x[1], SIG_FIELDS),
        }
        body = rec("RoomVersionRules", d, TOP_FIELDS, conv).replace("disposition :=", "stable :=")
        out.append("Definition rules_v%d : room_rules :=\n  %s.\n" % (v, body))
    out.append("Definition rules_of (v : N) : option room_rules :=")
    for v in range(1, 12):
        out.append("  if v =? %d then Some rules_v%d else" % (v, v))
    out.append("  None.\n")
    out.append("Definition all_versions : list N := [%s]." % "; ".join(str(v) for v in range(1, 12)))
    return "\n".join(out) + "\n"


# --------------------------------------------------------------------------------------
# Redaction tables (from canonical_json.rs source text)
# --------------------------------------------------------------------------------------
TPI_BODY = [("p", "{"), ("id", "let"), ("id", "Some"), ("p", "("), ("id", "third_party_invite"), ("p", ")"),
            ("p", "="), ("id", "value"), ("p", "."), ("id", "as_object_mut"), ("p", "("), ("p", ")"),
            ("id", "else"), ("p", "{"), ("id", "return"), ("id", "Err"), ("p", "("), ("id", "RedactionError"),
            ("p", "::"), ("id", "not_of_type"), ("p", "("), ("str", "third_party_invite"), ("p", ","),
            ("id", "JsonType"), ("p", "::"), ("id", "Object"), ("p", ")"), ("p", ")"), ("p", ";"), ("p", "}"),
            ("p", ";"), ("id", "third_party_invite"), ("p", "."), ("id", "retain"), ("p", "("), ("p", "|"),
            ("id", "key"), ("p", ","), ("id", "_"), ("p", "|"), ("id", "key"), ("p", "=="), ("str", "signed"),
            ("p", ")"), ("p", ";"), ("p", "!"), ("id", "third_party_invite"), ("p", "."), ("id", "is_empty"),
            ("p", "("), ("p", ")"), ("p", "}")]


def parse_cond(p):
    """true | false | rules.FIELD"""
    if p.at("id", "true"):
        p.eat()
        return "CTrue"
    if p.at("id", "false"):
        p.eat()
        return "CFalse"
    if p.at("id", "rules") or p.at("id", "_rules"):
        p.eat()
        p.eat("p", ".")
        f = p.eat("id")[1]
        if f not in RED_FIELDS:
            raise TranslateError("unknown redaction rule field %s" % f)
        return "CRule %s" % f
    raise TranslateError("unsupported retain condition at token %d: %s" % (p.i, p.peek()))


def parse_key_match(p, scrut):
    """match <scrut> { "a" | "b" => cond, "x" if rules.f => {TPI}, _ => false }  ->  list of arms"""
    p.eat("id", "match")
    p.eat("id", scrut)
    p.eat("p", "{")
    arms = []
    while True:
        if p.at("id", "_"):
            p.eat()
            p.eat("p", "=>")
            if parse_cond(p) != "CFalse":
                raise TranslateError("default arm must be `_ => false`")
            if p.at("p", ","):
                p.eat()
            p.eat("p", "}")
            break
        keys = [p.eat("str")[1]]
        while p.at("p", "|"):
            p.eat()
            keys.append(p.eat("str")[1])
        guard = None
        if p.at("id", "if"):
            p.eat()
            guard = parse_cond(p)
        p.eat("p", "=>")
        if p.at("p", "{"):
            body = p.t[p.i:p.i + len(TPI_BODY)]
            if body == TPI_BODY and keys == ["third_party_invite"] and guard is not None:
                p.i += len(TPI_BODY)
                arms.append((keys, guard, "true"))
            elif guard is None:
                p.eat("p", "{")
                c = parse_cond(p)
                p.eat("p", "}")
                arms.append((keys, c, "false"))
            else:
                raise TranslateError("unrecognised block arm for keys %s" % keys)
        else:
            c = parse_cond(p)
            if guard is not None:
                raise TranslateError("guarded arm with a non-block body")
            arms.append((keys, c, "false"))
        if p.at("p", ","):
            p.eat()
    return arms


def arms_coq(arms):
    return "[" + "; ".join(
        "Arm [%s] (%s) %s" % ("; ".join(coq_str(k) for k in keys), c, sp) for keys, c, sp in arms) + "]"


def parse_bool_fn(src, name):
    """Body shapes:  match key {..}  |  Ok(match key {..})  |  Ok(key == "lit")"""
    p = P(find_fn(src, name))
    wrapped = False
    if p.at("id", "Ok"):
        p.eat()
        p.eat("p", "(")
        wrapped = True
    if p.at("id", "match"):
        arms = parse_key_match(p, "key")
    else:
        p.eat("id", "key")
        p.eat("p", "==")
        arms = [([p.eat("str")[1]], "CTrue", "false")]
    if wrapped:
        p.eat("p", ")")
    if not p.done():
        raise TranslateError("%s: trailing tokens" % name)
    return "KSome " + arms_coq(arms)


def parse_closure_eq(p):
    """RetainedKeys::some(|_rules, field, _value| Ok(field == "lit"))"""
    p.eat("id", "RetainedKeys")
    p.eat("p", "::")
    kind = p.eat("id")[1]
    if kind == "All":
        return "KAll"
    if kind == "None":
        return "KNone"
    if kind != "some":
        raise TranslateError("unknown RetainedKeys::%s" % kind)
    p.eat("p", "(")
    p.eat("p", "|")
    p.eat("id")
    p.eat("p", ",")
    var = p.eat("id")[1]
    p.eat("p", ",")
    p.eat("id")
    p.eat("p", "|")
    p.eat("id", "Ok")
    p.eat("p", "(")
    p.eat("id", var)
    p.eat("p", "==")
    lit = p.eat("str")[1]
    p.eat("p", ")")
    p.eat("p", ")")
    return "KSome " + arms_coq([([lit], "CTrue", "false")])


def parse_keys_fn(src, name):
    """if rules.f { RK } else { RK }"""
    p = P(find_fn(src, name))
    p.eat("id", "if")
    c = parse_cond(p)
    if not c.startswith("CRule "):
        raise TranslateError("%s: condition must be a rule field" % name)
    p.eat("p", "{")
    a = parse_closure_eq(p)
    p.eat("p", "}")
    p.eat("id", "else")
    p.eat("p", "{")
    b = parse_closure_eq(p)
    p.eat("p", "}")
    if not p.done():
        raise TranslateError("%s: trailing tokens" % name)
    return "KIf %s (%s) (%s)" % (c[len("CRule "):], a, b)


def gen_redact_tables(src_path):
    src = open(src_path).read()
    src = src.split("#[cfg(test)]")[0]
    src = strip_cfg_items(src, "unstable-msc2870")
    out = ["(* GENERATED by tools/translate.py from crates/ruma-common/src/canonical_json.rs. *)",
           "From Base Require Import Prelude Rules.", ""]
    # top-level keys
    p = P(find_fn(src, "is_event_key_retained"))
    arms = parse_key_match(p, "key")
    if not p.done():
        raise TranslateError("is_event_key_retained: trailing tokens")
    out.append("Definition top_arms : list arm :=\n  %s.\n" % arms_coq(arms))
    # type dispatch
    p = P(find_fn(src, "retained_event_content_keys"))
    p.eat("id", "match")
    p.eat("id", "event_type")
    p.eat("p", "{")
    table = []
    while True:
        if p.at("id", "_"):
            p.eat()
            p.eat("p", "=>")
            p.eat("id", "RetainedKeys")
            p.eat("p", "::")
            p.eat("id", "None")
            if p.at("p", ","):
                p.eat()
            p.eat("p", "}")
            break
        ty = p.eat("str")[1]
        p.eat("p", "=>")
        if p.at("id", "RetainedKeys"):
            p.eat()
            p.eat("p", "::")
            p.eat("id", "some")
            p.eat("p", "(")
            if p.at("p", "|"):
                # |rules, key, _value| { f(rules, key) }  or  |_rules, key, _value| { f(key) }
                p.eat()
                p.eat("id")
                p.eat("p", ",")
                p.eat("id", "key")
                p.eat("p", ",")
                p.eat("id")
                p.eat("p", "|")
                braced = p.at("p", "{")
                if braced:
                    p.eat()
                fn = p.eat("id")[1]
                p.eat("p", "(")
                while not p.at("p", ")"):
                    p.eat()
                p.eat("p", ")")
                if braced:
                    p.eat("p", "}")
            else:
                fn = p.eat("id")[1]
            p.eat("p", ")")
            table.append((ty, parse_bool_fn(src, fn)))
        else:
            fn = p.eat("id")[1]
            p.eat("p", "(")
            p.eat("id", "rules")
            p.eat("p", ")")
            table.append((ty, parse_keys_fn(src, fn)))
        p.eat("p", ",")
    if not p.done():
        raise TranslateError("retained_event_content_keys: trailing tokens")
    out.append("Definition content_table : list (str * keyspec) :=\n  [ " +
               ";\n    ".join("(%s, %s)" % (coq_str(ty), ks) for ty, ks in table) + " ].\n")
    return "\n".join(out) + "\n"


def generators(dump_dir):
    """(file name under coq/Gen, thunk producing its text)"""
    gens = [
        ("RoomRules.v", lambda: gen_room_rules(os.path.join(dump_dir, "room_rules.txt"))),
        ("RedactTables.v", lambda: gen_redact_tables("/repo/crates/ruma-common/src/canonical_json.rs")),
    ]
    # plug-in translators: tools/translators/<name>.py exposing generators(dump_dir)
    import importlib.util
    tdir = os.path.join(os.path.dirname(os.path.abspath(__file__)), "translators")
    for f in sorted(os.listdir(tdir)) if os.path.isdir(tdir) else []:
        if f.endswith(".py") and not f.startswith("_"):
            spec = importlib.util.spec_from_file_location("translators_" + f[:-3], os.path.join(tdir, f))
            mod = importlib.util.module_from_spec(spec)
            spec.loader.exec_module(mod)
            gens += list(mod.generators(dump_dir))
    return gens


def write_if_changed(path, text):
    old = open(path).read() if os.path.exists(path) else None
    if old != text:
        os.makedirs(os.path.dirname(path), exist_ok=True)
        with open(path, "w") as f:
            f.write(text)
        return True
    return False


if __name__ == "__main__":
    print(gen_redact_tables("/repo/crates/ruma-common/src/canonical_json.rs"))
