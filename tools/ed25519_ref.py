#!/usr/bin/env python3
"""Independent RFC 8032 Ed25519 reference (pure Python, section 5.1 / 6 of the RFC), used as an
oracle for the clause "the stored signature is the RFC 8032 Ed25519 signature" (C02, search only).

usage: ed25519_ref.py <run-dir>    reads <run-dir>/ed25519.txt, lines `seedhex msghex sighex pubhex`;
exits 1 and prints the first mismatch if a signature or public key differs from the reference."""
import hashlib
import sys

p = 2**255 - 19
L = 2**252 + 27742317777372353535851937790883648493
d = -121665 * pow(121666, p - 2, p) % p


def sha512(s):
    return hashlib.sha512(s).digest()


def inv(x):
    return pow(x, p - 2, p)


def point_add(P, Q):
    A = (P[1] - P[0]) * (Q[1] - Q[0]) % p
    B = (P[1] + P[0]) * (Q[1] + Q[0]) % p
    C = 2 * P[3] * Q[3] * d % p
    D = 2 * P[2] * Q[2] % p
    E, F, G, H = B - A, D - C, D + C, B + A
    return (E * F % p, G * H % p, F * G % p, E * H % p)


def point_mul(s, P):
    Q = (0, 1, 1, 0)
    while s > 0:
        if s & 1:
            Q = point_add(Q, P)
        P = point_add(P, P)
        s >>= 1
    return Q


def recover_x(y, sign):
    x2 = (y * y - 1) * inv(d * y * y + 1)
    x = pow(x2, (p + 3) // 8, p)
    if (x * x - x2) % p != 0:
        x = x * pow(2, (p - 1) // 4, p) % p
    if (x & 1) != sign:
        x = p - x
    return x


g_y = 4 * inv(5) % p
g_x = recover_x(g_y, 0)
G = (g_x, g_y, 1, g_x * g_y % p)


def compress(P):
    zinv = inv(P[2])
    x, y = P[0] * zinv % p, P[1] * zinv % p
    return int.to_bytes(y | ((x & 1) << 255), 32, "little")


def expand(secret):
    h = sha512(secret)
    a = int.from_bytes(h[:32], "little")
    a &= (1 << 254) - 8
    a |= 1 << 254
    return a, h[32:]


def public(secret):
    a, _ = expand(secret)
    return compress(point_mul(a, G))


def sign(secret, msg):
    a, prefix = expand(secret)
    A = compress(point_mul(a, G))
    r = int.from_bytes(sha512(prefix + msg), "little") % L
    Rs = compress(point_mul(r, G))
    h = int.from_bytes(sha512(Rs + A + msg), "little") % L
    s = (r + h * a) % L
    return Rs + int.to_bytes(s, 32, "little")


def selftest():
    # RFC 8032 section 7.1, TEST 2
    sk = bytes.fromhex("4ccd089b28ff96da9db6c346ec114e0f5b8a319f35aba624da8cf6ed4fb8a6fb")
    assert public(sk).hex() == "3d4017c3e843895a92b70aa74d1b7ebc9c982ccf2ec4968cc0cd55f12af4660c"
    assert sign(sk, bytes.fromhex("72")).hex() == (
        "92a009a9f0d4cab8720e820b5f642540a2b27b5416503f8fb3762223ebdb69da"
        "085ac1e43e15996e458f3613d0f11d8c387b2eaeb4302aeeb00d291612bb0c00")


def main():
    selftest()
    path = sys.argv[1] + "/ed25519.txt"
    n = 0
    try:
        lines = open(path).read().split("\n")
    except OSError:
        print("ed25519_ref: no ed25519.txt in run directory")
        return 1
    cache = {}
    for line in lines:
        if not line.strip():
            continue
        seed, msg, sig, pub = (bytes.fromhex(x) if x != "-" else b"" for x in line.split())
        if seed not in cache:
            cache[seed] = public(seed)
        if cache[seed] != pub:
            print("MISMATCH public key for seed %s: ruma %s, RFC 8032 %s" % (seed.hex(), pub.hex(), cache[seed].hex()))
            return 1
        ref = sign(seed, msg)
        if ref != sig:
            print("MISMATCH signature: seed %s msg %s ruma %s RFC8032 %s" % (seed.hex(), msg.hex()[:200], sig.hex(), ref.hex()))
            return 1
        n += 1
    print("ed25519_ref: %d signatures and %d public keys equal the RFC 8032 reference" % (n, len(cache)))
    return 0 if n > 0 else 1


if __name__ == "__main__":
    sys.exit(main())
