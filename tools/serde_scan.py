#!/usr/bin/env python3
"""Reader of the serde-derive *input* in ruma's source text: every struct / enum that derives
Serialize and/or Deserialize, with container and field attributes, field types as trees, cfg guards.
Shared by the C18 (event contents) and C16 (endpoint bodies) schema translators.  Deliberately
dumb: it reads declarations, never expressions; anything outside the grammar below is recorded as
`unsupported` on the item (the item is then "custom": not modelled), never guessed."""
import os
import re
import sys

sys.path.insert(0, os.path.dirname(os.path.abspath(__file__)))
sys.path.insert(0, os.path.join(os.path.dirname(os.path.abspath(__file__)), "translators"))
import c19  # noqa: E402  (lexer, cfg evaluation, crate file walker)
from translate import TranslateError  # noqa: E402

lex, group_end = c19.lex, c19.group_end


class Item:
    """kind: 'struct' | 'tuple' | 'unit' | 'enum';  fields: [Field];  variants: [Variant]"""
    def __init__(self):
        self.attrs = []          # [(name, tokens)]
        self.serde = {}          # container serde attrs: key -> value|True
        self.ruma_event = {}     # ruma_event container attrs
        self.derives = []
        self.cfgs = []
        self.fields = []
        self.variants = []
        self.generics = None
        self.unsupported = []


class Field:
    def __init__(self):
        self.name = None
        self.ty = None
        self.serde = {}
        self.aliases = []
        self.cfgs = []
        self.ruma_event = {}
        self.ruma_api = []
        self.cond_serde = []     # [(cfg predicate, [(key, value)])] from cfg_attr(pred, serde(..))
        self.unsupported = []


class Variant:
    def __init__(self):
        self.name = None
        self.serde = {}
        self.aliases = []
        self.cfgs = []
        self.shape = None        # 'unit' | ('newtype', ty) | ('struct', [Field]) | ('tuple', [ty])
        self.ruma_enum = {}
        self.is_default = False  # carries #[default]


def read_attrs(t, i):
    """consecutive outer attributes -> [(name, body tokens without the outer parens)], next index"""
    out = []
    while i + 1 < len(t) and t[i] == ("p", "#") and t[i + 1] == ("p", "["):
        j = group_end(t, i + 1)
        body = t[i + 2:j - 1]
        i = j
        if not body or body[0][0] != "id":
            raise TranslateError("attribute without a path")
        name = body[0][1]
        k = 1
        while k + 2 < len(body) and body[k] == ("p", ":") and body[k + 1] == ("p", ":"):
            name = body[k + 2][1]
            k += 3
        rest = body[k:]
        if rest and rest[0] == ("p", "(") :
            rest = rest[1:-1]
        elif rest and rest[0] == ("p", "="):
            rest = rest[1:]
        out.append((name, rest))
    return out, i


def split_commas(toks):
    parts, cur, depth = [], [], 0
    angle = 0
    for tk in toks:
        k, v = tk
        if k == "p" and v in "([{":
            depth += 1
        elif k == "p" and v in ")]}":
            depth -= 1
        elif k == "p" and v == "<":
            angle += 1
        elif k == "p" and v == ">" and angle > 0 and not (cur and cur[-1] == ("p", "-")):
            angle -= 1
        if k == "p" and v == "," and depth == 0 and angle == 0:
            parts.append(cur)
            cur = []
        else:
            cur.append(tk)
    if cur:
        parts.append(cur)
    return parts


def kv_items(toks, where):
    """`key`, `key = "lit"`, `key = path`, `key(..)` separated by commas -> [(key, value)]"""
    items = []
    for part in split_commas(toks):
        if not part:
            continue
        if part[0][0] != "id":
            raise TranslateError("%s: attribute item %r" % (where, part[:3]))
        key = part[0][1]
        if len(part) == 1:
            items.append((key, True))
        elif part[1] == ("p", "="):
            val = part[2:]
            if len(val) == 1 and val[0][0] in ("str", "id", "num"):
                items.append((key, val[0][1]))
            else:
                items.append((key, "".join(v for _, v in val)))
        elif part[1] == ("p", "("):
            items.append((key, part[2:-1]))
        else:
            raise TranslateError("%s: attribute item %r" % (where, part[:4]))
    return items


def parse_type(toks, where):
    """-> ('path', name, [args]) | ('tuple', [tys]) | ('ref', ty) | ('slice', ty) | ('other', text)"""
    t = list(toks)
    if not t:
        raise TranslateError("%s: empty type" % where)
    if t[0] == ("p", "&"):
        k = 1
        if k < len(t) and t[k][0] == "life":
            k += 1
        if k < len(t) and t[k] == ("id", "mut"):
            k += 1
        return ("ref", parse_type(t[k:], where))
    if t[0] == ("p", "("):
        inner = t[1:-1]
        return ("tuple", [parse_type(p, where) for p in split_commas(inner)])
    if t[0] == ("p", "["):
        return ("slice", ("other", "".join(v for _, v in t)))
    if t[0] == ("id", "dyn") or t[0] == ("id", "impl"):
        return ("other", " ".join(v for _, v in t))
    # path with optional generic args on the last segment
    i, name = 0, None
    if t[0] == ("p", ":"):
        i = 2
    segs = []
    while i < len(t):
        if t[i][0] == "id":
            segs.append(t[i][1])
            i += 1
            if i + 1 < len(t) and t[i] == ("p", ":") and t[i + 1] == ("p", ":"):
                i += 2
                continue
            break
        raise TranslateError("%s: type %r" % (where, "".join(v for _, v in t)))
    name = segs[-1]
    args = []
    if i < len(t) and t[i] == ("p", "<"):
        # find matching >
        depth, j = 0, i
        while j < len(t):
            if t[j] == ("p", "<"):
                depth += 1
            elif t[j] == ("p", ">"):
                depth -= 1
                if depth == 0:
                    break
            j += 1
        inner = t[i + 1:j]
        for p in split_commas(inner):
            if p and p[0][0] == "life":
                continue
            args.append(parse_type(p, where))
        i = j + 1
    if i != len(t):
        return ("other", "".join(v for _, v in t))
    return ("path", name, args, segs)


def ty_text(ty):
    if ty[0] == "path":
        return ty[1] + ("<" + ",".join(ty_text(a) for a in ty[2]) + ">" if ty[2] else "")
    if ty[0] == "tuple":
        return "(" + ",".join(ty_text(a) for a in ty[1]) + ")"
    if ty[0] == "ref":
        return "&" + ty_text(ty[1])
    return str(ty[1])


def apply_serde(target, items, where, is_field):
    for k, v in items:
        if k == "alias":
            target.aliases.append(v) if hasattr(target, "aliases") else target.unsupported.append("alias")
        elif k in target.serde and k != "alias":
            raise TranslateError("%s: duplicate serde attribute %s" % (where, k))
        else:
            target.serde[k] = v


def parse_fields(t, where):
    """named fields inside { }"""
    fields, i = [], 0
    while i < len(t):
        attrs, i = read_attrs(t, i)
        if i >= len(t):
            break
        if t[i] == ("id", "pub"):
            i += 1
            if i < len(t) and t[i] == ("p", "("):
                i = group_end(t, i)
        if t[i][0] != "id" or t[i + 1] != ("p", ":"):
            raise TranslateError("%s: field expected at %r" % (where, t[i:i + 3]))
        f = Field()
        f.name = t[i][1]
        if f.name.startswith("r#"):
            f.name = f.name[2:]
        i += 2
        # type up to top-level comma
        depth, angle, j = 0, 0, i
        while j < len(t):
            k, v = t[j]
            if k == "p" and v in "([{":
                depth += 1
            elif k == "p" and v in ")]}":
                depth -= 1
            elif k == "p" and v == "<":
                angle += 1
            elif k == "p" and v == ">" and angle > 0:
                angle -= 1
            elif k == "p" and v == "," and depth == 0 and angle == 0:
                break
            j += 1
        f.ty = parse_type(t[i:j], "%s.%s" % (where, f.name))
        i = j + 1
        for name, body in attrs:
            if name == "serde":
                apply_serde(f, kv_items(body, where), "%s.%s" % (where, f.name), True)
            elif name == "cfg":
                f.cfgs.append(c19.parse_cfg(body))
            elif name == "cfg_attr":
                parts = split_commas(body)
                pred = c19.parse_cfg(parts[0])
                for inner in parts[1:]:
                    if inner and inner[0] == ("id", "serde") and len(inner) > 1 and inner[1] == ("p", "("):
                        f.cond_serde.append((pred, kv_items(inner[2:-1], where)))
                    elif inner and inner[0][1] in ("doc", "allow", "deprecated"):
                        pass
                    else:
                        f.unsupported.append("cfg_attr(" + "".join(v for _, v in inner) + ")")
            elif name == "ruma_event":
                for k, v in kv_items(body, where):
                    f.ruma_event[k] = v
            elif name == "ruma_api":
                f.ruma_api += [k for k, _ in kv_items(body, where)]
            elif name in ("doc", "allow", "deprecated", "expect"):
                pass
            else:
                f.unsupported.append("attr:" + name)
        fields.append(f)
    return fields


def parse_variants(t, where):
    vs, i = [], 0
    while i < len(t):
        attrs, i = read_attrs(t, i)
        if i >= len(t):
            break
        if t[i][0] != "id":
            raise TranslateError("%s: variant expected at %r" % (where, t[i:i + 3]))
        v = Variant()
        v.name = t[i][1]
        i += 1
        v.shape = "unit"
        if i < len(t) and t[i] == ("p", "("):
            j = group_end(t, i)
            parts = split_commas(t[i + 1:j - 1])
            tys = []
            for p in parts:
                a, k = read_attrs(p, 0)
                p = p[k:]
                if p and p[0] == ("id", "pub"):
                    p = p[1:]
                if p:
                    tys.append(parse_type(p, where + "::" + v.name))
            v.shape = ("newtype", tys[0]) if len(tys) == 1 else ("tuple", tys)
            i = j
        elif i < len(t) and t[i] == ("p", "{"):
            j = group_end(t, i)
            v.shape = ("struct", parse_fields(t[i + 1:j - 1], where + "::" + v.name))
            i = j
        if i < len(t) and t[i] == ("p", "="):
            while i < len(t) and t[i] != ("p", ","):
                i += 1
        if i < len(t) and t[i] == ("p", ","):
            i += 1
        for name, body in attrs:
            if name == "serde":
                apply_serde(v, kv_items(body, where), where + "::" + v.name, False)
            elif name == "cfg":
                v.cfgs.append(c19.parse_cfg(body))
            elif name == "ruma_enum":
                for k, x in kv_items(body, where):
                    v.ruma_enum[k] = x
            elif name == "default":
                v.is_default = True
        vs.append(v)
    return vs


USES = {}   # file (relative) -> {name: [path segments]}


def flatten_use(t, prefix, out):
    """tokens of a use tree (without `use` and `;`)"""
    i, segs = 0, list(prefix)
    while i < len(t):
        k, v = t[i]
        if k == "id" and v == "as":
            if i + 1 < len(t) and t[i + 1][0] == "id":
                out[t[i + 1][1]] = segs
            return
        if k == "id":
            segs.append(v)
            i += 1
        elif (k, v) == ("p", ":"):
            i += 1
        elif (k, v) == ("p", "{"):
            end = group_end(t, i)
            for part in split_commas(t[i + 1:end - 1]):
                flatten_use(part, segs, out)
            return
        elif (k, v) == ("p", "*"):
            return
        else:
            return
    if segs:
        out[segs[-1]] = segs


def scan_file(path, crate, modpath, mod_cfgs, out):
    src = open(path, encoding="utf-8").read()
    t = lex(src, path)
    uses = USES.setdefault(os.path.relpath(path, c19.REPO), {})
    for k in range(len(t)):
        if t[k] == ("id", "use") and (k == 0 or t[k - 1] != ("p", ".")):
            e = k
            while e < len(t) and t[e] != ("p", ";"):
                e += 1
            try:
                flatten_use(t[k + 1:e], [], uses)
            except TranslateError:
                pass
    i = 0
    stack = []
    while i < len(t):
        while stack and i >= stack[-1][1]:
            stack.pop()
        if t[i] == ("p", "#") and i + 1 < len(t) and t[i + 1] == ("p", "!"):
            i = group_end(t, i + 2)
            continue
        if not (t[i] == ("p", "#") and i + 1 < len(t) and t[i + 1] == ("p", "[")) and t[i][0] != "id":
            i += 1
            continue
        start = i
        try:
            attrs, i = read_attrs(t, i)
        except TranslateError:
            i = start + 1
            continue
        if i < len(t) and t[i] == ("id", "pub"):
            i += 1
            if i < len(t) and t[i] == ("p", "("):
                i = group_end(t, i)
        if i >= len(t):
            break
        cur_mods = modpath + [s[0] for s in stack]
        cur_cfgs = mod_cfgs + [c for s in stack for c in s[2]]
        own_cfgs = [c19.parse_cfg(b) for n, b in attrs if n == "cfg"]
        if t[i] == ("id", "mod") and i + 2 < len(t) and t[i + 1][0] == "id" and t[i + 2] == ("p", "{"):
            end = group_end(t, i + 2)
            stack.append((t[i + 1][1], end, own_cfgs))
            i += 3
            continue
        if t[i] in (("id", "struct"), ("id", "enum")) and i + 1 < len(t) and t[i + 1][0] == "id":
            what = t[i][1]
            name = t[i + 1][1]
            derives = []
            for n, b in attrs:
                if n == "derive":
                    for p in split_commas(b):
                        ids = [v for k, v in p if k == "id"]
                        if ids:
                            derives.append(ids[-1])
                if n == "cfg_attr":
                    flat = [v for _, v in b]
                    if "derive" in flat:
                        # cfg_attr(pred, derive(..)): record the derives as conditional ones
                        k = flat.index("derive")
                        for x in flat[k + 1:]:
                            if re.match(r"[A-Za-z_]", x):
                                derives.append("?" + x)
            j = i + 2
            it = Item()
            it.name, it.what = name, what
            it.file, it.crate, it.mods = os.path.relpath(path, c19.REPO), crate, cur_mods
            it.cfgs = cur_cfgs + own_cfgs
            it.derives = derives
            it.attrs = attrs
            if t[j] == ("p", "<"):
                depth = 0
                k = j
                while k < len(t):
                    if t[k] == ("p", "<"):
                        depth += 1
                    elif t[k] == ("p", ">"):
                        depth -= 1
                        if depth == 0:
                            break
                    k += 1
                it.generics = t[j + 1:k]
                j = k + 1
            # where clause
            if t[j] == ("id", "where"):
                while t[j] not in (("p", "{"), ("p", ";")):
                    j += 1
            where = "%s: %s %s" % (it.file, what, name)
            try:
                for n, b in attrs:
                    if n == "serde":
                        for k, v in kv_items(b, where):
                            it.serde[k] = v
                    elif n == "ruma_event":
                        for k, v in kv_items(b, where):
                            if k == "alias":
                                it.ruma_event.setdefault("alias", []).append(v)
                            else:
                                it.ruma_event[k] = v
                    elif n == "ruma_enum":
                        for k, v in kv_items(b, where):
                            it.serde["ruma_enum_" + k] = v
                if t[j] == ("p", "{"):
                    end = group_end(t, j)
                    body = t[j + 1:end - 1]
                    if what == "struct":
                        it.kind = "struct"
                        it.fields = parse_fields(body, where)
                    else:
                        it.kind = "enum"
                        it.variants = parse_variants(body, where)
                    i = end
                elif t[j] == ("p", "("):
                    end = group_end(t, j)
                    it.kind = "tuple"
                    parts = split_commas(t[j + 1:end - 1])
                    for p in parts:
                        a, k = read_attrs(p, 0)
                        p = p[k:]
                        if p and p[0] == ("id", "pub"):
                            p = p[1:]
                            if p and p[0] == ("p", "("):
                                p = p[group_end(p, 0):]
                        f = Field()
                        f.name = str(len(it.fields))
                        f.ty = parse_type(p, where)
                        for n, b in a:
                            if n == "serde":
                                apply_serde(f, kv_items(b, where), where, True)
                        it.fields.append(f)
                    i = end
                else:
                    it.kind = "unit"
                    i = j + 1
            except TranslateError as e:
                it.kind = "broken"
                it.unsupported.append(str(e))
                i = j + 1
            out.append(it)
            continue
        if i == start:
            i += 1
    return out


def crate_items(crate):
    """All struct/enum items of a crate (every file under src/), with module cfgs unknown (file-level
    `mod` cfg guards are resolved by c19.collect for enums; here items of cfg'd-out modules are kept and
    carry no module cfg: the harness feature set decides at run time whether the type string is known)."""
    out = []
    root = os.path.join(c19.REPO, "crates", crate, "src")
    for dp, dn, fn in os.walk(root):
        for f in sorted(fn):
            if f.endswith(".rs"):
                p = os.path.join(dp, f)
                rel = os.path.relpath(p, root)[:-3].split(os.sep)
                if rel[-1] in ("mod", "lib"):
                    rel = rel[:-1]
                scan_file(p, crate, rel, [], out)
    return out


if __name__ == "__main__":
    from collections import Counter
    items = []
    for c in sys.argv[1:] or ["ruma-events", "ruma-common"]:
        items += crate_items(c)
    ser = [i for i in items if "Serialize" in i.derives or "Deserialize" in i.derives]
    print(len(items), "items;", len(ser), "derive serde")
    cnt = Counter()
    tys = Counter()
    for it in ser:
        for k in it.serde:
            cnt["container:" + k] += 1
        for f in it.fields:
            for k in f.serde:
                cnt["field:" + k + ("=" + str(f.serde[k]) if k in ("skip_serializing_if", "default", "with", "deserialize_with", "serialize_with") else "")] += 1
            tys[ty_text(f.ty)] += 1
    for k, v in cnt.most_common():
        print("%4d %s" % (v, k))
    print()
    for k, v in tys.most_common(150):
        print("%4d %s" % (v, k))
