#!/bin/bash
# seedtest.sh <patch.diff> <Cxx> [<Cyy> ...]
# Runs the given checks against a scratch copy of /repo with the patch applied, from a scratch
# copy of /verif (HEAD) whose /repo references point at the scratch repo.  Never touches /repo.
set -u
PATCH=$(readlink -f "$1"); shift
SREPO=/var/tmp/seedrepo
SVERIF=/var/tmp/vseed
HEAD=$(git -C /repo rev-parse HEAD)
if [ ! -d $SREPO ]; then git -C /repo worktree add --detach $SREPO >/dev/null 2>&1; fi
git -C $SREPO checkout -q -- . && git -C $SREPO clean -fdq && git -C $SREPO checkout -q --detach $HEAD
VHEAD=$(git -C /verif rev-parse HEAD)
if [ ! -d $SVERIF ]; then git -C /verif worktree add --detach $SVERIF >/dev/null 2>&1; fi
git -C $SVERIF checkout -q -- . ; git -C $SVERIF checkout -q --detach $VHEAD
(cd $SVERIF && grep -rl "/repo" bin tools harness/Cargo.toml | xargs sed -i "s#/repo#$SREPO#g")
if ! git -C $SREPO apply "$PATCH"; then echo "PATCH-DOES-NOT-APPLY"; exit 3; fi
rc=0
for p in "$@"; do
  (cd $SVERIF && timeout 1800 bin/check run $p 2>&1 | grep -E "^(OK|VIOLATION|KNOWN)" | grep -v "^KNOWN" )
done
git -C $SREPO checkout -q -- . ; git -C $SREPO clean -fdq
