#!/usr/bin/env python3
"""Pretty-print s-expression lines (hex strings decoded) from stdin."""
import re, sys
for l in sys.stdin:
    print(re.sub(r'\bS([0-9a-f]*)', lambda m: '"' + bytes.fromhex(m.group(1)).decode('utf8', 'replace') + '"', l.strip()))
