// Synthetic endpoints, defined with the real `ruma_api` macros, that together use every
// field-attribute kind: path, query, optional / multi-valued query, query_all, header, optional
// header, raw body, newtype body, JSON body fields, optional body fields.
// Included into c16.rs.

#[allow(unexpected_cfgs)]
pub mod syn_all {
    use http::header::{CONTENT_LANGUAGE, ETAG, IF_MATCH, LAST_MODIFIED};
    use ruma_common::{
        api::{request, response, Metadata},
        metadata,
    };

    const METADATA: Metadata = metadata! {
        method: PUT,
        rate_limited: false,
        authentication: AccessToken,
        history: {
            unstable => "/_matrix/syn/unstable/all/:p1/mid/:p2",
            1.1 => "/_matrix/syn/v1/all/:p1/mid/:p2",
            1.4 => "/_matrix/syn/v2/all/:p1/:p2/end",
        }
    };

    #[request]
    pub struct Request {
        #[ruma_api(path)]
        pub p1: String,
        #[ruma_api(path)]
        pub p2: String,
        #[ruma_api(query)]
        pub q1: String,
        #[ruma_api(query)]
        #[serde(skip_serializing_if = "Option::is_none")]
        pub q2: Option<String>,
        #[ruma_api(query)]
        #[serde(default, skip_serializing_if = "Vec::is_empty")]
        pub q3: Vec<String>,
        #[ruma_api(header = IF_MATCH)]
        pub h1: String,
        #[ruma_api(header = CONTENT_LANGUAGE)]
        pub h2: Option<String>,
        pub b1: String,
        #[serde(skip_serializing_if = "Option::is_none")]
        pub b2: Option<String>,
        #[serde(default, skip_serializing_if = "Vec::is_empty")]
        pub b3: Vec<String>,
    }

    #[response]
    pub struct Response {
        #[ruma_api(header = ETAG)]
        pub etag: String,
        #[ruma_api(header = LAST_MODIFIED)]
        pub modified: Option<String>,
        pub r1: String,
        #[serde(skip_serializing_if = "Option::is_none")]
        pub r2: Option<String>,
    }
}

#[allow(unexpected_cfgs)]
pub mod syn_raw {
    use std::collections::BTreeMap;

    use http::header::{CONTENT_DISPOSITION, CONTENT_TYPE};
    use ruma_common::{
        api::{request, response, Metadata},
        metadata,
    };

    const METADATA: Metadata = metadata! {
        method: POST,
        rate_limited: false,
        authentication: None,
        history: {
            1.0 => "/_matrix/syn/r0/raw/:p",
            1.1 => "/_matrix/syn/v3/raw/:p",
            1.2 => deprecated,
            1.5 => removed,
        }
    };

    #[request]
    pub struct Request {
        #[ruma_api(path)]
        pub p: String,
        #[ruma_api(query_all)]
        pub q: BTreeMap<String, String>,
        #[ruma_api(header = CONTENT_TYPE)]
        pub ct: String,
        #[ruma_api(raw_body)]
        pub body: Vec<u8>,
    }

    #[response]
    pub struct Response {
        #[ruma_api(header = CONTENT_TYPE)]
        pub ct: String,
        #[ruma_api(header = CONTENT_DISPOSITION)]
        pub cd: Option<String>,
        #[ruma_api(raw_body)]
        pub body: Vec<u8>,
    }
}

#[allow(unexpected_cfgs)]
pub mod syn_newtype {
    use ruma_common::{
        api::{request, response, Metadata},
        metadata,
    };

    #[derive(Clone, Debug, serde::Deserialize, serde::Serialize)]
    pub struct Payload {
        pub a: String,
        #[serde(skip_serializing_if = "Option::is_none")]
        pub b: Option<String>,
        #[serde(default)]
        pub l: Vec<String>,
    }

    const METADATA: Metadata = metadata! {
        method: PUT,
        rate_limited: false,
        authentication: AppserviceToken,
        history: {
            unstable => "/_matrix/syn/unstable/newtype",
        }
    };

    #[request]
    pub struct Request {
        #[ruma_api(body)]
        pub body: Payload,
    }

    #[response]
    pub struct Response {
        #[ruma_api(body)]
        pub body: Vec<String>,
    }
}

#[allow(unexpected_cfgs)]
pub mod syn_get {
    use ruma_common::{
        api::{request, response, Metadata},
        metadata,
    };

    const METADATA: Metadata = metadata! {
        method: GET,
        rate_limited: false,
        authentication: AccessTokenOptional,
        history: {
            1.3 => "/_matrix/syn/v1/get/:p",
        }
    };

    #[request]
    pub struct Request {
        #[ruma_api(path)]
        pub p: String,
        #[ruma_api(query)]
        #[serde(skip_serializing_if = "Option::is_none")]
        pub from: Option<String>,
        #[ruma_api(query)]
        #[serde(default, skip_serializing_if = "ruma_common::serde::is_default")]
        pub flag: bool,
    }

    #[response]
    pub struct Response {}
}

/// `-` stands for an absent optional field.
fn opt(s: &str) -> Option<String> {
    if s == "-" {
        None
    } else {
        Some(s.to_owned())
    }
}

/// A list field: the string cut at `,` (the empty string is the empty list).
fn list(s: &str) -> Vec<String> {
    if s.is_empty() {
        vec![]
    } else {
        s.split(',').map(str::to_owned).collect()
    }
}

fn synthetic_eps() -> Vec<Ep> {
    vec![
        Ep {
            name: "synthetic::all",
            nvals: 10,
            meta: || <syn_all::Request as OutgoingRequest>::METADATA,
            req: |v, cx| {
                let r = syn_all::Request {
                    p1: v[0].clone(),
                    p2: v[1].clone(),
                    q1: v[2].clone(),
                    q2: opt(&v[3]),
                    q3: list(&v[4]),
                    h1: v[5].clone(),
                    h2: opt(&v[6]),
                    b1: v[7].clone(),
                    b2: opt(&v[8]),
                    b3: list(&v[9]),
                };
                Some(rt_request(r, cx))
            },
            resp: |v| {
                let r = syn_all::Response { etag: v[0].clone(), modified: opt(&v[1]), r1: v[2].clone(), r2: opt(&v[3]) };
                Some(rt_response(r))
            },
        },
        Ep {
            name: "synthetic::raw",
            nvals: 5,
            meta: || <syn_raw::Request as OutgoingRequest>::METADATA,
            req: |v, cx| {
                let mut q = std::collections::BTreeMap::new();
                q.insert(v[1].clone(), v[2].clone());
                if v[2] != "-" {
                    q.insert("zz".to_owned(), v[1].clone());
                }
                let r = syn_raw::Request { p: v[0].clone(), q, ct: v[3].clone(), body: v[4].as_bytes().to_vec() };
                Some(rt_request(r, cx))
            },
            resp: |v| {
                let r = syn_raw::Response { ct: v[0].clone(), cd: opt(&v[1]), body: v[2].as_bytes().to_vec() };
                Some(rt_response(r))
            },
        },
        Ep {
            name: "synthetic::newtype",
            nvals: 3,
            meta: || <syn_newtype::Request as OutgoingRequest>::METADATA,
            req: |v, cx| {
                let r = syn_newtype::Request { body: syn_newtype::Payload { a: v[0].clone(), b: opt(&v[1]), l: list(&v[2]) } };
                Some(rt_request(r, cx))
            },
            resp: |v| Some(rt_response(syn_newtype::Response { body: vec![v[0].clone(), v[1].clone(), v[2].clone()] })),
        },
        Ep {
            name: "synthetic::get",
            nvals: 3,
            meta: || <syn_get::Request as OutgoingRequest>::METADATA,
            req: |v, cx| {
                let r = syn_get::Request { p: v[0].clone(), from: opt(&v[1]), flag: v[2].len() % 2 == 1 };
                Some(rt_request(r, cx))
            },
            resp: |_| Some(rt_response(syn_get::Response {})),
        },
    ]
}
