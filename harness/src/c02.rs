//! C02 — sign_json / verify_json.
//!  ( 0 obj ((entity key-index version)...) table )  -> ( status final-object )
//!  ( 1 obj pkmap table expect-ok )                  -> ok () | err 0
//! `table`: honest (key, message, signature) triples recorded while signing.
use std::{cell::RefCell, collections::BTreeMap};

use ruma_common::{serde::Base64, CanonicalJsonObject, CanonicalJsonValue};
use ruma_signatures::{sign_json, verify_json, Ed25519KeyPair, KeyPair, PublicKeyMap, PublicKeySet, Signature};

use crate::{
    jgen::{gen_json, gen_obj, gen_str},
    rng::Rng,
    sx::{guarded, obj_to_sx, sx_to_obj, Sx},
    Emitter,
};

pub const N_KEYS: usize = 4;

/// Deterministic Ed25519 key pairs: PKCS#8 v1 documents built from fixed seeds.
pub fn key_seed(idx: usize) -> [u8; 32] {
    let mut seed = [0u8; 32];
    for i in 0..32u8 {
        seed[i as usize] = i.wrapping_mul(7).wrapping_add(idx as u8 * 31 + 1);
    }
    seed
}

fn hex(b: &[u8]) -> String {
    if b.is_empty() {
        return "-".to_owned();
    }
    b.iter().map(|x| format!("{x:02x}")).collect()
}

pub fn keypair(idx: usize, version: &str) -> Ed25519KeyPair {
    let mut der = vec![0x30, 0x2e, 0x02, 0x01, 0x00, 0x30, 0x05, 0x06, 0x03, 0x2b, 0x65, 0x70, 0x04, 0x22, 0x04, 0x20];
    der.extend_from_slice(&key_seed(idx));
    Ed25519KeyPair::from_der(&der, version.to_owned()).unwrap()
}

/// A `KeyPair` that records every (message, signature) it produces.
pub struct Recording<'a> {
    pub inner: Ed25519KeyPair,
    pub idx: usize,
    pub log: &'a RefCell<Vec<(usize, Vec<u8>, Vec<u8>)>>,
}

impl KeyPair for Recording<'_> {
    fn sign(&self, message: &[u8]) -> Signature {
        let s = self.inner.sign(message);
        self.log.borrow_mut().push((self.idx, message.to_vec(), s.as_bytes().to_vec()));
        s
    }
}

thread_local! {
    /// (seed, message, signature, public key) lines for the independent RFC 8032 oracle.
    static ORACLE: RefCell<Vec<String>> = const { RefCell::new(vec![]) };
}

const ENTITIES: &[&str] = &["a.example", "b.example", "c.example:8448", "[::1]", ""];
const VERSIONS: &[&str] = &["1", "key_2", "a+b", "", V247, V248, V300];
// key versions that bring the key ID `ed25519:<version>` to 255, 256 and 308 bytes: sign_json builds
// the ID unchecked, verify_json parses it (seed3 C02-1)
const V247: &str = "k23456789012345678901234567890123456789012345678901234567890123456789012345678901234567890123456789012345678901234567890123456789012345678901234567890123456789012345678901234567890123456789012345678901234567890123456789012345678901234567890123456_";
const V248: &str = "k23456789012345678901234567890123456789012345678901234567890123456789012345678901234567890123456789012345678901234567890123456789012345678901234567890123456789012345678901234567890123456789012345678901234567890123456789012345678901234567890123456_8";
const V300: &str = "k23456789012345678901234567890123456789012345678901234567890123456789012345678901234567890123456789012345678901234567890123456789012345678901234567890123456789012345678901234567890123456789012345678901234567890123456789012345678901234567890123456_89012345678901234567890123456789012345678901234567890";

type Step = (String, usize, String);

fn run_sign(obj: &CanonicalJsonObject, steps: &[Step]) -> (Sx, Vec<(usize, Vec<u8>, Vec<u8>)>) {
    let log = RefCell::new(vec![]);
    let obj0 = obj.clone();
    let out = {
        let log = &log;
        let steps = steps.to_vec();
        guarded(std::panic::AssertUnwindSafe(move || {
            let mut o = obj0;
            let mut status = 0;
            for (e, k, v) in &steps {
                let kp = Recording { inner: keypair(*k, v), idx: *k, log };
                if sign_json(e, &kp, &mut o).is_err() {
                    status = 1;
                    break;
                }
            }
            Sx::L(vec![Sx::N(status), obj_to_sx(&o)])
        }))
    };
    (out, log.into_inner())
}

fn sign_case(obj: &CanonicalJsonObject, steps: &[Step]) -> (Sx, Sx) {
    let (out, log) = run_sign(obj, steps);
    ORACLE.with(|o| {
        let mut o = o.borrow_mut();
        if o.len() < 400 {
            for (k, m, s) in &log {
                o.push(format!("{} {} {} {}", hex(&key_seed(*k)), hex(m), hex(s), hex(&keypair(*k, "x").public_key())));
            }
        }
    });
    let table = Sx::L(log.iter().map(|(k, m, s)| Sx::L(vec![Sx::n(*k as i64), Sx::S(m.clone()), Sx::S(s.clone())])).collect());
    let case = Sx::L(vec![
        Sx::N(0),
        obj_to_sx(obj),
        Sx::L(steps.iter().map(|(e, k, v)| Sx::L(vec![Sx::s(e), Sx::n(*k as i64), Sx::s(v)])).collect()),
        table,
    ]);
    (case, out)
}

type Pk = BTreeMap<String, BTreeMap<String, Vec<u8>>>;

fn run_verify(obj: &CanonicalJsonObject, pk: &Pk) -> Sx {
    let mut map = PublicKeyMap::new();
    for (e, ks) in pk {
        let mut set = PublicKeySet::new();
        for (kid, bytes) in ks {
            set.insert(kid.clone(), Base64::new(bytes.clone()));
        }
        map.insert(e.clone(), set);
    }
    let obj = obj.clone();
    guarded(move || match verify_json(&map, &obj) {
        Ok(()) => Sx::ok(Sx::L(vec![])),
        Err(_) => Sx::err(0),
    })
}

fn verify_case(obj: &CanonicalJsonObject, pk: &Pk, table: &[(Vec<u8>, Vec<u8>, Vec<u8>)], expect_ok: bool) -> (Sx, Sx) {
    let pkm = Sx::L(
        pk.iter()
            .map(|(e, ks)| {
                Sx::L(vec![Sx::s(e), Sx::L(ks.iter().map(|(k, b)| Sx::L(vec![Sx::s(k), Sx::S(b.clone())])).collect())])
            })
            .collect(),
    );
    let tbl = Sx::L(table.iter().map(|(k, m, s)| Sx::L(vec![Sx::S(k.clone()), Sx::S(m.clone()), Sx::S(s.clone())])).collect());
    let case = Sx::L(vec![Sx::N(1), obj_to_sx(obj), pkm, tbl, Sx::b(expect_ok)]);
    (case, run_verify(obj, pk))
}

pub fn replay(case: &Sx) -> Option<Sx> {
    let l = case.as_list()?;
    let obj = sx_to_obj(l.get(1)?)?;
    match l.first()?.as_int()? {
        0 => {
            let steps: Vec<Step> = l
                .get(2)?
                .as_list()?
                .iter()
                .map(|s| {
                    let s = s.as_list()?;
                    Some((s.first()?.as_string()?, s.get(1)?.as_int()? as usize, s.get(2)?.as_string()?))
                })
                .collect::<Option<_>>()?;
            Some(run_sign(&obj, &steps).0)
        }
        _ => {
            let mut pk = Pk::new();
            for e in l.get(2)?.as_list()? {
                let e = e.as_list()?;
                let mut ks = BTreeMap::new();
                for kv in e.get(1)?.as_list()? {
                    let kv = kv.as_list()?;
                    ks.insert(kv.first()?.as_string()?, kv.get(1)?.as_bytes()?.to_vec());
                }
                pk.insert(e.first()?.as_string()?, ks);
            }
            Some(run_verify(&obj, &pk))
        }
    }
}

pub fn dump(_dir: &str) {}

fn gen_steps(r: &mut Rng) -> Vec<Step> {
    let n = 1 + r.below(3);
    (0..n).map(|_| ((*r.pick(ENTITIES)).to_owned(), r.below(N_KEYS), (*r.pick(VERSIONS)).to_owned())).collect()
}

fn gen_base(r: &mut Rng) -> CanonicalJsonObject {
    let mut o = gen_obj(r, 2);
    if r.chance(1, 2) {
        o.insert("unsigned".into(), gen_json(r, 2));
    }
    if r.chance(1, 3) {
        o.insert("content".into(), CanonicalJsonValue::Object(gen_obj(r, 2)));
    }
    o
}

pub fn run(tier: &str, seed: u64, em: &mut Emitter) {
    let mut r = Rng::new(seed ^ 0xC02);
    let n = if tier == "thorough" { 20_000 } else { 1_000 };

    // ---- signing ----
    for i in 0..n {
        let mut obj = gen_base(&mut r);
        // pre-existing `signatures` of every shape, including the ill-typed ones
        match r.below(8) {
            0 => {
                obj.insert("signatures".into(), gen_json(&mut r, 1));
            }
            1 => {
                let mut m = CanonicalJsonObject::new();
                m.insert((*r.pick(ENTITIES)).to_owned(), gen_json(&mut r, 1));
                obj.insert("signatures".into(), CanonicalJsonValue::Object(m));
            }
            2 => {
                let mut set = CanonicalJsonObject::new();
                set.insert("ed25519:old".into(), CanonicalJsonValue::String("AAAA".into()));
                set.insert("ed25519:1".into(), CanonicalJsonValue::String("BBBB".into()));
                let mut m = CanonicalJsonObject::new();
                m.insert((*r.pick(ENTITIES)).to_owned(), CanonicalJsonValue::Object(set));
                m.insert("other".into(), CanonicalJsonValue::Object(CanonicalJsonObject::new()));
                obj.insert("signatures".into(), CanonicalJsonValue::Object(m));
            }
            _ => {}
        }
        let steps = if i % 2 == 0 { vec![gen_steps(&mut r).remove(0)] } else { gen_steps(&mut r) };
        let (case, out) = sign_case(&obj, &steps);
        em.emit(if steps.len() == 1 { "sign-one" } else { "sign-sequence" }, case, out);
    }

    ORACLE.with(|o| {
        for line in o.borrow().iter() {
            em.aux("ed25519.txt", line.clone());
        }
    });

    // ---- size boundary: verify_json is documented as not size-limited (requests may exceed a PDU) ----
    for sz in [65_534usize, 65_535, 65_536, 65_537, 100_000] {
        let mut obj = CanonicalJsonObject::new();
        obj.insert("pad".into(), CanonicalJsonValue::String(String::new()));
        let base = serde_json::to_string(&obj).unwrap().len();
        obj.insert("pad".into(), CanonicalJsonValue::String("x".repeat(sz - base)));
        let log = RefCell::new(vec![]);
        let kp = Recording { inner: keypair(0, "1"), idx: 0, log: &log };
        let mut signed = obj.clone();
        if sign_json("big.example", &kp, &mut signed).is_ok() {
            let table: Vec<(Vec<u8>, Vec<u8>, Vec<u8>)> =
                log.borrow().iter().map(|(k, m, s)| (keypair(*k, "x").public_key().to_vec(), m.clone(), s.clone())).collect();
            let mut pk = Pk::new();
            pk.entry("big.example".into()).or_default().insert("ed25519:1".into(), keypair(0, "1").public_key().to_vec());
            let (case, out) = verify_case(&signed, &pk, &table, true);
            em.emit("verify-large", case, out);
        }
    }

    // ---- verification ----
    for _ in 0..n {
        let base = gen_base(&mut r);
        let steps = gen_steps(&mut r);
        let log = RefCell::new(vec![]);
        let mut signed = base.clone();
        let mut ok = true;
        for (e, k, v) in &steps {
            let kp = Recording { inner: keypair(*k, v), idx: *k, log: &log };
            if sign_json(e, &kp, &mut signed).is_err() {
                ok = false;
            }
        }
        if !ok {
            continue;
        }
        // honest triples, keyed by public key bytes
        let table: Vec<(Vec<u8>, Vec<u8>, Vec<u8>)> =
            log.borrow().iter().map(|(k, m, s)| (keypair(*k, "x").public_key().to_vec(), m.clone(), s.clone())).collect();
        let mut pk = Pk::new();
        for (e, k, v) in &steps {
            pk.entry(e.clone()).or_default().insert(format!("ed25519:{v}"), keypair(*k, v).public_key().to_vec());
        }
        // A later step may have replaced an earlier signature of the same entity+version with a
        // different key: the map above then holds the later key, which is the matching one.
        // a base object that already carries `signatures` (the key pool contains that name) names
        // entities nobody signed for: no expectation then, the spec predicate judges the verdict
        let honest = !base.contains_key("signatures");
        let (case, out) = verify_case(&signed, &pk, &table, honest);
        em.emit(if honest { "verify-honest" } else { "verify-foreign-signatures" }, case, out);

        // tamperings: each is one edit of the signed object or of the key map
        for _ in 0..6 {
            let mut o = signed.clone();
            let mut pk2 = pk.clone();
            let tag;
            match r.below(14) {
                0 => {
                    o.insert("unsigned".into(), gen_json(&mut r, 2));
                    tag = "tamper-unsigned";
                }
                1 => {
                    o.insert(gen_str(&mut r), gen_json(&mut r, 1));
                    tag = "tamper-member";
                }
                2 => {
                    let keys: Vec<String> = o.keys().filter(|k| *k != "signatures" && *k != "unsigned").cloned().collect();
                    if keys.is_empty() {
                        continue;
                    }
                    o.remove(r.pick(&keys));
                    tag = "tamper-remove-member";
                }
                3 | 4 | 5 => {
                    // edit one signature string
                    let Some(CanonicalJsonValue::Object(sm)) = o.get_mut("signatures") else { continue };
                    let ents: Vec<String> = sm.keys().cloned().collect();
                    let e = r.pick(&ents).clone();
                    let Some(CanonicalJsonValue::Object(set)) = sm.get_mut(&e) else { continue };
                    let kids: Vec<String> = set.keys().cloned().collect();
                    if kids.is_empty() {
                        continue;
                    }
                    let kid = r.pick(&kids).clone();
                    let Some(CanonicalJsonValue::String(s)) = set.get(&kid).cloned() else { continue };
                    let newv = match r.below(9) {
                        7 => CanonicalJsonValue::String(format!("{s}AAAA")),
                        8 => CanonicalJsonValue::String(format!("{s}{}", r.pick(&["A", "AA", "AAA", "QUJD"]))),
                        0 => CanonicalJsonValue::String(format!("{s}=")),
                        1 => CanonicalJsonValue::String(format!("{s}==")),
                        2 => CanonicalJsonValue::String(format!("{s}===")),
                        3 => {
                            let mut b = s.into_bytes();
                            let i = r.below(b.len());
                            b[i] = if b[i] == b'A' { b'B' } else { b'A' };
                            CanonicalJsonValue::String(String::from_utf8(b).unwrap())
                        }
                        4 => CanonicalJsonValue::String(s[..s.len() - 1].to_owned()),
                        5 => CanonicalJsonValue::String(format!("{}!", &s[..s.len() - 1])),
                        _ => gen_json(&mut r, 0),
                    };
                    set.insert(kid, newv);
                    tag = "tamper-signature";
                }
                6 => {
                    // add a signature with an unknown algorithm / malformed id (ignored) …
                    let Some(CanonicalJsonValue::Object(sm)) = o.get_mut("signatures") else { continue };
                    let ents: Vec<String> = sm.keys().cloned().collect();
                    let e = r.pick(&ents).clone();
                    let Some(CanonicalJsonValue::Object(set)) = sm.get_mut(&e) else { continue };
                    let kid = (*r.pick(&["foo:1", "ed25519", ":x", "ed25519x:1", "Ed25519:1", "ed25519:zzz"])).to_owned();
                    set.insert(kid, gen_json(&mut r, 0));
                    tag = "tamper-extra-keyid";
                }
                7 => {
                    // … or a new entity without a usable signature
                    let Some(CanonicalJsonValue::Object(sm)) = o.get_mut("signatures") else { continue };
                    let v = match r.below(3) {
                        0 => CanonicalJsonValue::Object(CanonicalJsonObject::new()),
                        1 => gen_json(&mut r, 0),
                        _ => {
                            let mut set = CanonicalJsonObject::new();
                            set.insert("foo:1".into(), CanonicalJsonValue::String("AAAA".into()));
                            CanonicalJsonValue::Object(set)
                        }
                    };
                    sm.insert("new.example".into(), v);
                    tag = "tamper-extra-entity";
                }
                8 => {
                    match r.below(2) {
                        0 => {
                            o.remove("signatures");
                        }
                        _ => {
                            o.insert("signatures".into(), gen_json(&mut r, 0));
                        }
                    }
                    tag = "tamper-signatures-shape";
                }
                9 => {
                    let ents: Vec<String> = pk2.keys().cloned().collect();
                    pk2.remove(r.pick(&ents));
                    tag = "keys-missing-entity";
                }
                10 => {
                    let ents: Vec<String> = pk2.keys().cloned().collect();
                    let e = r.pick(&ents).clone();
                    let set = pk2.get_mut(&e).unwrap();
                    let kids: Vec<String> = set.keys().cloned().collect();
                    set.remove(r.pick(&kids));
                    tag = "keys-missing-key";
                }
                11 => {
                    let ents: Vec<String> = pk2.keys().cloned().collect();
                    let e = r.pick(&ents).clone();
                    let set = pk2.get_mut(&e).unwrap();
                    let kids: Vec<String> = set.keys().cloned().collect();
                    let kid = r.pick(&kids).clone();
                    let newk = match r.below(3) {
                        0 => keypair((r.below(N_KEYS) + 1) % N_KEYS, "x").public_key().to_vec(),
                        1 => vec![1, 2, 3],
                        _ => {
                            let mut b = set[&kid].clone();
                            b[0] ^= 1;
                            b
                        }
                    };
                    set.insert(kid, newk);
                    tag = "keys-wrong-key";
                }
                12 => {
                    // permute nothing semantically: re-insert members (BTreeMap order is fixed), add
                    // an unrelated entity's keys
                    pk2.entry("unrelated.example".into()).or_default().insert("ed25519:1".into(), vec![0; 32]);
                    tag = "keys-extra";
                }
                _ => {
                    // nested edit inside a signed member
                    let keys: Vec<String> = o.keys().filter(|k| *k != "signatures" && *k != "unsigned").cloned().collect();
                    if keys.is_empty() {
                        continue;
                    }
                    let k = r.pick(&keys).clone();
                    let v = gen_json(&mut r, 1);
                    if o.get(&k) == Some(&v) {
                        continue;
                    }
                    o.insert(k, v);
                    tag = "tamper-member";
                }
            }
            // after a tampering we do not know the expected verdict a priori, except that edits
            // confined to `unsigned` or extra keys must keep it Ok
            let expect = honest && (tag == "tamper-unsigned" || tag == "keys-extra");
            let (case, out) = verify_case(&o, &pk2, &table, expect);
            em.emit(tag, case, out);
        }
    }
}
