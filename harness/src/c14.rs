//! C14 — HTML sanitizer: cases and implementation outcomes (shared with C15).
//!
//! case    = ( cfg html-bytes parsed-tree )
//!   cfg   = ( mode reply replace_elements remove_elements ignore_elements allow_elements
//!             replace_attrs remove_attrs allow_attrs deny_schemes allow_schemes
//!             remove_classes allow_classes max_depth )
//!           mode 0 none / 1 strict / 2 compat; unset options are `( )`, set ones `( x )`;
//!           lists with a behaviour are `( override? content )`.
//!   tree  = ( node* );  node = ( N0 ns name ( attr* ) ( node* ) ) | ( N1 text ) | ( N2 )
//!   attr  = ( prefix-enc ns local value ), in the BTreeSet's iteration order; prefix-enc is
//!           empty for `None` and 0x01 ++ prefix for `Some(prefix)` (order-preserving).
//! outcome = ok ( cleaned-tree reparsed-output-tree ( entry-points-agree ) ) | panic
//!   cleaned-tree: `Html::parse(html)`, `sanitize_with(cfg)`, dumped through the public DOM API;
//!   reparsed-output-tree: `Html::parse(html.to_string())` of the cleaned document — what an HTML
//!   parser sees; html5ever is not modelled, so the Coq side echoes it and evaluates the spec on it;
//!   entry-points-agree: for a preset, `sanitize_html` / `remove_html_reply_fallback` / `Html::sanitize`
//!   return the same string as parse + sanitize_with + to_string (echoed, required by the spec check).
use ruma_html::{
    ElementAttributesReplacement, ElementAttributesSchemes, Html, HtmlSanitizerMode, ListBehavior,
    NameReplacement, NodeData, NodeRef, PropertiesNames, RemoveReplyFallback, SanitizerConfig,
};

use crate::{
    rng::Rng,
    sx::{guarded, Sx},
    Emitter,
};

type S = &'static str;
type Props = Vec<(S, Vec<S>)>;
type Schemes = Vec<(S, Props)>;

#[derive(Clone, Debug, Default)]
pub struct Cfg {
    pub mode: u8,
    pub reply: bool,
    pub replace_elems: Option<(bool, Vec<(S, S)>)>,
    pub remove_elems: Option<Vec<S>>,
    pub ignore_elems: Option<Vec<S>>,
    pub allow_elems: Option<(bool, Vec<S>)>,
    pub replace_attrs: Option<(bool, Vec<(S, Vec<(S, S)>)>)>,
    pub remove_attrs: Option<Props>,
    pub allow_attrs: Option<(bool, Props)>,
    pub deny_schemes: Option<Schemes>,
    pub allow_schemes: Option<(bool, Schemes)>,
    pub remove_classes: Option<Props>,
    pub allow_classes: Option<(bool, Props)>,
    pub max_depth: Option<u32>,
}

fn beh(o: bool) -> ListBehavior {
    if o {
        ListBehavior::Override
    } else {
        ListBehavior::Add
    }
}

fn dedup_keys<T: Clone>(v: &[(S, T)]) -> Vec<(S, T)> {
    // HashMap::from_iter keeps the last entry of a key; the model looks up the first.
    let mut out: Vec<(S, T)> = vec![];
    for (k, x) in v.iter().rev() {
        if !out.iter().any(|(k2, _)| k2 == k) {
            out.push((*k, x.clone()));
        }
    }
    out.reverse();
    out
}

impl Cfg {
    /// Make every association list key-unique (last entry wins, as `HashMap::from_iter`).
    pub fn normalise(mut self) -> Self {
        if let Some((_, l)) = &mut self.replace_elems {
            *l = dedup_keys(l);
        }
        if let Some((_, l)) = &mut self.replace_attrs {
            *l = dedup_keys(l);
            for (_, m) in l.iter_mut() {
                *m = dedup_keys(m);
            }
        }
        for l in [&mut self.remove_attrs, &mut self.remove_classes].into_iter().flatten() {
            *l = dedup_keys(l);
        }
        for (_, l) in [&mut self.allow_attrs, &mut self.allow_classes].into_iter().flatten() {
            *l = dedup_keys(l);
        }
        if let Some(l) = &mut self.deny_schemes {
            *l = dedup_keys(l);
            for (_, m) in l.iter_mut() {
                *m = dedup_keys(m);
            }
        }
        if let Some((_, l)) = &mut self.allow_schemes {
            *l = dedup_keys(l);
            for (_, m) in l.iter_mut() {
                *m = dedup_keys(m);
            }
        }
        self
    }

    /// `Some((mode, reply))` when no list option and no depth is set.
    pub fn preset_kind(&self) -> Option<(u8, bool)> {
        let plain = self.replace_elems.is_none()
            && self.remove_elems.is_none()
            && self.ignore_elems.is_none()
            && self.allow_elems.is_none()
            && self.replace_attrs.is_none()
            && self.remove_attrs.is_none()
            && self.allow_attrs.is_none()
            && self.deny_schemes.is_none()
            && self.allow_schemes.is_none()
            && self.remove_classes.is_none()
            && self.allow_classes.is_none()
            && self.max_depth.is_none();
        plain.then_some((self.mode, self.reply))
    }

    /// Through the public builder only.
    pub fn build(&self) -> SanitizerConfig {
        let mut c = match self.mode {
            1 => SanitizerConfig::strict(),
            2 => SanitizerConfig::compat(),
            _ => SanitizerConfig::new(),
        };
        if self.reply {
            c = c.remove_reply_fallback();
        }
        if let Some((o, l)) = &self.replace_elems {
            c = c.replace_elements(l.iter().map(|(a, b)| NameReplacement { old: a, new: b }), beh(*o));
        }
        if let Some(l) = &self.remove_elems {
            c = c.remove_elements(l.iter().copied());
        }
        if let Some(l) = &self.ignore_elems {
            c = c.ignore_elements(l.iter().copied());
        }
        if let Some((o, l)) = &self.allow_elems {
            c = c.allow_elements(l.iter().copied(), beh(*o));
        }
        if let Some((o, l)) = &self.replace_attrs {
            let reps: Vec<Vec<NameReplacement>> =
                l.iter().map(|(_, m)| m.iter().map(|(a, b)| NameReplacement { old: a, new: b }).collect()).collect();
            c = c.replace_attributes(
                l.iter().zip(reps.iter()).map(|((e, _), r)| ElementAttributesReplacement { element: e, replacements: r }),
                beh(*o),
            );
        }
        fn props(l: &Props) -> impl Iterator<Item = PropertiesNames<'_>> {
            l.iter().map(|(p, v)| PropertiesNames { parent: p, properties: v })
        }
        if let Some(l) = &self.remove_attrs {
            c = c.remove_attributes(props(l));
        }
        if let Some((o, l)) = &self.allow_attrs {
            c = c.allow_attributes(props(l), beh(*o));
        }
        if let Some(l) = &self.deny_schemes {
            let inner: Vec<Vec<PropertiesNames<'_>>> = l.iter().map(|(_, m)| props(m).collect()).collect();
            c = c.deny_schemes(
                l.iter().zip(inner.iter()).map(|((e, _), s)| ElementAttributesSchemes { element: e, attr_schemes: s }),
            );
        }
        if let Some((o, l)) = &self.allow_schemes {
            let inner: Vec<Vec<PropertiesNames<'_>>> = l.iter().map(|(_, m)| props(m).collect()).collect();
            c = c.allow_schemes(
                l.iter().zip(inner.iter()).map(|((e, _), s)| ElementAttributesSchemes { element: e, attr_schemes: s }),
                beh(*o),
            );
        }
        if let Some(l) = &self.remove_classes {
            c = c.remove_classes(props(l));
        }
        if let Some((o, l)) = &self.allow_classes {
            c = c.allow_classes(props(l), beh(*o));
        }
        if let Some(d) = self.max_depth {
            c = c.max_depth(d);
        }
        c
    }

    pub fn to_sx(&self) -> Sx {
        fn strs(l: &[S]) -> Sx {
            Sx::L(l.iter().map(|s| Sx::s(s)).collect())
        }
        fn pairs(l: &[(S, S)]) -> Sx {
            Sx::L(l.iter().map(|(a, b)| Sx::L(vec![Sx::s(a), Sx::s(b)])).collect())
        }
        fn props(l: &Props) -> Sx {
            Sx::L(l.iter().map(|(p, v)| Sx::L(vec![Sx::s(p), strs(v)])).collect())
        }
        fn schemes(l: &Schemes) -> Sx {
            Sx::L(l.iter().map(|(e, m)| Sx::L(vec![Sx::s(e), props(m)])).collect())
        }
        fn with_beh(o: bool, x: Sx) -> Sx {
            Sx::L(vec![Sx::b(o), x])
        }
        Sx::L(vec![
            Sx::n(self.mode),
            Sx::b(self.reply),
            Sx::opt(self.replace_elems.as_ref().map(|(o, l)| with_beh(*o, pairs(l)))),
            Sx::opt(self.remove_elems.as_ref().map(|l| strs(l))),
            Sx::opt(self.ignore_elems.as_ref().map(|l| strs(l))),
            Sx::opt(self.allow_elems.as_ref().map(|(o, l)| with_beh(*o, strs(l)))),
            Sx::opt(self.replace_attrs.as_ref().map(|(o, l)| {
                with_beh(*o, Sx::L(l.iter().map(|(e, m)| Sx::L(vec![Sx::s(e), pairs(m)])).collect()))
            })),
            Sx::opt(self.remove_attrs.as_ref().map(props)),
            Sx::opt(self.allow_attrs.as_ref().map(|(o, l)| with_beh(*o, props(l)))),
            Sx::opt(self.deny_schemes.as_ref().map(schemes)),
            Sx::opt(self.allow_schemes.as_ref().map(|(o, l)| with_beh(*o, schemes(l)))),
            Sx::opt(self.remove_classes.as_ref().map(props)),
            Sx::opt(self.allow_classes.as_ref().map(|(o, l)| with_beh(*o, props(l)))),
            Sx::opt(self.max_depth.map(Sx::n)),
        ])
    }

    pub fn from_sx(x: &Sx) -> Option<Cfg> {
        fn leak(x: &Sx) -> Option<S> {
            Some(Box::leak(x.as_string()?.into_boxed_str()))
        }
        fn strs(x: &Sx) -> Option<Vec<S>> {
            x.as_list()?.iter().map(leak).collect()
        }
        fn pairs(x: &Sx) -> Option<Vec<(S, S)>> {
            x.as_list()?.iter().map(|p| { let l = p.as_list()?; Some((leak(l.first()?)?, leak(l.get(1)?)?)) }).collect()
        }
        fn props(x: &Sx) -> Option<Props> {
            x.as_list()?.iter().map(|p| { let l = p.as_list()?; Some((leak(l.first()?)?, strs(l.get(1)?)?)) }).collect()
        }
        fn schemes(x: &Sx) -> Option<Schemes> {
            x.as_list()?.iter().map(|p| { let l = p.as_list()?; Some((leak(l.first()?)?, props(l.get(1)?)?)) }).collect()
        }
        fn opt<T>(x: &Sx, f: impl Fn(&Sx) -> Option<T>) -> Option<Option<T>> {
            match x.as_opt()? {
                None => Some(None),
                Some(v) => Some(Some(f(v)?)),
            }
        }
        fn with_beh<T>(x: &Sx, f: impl Fn(&Sx) -> Option<T>) -> Option<(bool, T)> {
            let l = x.as_list()?;
            Some((l.first()?.as_int()? != 0, f(l.get(1)?)?))
        }
        let l = x.as_list()?;
        if l.len() != 14 {
            return None;
        }
        Some(Cfg {
            mode: u8::try_from(l[0].as_int()?).ok()?,
            reply: l[1].as_int()? != 0,
            replace_elems: opt(&l[2], |x| with_beh(x, pairs))?,
            remove_elems: opt(&l[3], strs)?,
            ignore_elems: opt(&l[4], strs)?,
            allow_elems: opt(&l[5], |x| with_beh(x, strs))?,
            replace_attrs: opt(&l[6], |x| {
                with_beh(x, |y| {
                    y.as_list()?.iter().map(|p| { let l = p.as_list()?; Some((leak(l.first()?)?, pairs(l.get(1)?)?)) }).collect()
                })
            })?,
            remove_attrs: opt(&l[7], props)?,
            allow_attrs: opt(&l[8], |x| with_beh(x, props))?,
            deny_schemes: opt(&l[9], schemes)?,
            allow_schemes: opt(&l[10], |x| with_beh(x, schemes))?,
            remove_classes: opt(&l[11], props)?,
            allow_classes: opt(&l[12], |x| with_beh(x, props))?,
            max_depth: opt(&l[13], |x| u32::try_from(x.as_int()?).ok())?,
        })
    }
}

// ---------------------------------------------------------------------------------------------
// DOM dump through the public API
// ---------------------------------------------------------------------------------------------
const HTML_NS: &str = "http://www.w3.org/1999/xhtml";

pub fn node_sx(n: &NodeRef) -> Sx {
    match n.data() {
        NodeData::Element(e) => {
            let ns: &str = &e.name.ns;
            let attrs = e.attrs.borrow();
            let al = attrs
                .iter()
                .map(|a| {
                    let pfx = match &a.name.prefix {
                        None => vec![],
                        Some(p) => {
                            let mut v = vec![1u8];
                            v.extend_from_slice(p.as_bytes());
                            v
                        }
                    };
                    let ans: &str = &a.name.ns;
                    Sx::L(vec![Sx::S(pfx), Sx::s(ans), Sx::s(&a.name.local), Sx::s(&a.value)])
                })
                .collect();
            Sx::L(vec![
                Sx::N(0),
                Sx::s(if ns == HTML_NS { "" } else { ns }),
                Sx::s(&e.name.local),
                Sx::L(al),
                Sx::L(n.children().map(|c| node_sx(&c)).collect()),
            ])
        }
        NodeData::Text(t) => Sx::L(vec![Sx::N(1), Sx::s(&t.borrow())]),
        _ => Sx::L(vec![Sx::N(2)]),
    }
}

pub fn tree_sx(h: &Html) -> Sx {
    Sx::L(h.children().map(|c| node_sx(&c)).collect())
}

pub fn case_sx(cfg: &Cfg, html: &str) -> Sx {
    Sx::L(vec![cfg.to_sx(), Sx::s(html), tree_sx(&Html::parse(html))])
}

pub fn decode_case(case: &Sx) -> Option<(Cfg, String)> {
    let l = case.as_list()?;
    Some((Cfg::from_sx(l.first()?)?.normalise(), l.get(1)?.as_string()?))
}

pub fn run_case(cfg: &Cfg, html: &str) -> Sx {
    let cfg = cfg.clone();
    let html = html.to_owned();
    guarded(move || {
        let conf = cfg.build();
        let doc = Html::parse(&html);
        doc.sanitize_with(&conf);
        let cleaned = tree_sx(&doc);
        let out = doc.to_string();
        let re = Html::parse(&out);
        // the string entry points are thin wrappers: same result as parse + sanitize_with + to_string
        let entry_ok = match cfg.preset_kind() {
            Some((1, reply)) => ruma_html::sanitize_html(&html, HtmlSanitizerMode::Strict, rrf(reply)) == out,
            Some((2, reply)) => {
                let a = ruma_html::sanitize_html(&html, HtmlSanitizerMode::Compat, rrf(reply)) == out;
                let b = !reply || {
                    let d = Html::parse(&html);
                    d.sanitize();
                    d.to_string() == out
                };
                a && b
            }
            Some((_, true)) => ruma_html::remove_html_reply_fallback(&html) == out,
            _ => true,
        };
        Sx::ok(Sx::L(vec![cleaned, tree_sx(&re), Sx::L(vec![Sx::b(entry_ok)])]))
    })
}

fn rrf(reply: bool) -> RemoveReplyFallback {
    if reply {
        RemoveReplyFallback::Yes
    } else {
        RemoveReplyFallback::No
    }
}

pub fn dump(_dir: &str) {}

pub fn replay(case: &Sx) -> Option<Sx> {
    let (cfg, html) = decode_case(case)?;
    Some(run_case(&cfg, &html))
}

// ---------------------------------------------------------------------------------------------
// Generators
// ---------------------------------------------------------------------------------------------
pub const ALLOWED: &[&str] = &[
    "del", "h1", "h2", "h3", "h4", "h5", "h6", "blockquote", "p", "a", "ul", "ol", "sup", "sub", "li", "b", "i", "u",
    "strong", "em", "s", "code", "hr", "br", "div", "table", "thead", "tbody", "tr", "th", "td", "caption", "pre",
    "span", "img", "details", "summary",
];
pub const DEPRECATED: &[&str] = &["font", "strike"];
pub const FORBIDDEN: &[&str] = &[
    "script", "style", "iframe", "object", "form", "input", "marquee", "x-foo", "mx-reply", "video", "textarea",
    "title", "template", "noscript", "select", "option", "button", "body", "html", "head", "center", "big", "tt",
    "nobr", "xmp", "plaintext", "frameset", "col", "colgroup", "tfoot",
];
pub const FOREIGN: &[&str] = &[
    "svg", "math", "circle", "foreignObject", "desc", "mi", "mtext", "annotation-xml", "mglyph", "use", "g", "path",
];

pub const URIS: &[&str] = &[
    "https://a.b/c", "http://a.b", "ftp://a", "mailto:x@y", "magnet:?xt=1", "matrix:u/a:b", "mxc://s/m",
    "javascript:alert(1)", "JavaScript:alert(1)", "HTTPS://a.b", " https://a", "\thttps://a", "java\tscript:alert(1)",
    "\u{1}javascript:alert(1)", "data:text/html,x", "//evil", "/rel", "x", "", "https", "https:", ":", "http:x", "mxc:",
    "mxc:/", "vbscript:x", "jav&#x09;ascript:alert(1)", "javascript&colon;alert(1)", "https&#58;//a", "httpss://a",
    "http s://a", "mxc ://s/m", "MXC://s/m", "mailto", "magnet", "matrix:", "matrixx:a", "\u{e9}https://a", "https\u{0}://a",
    "https://a\"b", "https://a'b", "https://a<b>", "blob:x", "file:///etc/passwd", "tel:1",
    // an allowed scheme without `//` whose value carries another scheme's `://` further on, and the
    // reverse (seed3 C15-2: scheme taken at the first `://` instead of the first `:`)
    "magnet:?xt=urn:btih:c12fe1&tr=udp://tracker.example:80", "mailto:x@y?body=see%20https://a.b", "matrix:r/a:b?via=https://x",
    "javascript:location='https://a.b'", "data:text/html,https://a", "x:y://z", "https:evil://a", "mxc:javascript://s/m",
];

pub const CLASSES: &[&str] = &[
    "language-rust", "language-", "language", "lang", "Language-x", "foo", "language-a language-b", "x language-c",
    "language-c  y", " language-d ", "a\tb", "a\u{a0}b", "a\u{2003}language-x", "", " ", "ab", "b", "a", "lang1", "langs",
    "language-\u{e9}", "\u{e9}", "language-x*", "*", "?", "a\u{85}b", "a\u{200b}b", "a\u{c}language-q",
    "language-rust\tmx-injected", "language-a\nevil", "language-b\u{c}evil", "language-c\revil", "language-d\u{2003}evil",
];

pub const ATTR_POOL: &[(&str, &[&str])] = &[
    ("a", &["href", "target", "data-x", "class", "name", "onclick", "title"]),
    ("img", &["src", "alt", "width", "height", "title", "onerror", "data-mx-x"]),
    ("span", &["data-mx-color", "data-mx-bg-color", "data-mx-spoiler", "data-mx-maths", "class", "style", "color"]),
    ("code", &["class", "id", "data-mx-maths"]),
    ("font", &["color", "data-mx-color", "size", "data-mx-bg-color", "class", "style"]),
    ("div", &["data-mx-maths", "class", "id", "style"]),
    ("ol", &["start", "type", "class"]),
    ("p", &["id", "class", "style", "href", "src"]),
    ("strike", &["color", "class"]),
    ("svg", &["href", "xlink:href", "xml:lang", "xmlns:xlink", "viewBox", "class"]),
    ("x-foo", &["href", "src", "class", "id"]),
    ("mx-reply", &["id", "class"]),
    ("td", &["colspan", "class", "href"]),
];

fn attr_value(r: &mut Rng, el: &str, name: &str) -> String {
    match name {
        "href" | "src" | "xlink:href" => (*r.pick(URIS)).to_owned(),
        "class" => (*r.pick(CLASSES)).to_owned(),
        "color" | "data-mx-color" | "data-mx-bg-color" => (*r.pick(&["#ff0000", "red", "", "#FFF", "javascript:x"])).to_owned(),
        "target" => (*r.pick(&["_blank", "_self", ""])).to_owned(),
        "start" | "width" | "height" | "colspan" | "size" => (*r.pick(&["1", "0", "-1", "100", "x", ""])).to_owned(),
        _ => {
            if r.chance(1, 6) {
                (*r.pick(URIS)).to_owned()
            } else {
                let _ = el;
                (*r.pick(&["1", "x", "", "a b", "a&amp;b", "&lt;b&gt;", "\u{e9}"])).to_owned()
            }
        }
    }
}

fn quote_attr(r: &mut Rng, v: &str) -> String {
    // values containing entity references are left as written (the parser decodes them)
    let esc = v.replace('"', "&quot;");
    match r.below(10) {
        0 if !v.is_empty() && !v.contains([' ', '\t', '>', '\'', '"', '=', '<', '`', '\u{c}', '\n']) => v.to_owned(),
        1 if !v.contains('\'') => format!("'{v}'"),
        _ => format!("\"{esc}\""),
    }
}

pub fn elem_attrs(r: &mut Rng, el: &str) -> String {
    let pool: &[&str] = ATTR_POOL.iter().find(|(e, _)| *e == el).map(|(_, p)| *p).unwrap_or(&["id", "class", "style", "href", "title"]);
    let mut s = String::new();
    let k = match r.below(8) {
        0..=2 => 0,
        3 | 4 => 1,
        5 => 2,
        6 => 3,
        _ => pool.len(),
    };
    let mut names: Vec<&str> = pool.to_vec();
    // random order, first k
    for i in (1..names.len()).rev() {
        names.swap(i, r.below(i + 1));
    }
    names.truncate(k.min(pool.len()));
    if r.chance(1, 25) && !names.is_empty() {
        let d = names[0];
        names.push(d); // duplicate attribute (parser keeps the first)
    }
    for n in names {
        let v = attr_value(r, el, n);
        s.push(' ');
        if r.chance(1, 15) {
            s.push_str(&n.to_uppercase());
        } else {
            s.push_str(n);
        }
        if r.chance(1, 20) {
            continue; // valueless attribute
        }
        s.push('=');
        s.push_str(&quote_attr(r, &v));
    }
    s
}

pub const TEXTS: &[&str] = &[
    "x", "hello world", " ", "a&amp;b", "&lt;script&gt;", "1 < 2", "\u{e9}\u{1F600}", "\n", "a\u{0}b", "]]>", "&", "&#x3c;b&#x3e;",
    "</", "-->", "&notanentity;", "t",
];

fn pick_elem(r: &mut Rng) -> &'static str {
    match r.below(20) {
        0..=10 => *r.pick(ALLOWED),
        11 | 12 => *r.pick(DEPRECATED),
        13..=16 => *r.pick(FORBIDDEN),
        _ => *r.pick(FOREIGN),
    }
}

fn gen_nodes(r: &mut Rng, out: &mut String, depth: usize, budget: &mut usize, clean_only: bool) {
    let n = if depth == 0 { 1 + r.below(4) } else { r.below(4) };
    for _ in 0..n {
        if *budget == 0 {
            return;
        }
        *budget -= 1;
        let k = r.below(20);
        if k < 5 {
            out.push_str(if clean_only { *r.pick(&["x", "hello", "a&amp;b", "1 &lt; 2", "\u{e9}"]) } else { *r.pick(TEXTS) });
        } else if k == 5 && !clean_only {
            out.push_str(*r.pick(&["<!-- c -->", "<!---->", "<?pi x?>", "<!DOCTYPE html>", "<![CDATA[x]]>", "<!-- <b> -->", "<!>", "<!-- --!>"]));
        } else if k == 6 && !clean_only {
            // malformed markup
            out.push_str(*r.pick(&[
                "</p>", "<", "<a<b>", "</ x>", "<p/>", "<b <i>", "<div", "<img src=x", "</br>", "<a href='x>", "<p =x>", "<//>", "<b></i></b>",
                "<table><b>", "</table>", "<tr>", "<td>", "<li>", "<select><b>", "<svg><p>", "<math><b>", "</svg>",
            ]));
        } else {
            let el = if clean_only { *r.pick(ALLOWED) } else { pick_elem(r) };
            out.push('<');
            out.push_str(el);
            if clean_only {
                out.push_str(&clean_attrs(r, el));
            } else {
                out.push_str(&elem_attrs(r, el));
            }
            out.push('>');
            let void = matches!(el, "br" | "hr" | "img" | "input" | "col");
            if !void {
                if depth < 6 {
                    gen_nodes(r, out, depth + 1, budget, clean_only);
                }
                if clean_only || !r.chance(1, 12) {
                    out.push_str("</");
                    out.push_str(el);
                    out.push('>');
                }
            }
        }
    }
}

/// Attributes from the allow-list grammar (C15 preservation).
fn clean_attrs(r: &mut Rng, el: &str) -> String {
    let mut s = String::new();
    let mut add = |r: &mut Rng, n: &str, vals: &[&str]| {
        if r.chance(1, 2) {
            s.push_str(&format!(" {n}=\"{}\"", r.pick(vals)));
        }
    };
    match el {
        "a" => {
            add(r, "href", &["https://a.b/c", "http://a", "ftp://a", "mailto:x@y", "magnet:?x", "magnet:?xt=1&tr=udp://t.example", "mailto:x@y?body=https://a"]);
            add(r, "target", &["_blank"]);
        }
        "img" => {
            add(r, "src", &["mxc://s/m", "mxc:x"]);
            add(r, "alt", &["x", ""]);
            add(r, "width", &["1"]);
            add(r, "height", &["2"]);
            add(r, "title", &["t"]);
        }
        "span" => {
            add(r, "data-mx-color", &["#ff0000"]);
            add(r, "data-mx-bg-color", &["#00ff00"]);
            add(r, "data-mx-spoiler", &["", "reason"]);
            add(r, "data-mx-maths", &["x^2"]);
        }
        "div" => add(r, "data-mx-maths", &["x^2"]),
        "ol" => add(r, "start", &["1", "5"]),
        "code" => add(r, "class", &["language-rust", "language-a language-b", "language-"]),
        _ => {}
    }
    s
}

pub fn gen_doc(r: &mut Rng, clean_only: bool) -> String {
    let mut s = String::new();
    let mut budget = 4 + r.below(30);
    gen_nodes(r, &mut s, 0, &mut budget, clean_only);
    s
}

/// `n` nested elements around a payload (nesting stream).
pub fn gen_nested(r: &mut Rng, n: usize) -> String {
    let mut s = String::new();
    let mut stack = vec![];
    for _ in 0..n {
        let el = match r.below(10) {
            0..=5 => *r.pick(&["div", "span", "b", "blockquote", "ul", "li", "em", "details"]),
            6 => "font",
            7 => *r.pick(&["x-foo", "center", "big", "svg", "g"]),
            8 => "mx-reply",
            _ => "div",
        };
        s.push_str(&format!("<{el}>"));
        stack.push(el);
    }
    s.push_str(*r.pick(&["x", "<a href=\"https://a\">l</a>", "<script>1</script>", "<img src=\"mxc://a/b\">", "<!--c-->t"]));
    while let Some(el) = stack.pop() {
        if !r.chance(1, 40) {
            s.push_str(&format!("</{el}>"));
        }
        if r.chance(1, 30) {
            s.push_str("t");
        }
    }
    s
}

const OPT_REPLACE_ELEMS: &[&[(S, S)]] = &[&[("b", "strong")], &[("font", "em")], &[("x-foo", "span"), ("i", "b")], &[("i", "b"), ("b", "i")], &[("p", "mx-reply")], &[]];
const OPT_ELEMS: &[&[S]] = &[&["script"], &["b", "span"], &["mx-reply"], &["div"], &["a", "p"], &["x-foo"], &["script", "svg"], &["a", "img", "span", "code"], &["font"], &[]];
const OPT_REPLACE_ATTRS: &[&[(S, &[(S, S)])]] = &[
    &[("a", &[("name", "target")])],
    &[("font", &[("size", "data-mx-bg-color")])],
    &[("span", &[("style", "class")])],
    &[("a", &[("data-x", "href")]), ("img", &[("onerror", "src")])],
    &[("font", &[("color", "data-mx-bg-color")])],
    &[],
];
const OPT_PROPS_ATTRS: &[&[(S, &[S])]] = &[
    &[("a", &["target"])],
    &[("span", &["data-mx-color"]), ("img", &["alt"])],
    &[("a", &["data-x", "class"])],
    &[("p", &["id"]), ("img", &["onerror"])],
    &[("code", &["id"])],
    &[("span", &["class"]), ("a", &["href", "name"])],
    &[("x-foo", &["href", "class"])],
    &[],
];
const OPT_SCHEMES: &[&[(S, &[(S, &[S])])]] = &[
    &[("a", &[("href", &["http"])])],
    &[("img", &[("src", &["mxc"])])],
    &[("a", &[("href", &["javascript"])])],
    &[("img", &[("src", &["https", "http"])])],
    &[("a", &[("data-x", &["x"])])],
    &[("x-foo", &[("href", &["https"]), ("src", &["mxc"])])],
    &[("a", &[("href", &[])])],
    &[("p", &[("href", &["https"])])],
    &[],
];
const OPT_CLASSES: &[&[(S, &[S])]] = &[
    &[("code", &["language-x*"])],
    &[("span", &["*"])],
    &[("code", &["lang?"])],
    &[("span", &["a*", "b"])],
    &[("a", &["*"])],
    &[("code", &["language-?", "*-b"])],
    &[("div", &["a?b", "**", "l*g*e-*"])],
    &[("code", &[""])],
    &[],
];

fn props_of(x: &[(S, &[S])]) -> Props {
    x.iter().map(|(p, v)| (*p, v.to_vec())).collect()
}
fn schemes_of(x: &[(S, &[(S, &[S])])]) -> Schemes {
    x.iter().map(|(e, m)| (*e, props_of(m))).collect()
}

/// A configuration: preset x reply-fallback x each list option unset / Add / Override.
pub fn gen_cfg(r: &mut Rng) -> Cfg {
    let mut c = Cfg { mode: [1u8, 1, 2, 2, 0][r.below(5)], reply: r.chance(1, 2), ..Default::default() };
    // most configurations touch few options
    let p = *r.pick(&[0u64, 1, 1, 2, 4]);
    let on = |r: &mut Rng| r.chance(p, 10);
    if on(r) {
        c.replace_elems = Some((r.chance(1, 2), r.pick(OPT_REPLACE_ELEMS).to_vec()));
    }
    if on(r) {
        c.remove_elems = Some(r.pick(OPT_ELEMS).to_vec());
    }
    if on(r) {
        c.ignore_elems = Some(r.pick(OPT_ELEMS).to_vec());
    }
    if on(r) {
        c.allow_elems = Some((r.chance(1, 2), r.pick(OPT_ELEMS).to_vec()));
    }
    if on(r) {
        c.replace_attrs =
            Some((r.chance(1, 2), r.pick(OPT_REPLACE_ATTRS).iter().map(|(e, m)| (*e, m.to_vec())).collect()));
    }
    if on(r) {
        c.remove_attrs = Some(props_of(*r.pick(OPT_PROPS_ATTRS)));
    }
    if on(r) {
        c.allow_attrs = Some((r.chance(1, 2), props_of(*r.pick(OPT_PROPS_ATTRS))));
    }
    if on(r) {
        c.deny_schemes = Some(schemes_of(*r.pick(OPT_SCHEMES)));
    }
    if on(r) {
        c.allow_schemes = Some((r.chance(1, 2), schemes_of(*r.pick(OPT_SCHEMES))));
    }
    if on(r) {
        c.remove_classes = Some(props_of(*r.pick(OPT_CLASSES)));
    }
    if on(r) {
        c.allow_classes = Some((r.chance(1, 2), props_of(*r.pick(OPT_CLASSES))));
    }
    if on(r) {
        c.max_depth = Some(*r.pick(&[0u32, 1, 2, 3, 5, 99, 100, 101, 250]));
    }
    c
}

pub fn presets() -> Vec<Cfg> {
    let mut v = vec![];
    for mode in [1u8, 2, 0] {
        for reply in [false, true] {
            v.push(Cfg { mode, reply, ..Default::default() });
        }
    }
    v
}

/// Every single-option modification of a preset, with every option value and behaviour.
pub fn single_option_cfgs() -> Vec<Cfg> {
    let mut v = vec![];
    for base in presets() {
        for o in [false, true] {
            for x in OPT_REPLACE_ELEMS {
                v.push(Cfg { replace_elems: Some((o, x.to_vec())), ..base.clone() });
            }
            for x in OPT_ELEMS {
                v.push(Cfg { allow_elems: Some((o, x.to_vec())), ..base.clone() });
            }
            for x in OPT_REPLACE_ATTRS {
                v.push(Cfg { replace_attrs: Some((o, x.iter().map(|(e, m)| (*e, m.to_vec())).collect())), ..base.clone() });
            }
            for x in OPT_PROPS_ATTRS {
                v.push(Cfg { allow_attrs: Some((o, props_of(x))), ..base.clone() });
            }
            for x in OPT_SCHEMES {
                v.push(Cfg { allow_schemes: Some((o, schemes_of(x))), ..base.clone() });
            }
            for x in OPT_CLASSES {
                v.push(Cfg { allow_classes: Some((o, props_of(x))), ..base.clone() });
            }
        }
        for x in OPT_ELEMS {
            v.push(Cfg { remove_elems: Some(x.to_vec()), ..base.clone() });
            v.push(Cfg { ignore_elems: Some(x.to_vec()), ..base.clone() });
        }
        for x in OPT_PROPS_ATTRS {
            v.push(Cfg { remove_attrs: Some(props_of(x)), ..base.clone() });
        }
        for x in OPT_SCHEMES {
            v.push(Cfg { deny_schemes: Some(schemes_of(x)), ..base.clone() });
        }
        for x in OPT_CLASSES {
            v.push(Cfg { remove_classes: Some(props_of(x)), ..base.clone() });
        }
        for d in [0u32, 1, 2, 3, 99, 100, 101] {
            v.push(Cfg { max_depth: Some(d), ..base.clone() });
        }
    }
    v
}

/// Markup whose parse tree is not what the text suggests (foster parenting, adoption agency,
/// raw-text elements, foreign content, integration points, attribute breakouts, known
/// mutation-XSS shapes): what an HTML parser makes of the sanitized output is part of C14.
pub const PARSER_STRESS: &[&str] = &[
    "<svg></p><style><a id=\"</style><img src=1 onerror=alert(1)>\">",
    "<math><mtext><table><mglyph><style><!--</style><img title=\"--&gt;&lt;img src=1 onerror=alert(1)&gt;\">",
    "<form><math><mtext></form><form><mglyph><style></math><img src onerror=alert(1)>",
    "<noscript><p title=\"</noscript><img src=x onerror=alert(1)>\">",
    "<select><template><style><!--</style><a rel=\"--></style></template></select><img id=x src onerror=alert(1)>\">",
    "<svg><style><img src=x onerror=alert(1)></style></svg>",
    "<math><annotation-xml encoding=\"text/html\"><style><img src=x onerror=alert(1)></style></annotation-xml></math>",
    "<math><annotation-xml encoding=\"text/html\"><a href=\"javascript:alert(1)\">x</a><img src=\"http://evil\"></annotation-xml></math>",
    "<svg><foreignObject><a href=\"javascript:alert(1)\" data-x=\"1\">x</a></foreignObject></svg>",
    "<svg><desc><img alt=\"a\" src=\"http://evil\"><b>x</b></desc></svg>",
    "<table><td><a href=\"https://a\">x</td></table>",
    "<table><a href=https://a>foster</a><tr><td>x</table>",
    "<table><tr><td><svg><tr><td>x</td></tr></svg></td></tr></table>",
    "<svg><tr><td>x</td></tr><caption>c</caption><a href=\"https://a\">l</a></svg>",
    "<a href=\"https://a\"><div><a href=\"https://b\">y</a></div></a>",
    "<a href=\"https://a\"><svg><a href=\"https://b\">y</a></svg></a>",
    "<b><p>x</b>y</p>",
    "<p><b><i>x</p>y</i></b>",
    "<b><b><b><b><p>x</p></b></b></b></b>",
    "<xmp><img src=x onerror=alert(1)></xmp>",
    "<plaintext><b>x</b>",
    "<textarea><img src=x onerror=alert(1)></textarea>",
    "<title><img src=x onerror=alert(1)></title>",
    "<iframe><img src=x onerror=alert(1)></iframe>",
    "<noembed><img src=x onerror=alert(1)></noembed>",
    "<noframes><img src=x onerror=alert(1)></noframes>",
    "<script><img src=x onerror=alert(1)></script>",
    "<style><img src=x onerror=alert(1)></style>",
    "<style>&lt;img src=x&gt;</style><xmp>&lt;b&gt;</xmp>",
    "<img src=\"mxc://a/b\" alt=\"`><img src=x onerror=alert(1)>\">",
    "<a href=\"https://a\" title=\"&quot;><img src=x onerror=1>\">x</a>",
    "<a href=\"https://a&quot; onmouseover=&quot;alert(1)\">x</a>",
    "<details open ontoggle=alert(1)><summary>x</summary></details>",
    "<svg><a xlink:href=\"javascript:alert(1)\"><text>x</text></a></svg>",
    "<svg><a xlink:href=\"https://a\" xlink:title=\"t\" xml:lang=\"en\" target=\"_blank\">x</a></svg>",
    "<svg><use href=\"data:image/svg+xml,x\"/></svg>",
    "<math href=\"javascript:alert(1)\">x</math>",
    "<math><mi xlink:href=\"javascript:alert(1)\">x</mi></math>",
    "<img src=\"mxc://a/b\" srcset=\"http://evil 1x\">",
    "<a href=\"https://a\" ping=\"http://evil\">x</a>",
    "<span style=\"background:url(javascript:alert(1))\" data-mx-color=\"red\">x</span>",
    "<font color=\"red\" data-mx-color=\"blue\">x</font>",
    "<font color=\"red\" data-mx-color=\"red\">x</font>",
    "<font data-mx-color=\"a\" color=\"b\" data-mx-bg-color=\"c\" size=\"3\">x</font>",
    "<svg><font color=\"red\">x</font></svg>",
    "<svg><font>x<strike>y</strike></font></svg>",
    "<div data-mx-maths=\"x\"><svg><div>y</div></svg></div>",
    "<template><b>x</b><script>1</script></template>",
    "<table><template><tr><td>x</td></tr></template></table>",
    "<br></br><p></p></p>",
    "<li><ul><li><ol start=1 type=a><li>x",
    "<a href=\"https://a&#0;b\">x</a>",
    "<a href=\"&#x6a;avascript:alert(1)\">x</a>",
    "<a href=\"java&#x0A;script:alert(1)\" data-x=\"1\">x</a>",
    "<!--><img src=x onerror=1>-->",
    "<!--!><img src=x>",
    "<![CDATA[<img src=x>]]>",
    "<svg><![CDATA[<img src=x onerror=1>]]></svg>",
    "<h1><h2>x</h1>y</h2>",
    "<caption>c<table><caption>d</caption></table></caption>",
    "<code class=\"language-x\"><code class=\"y\">z</code></code>",
    "<pre>\n\nx</pre><textarea>\nx</textarea>",
    "<mx-reply><blockquote><a href=\"https://matrix.to/#/!r:s/$e\">In reply to</a> x</blockquote></mx-reply>y",
    "<mx-reply><mx-reply>x</mx-reply>y</mx-reply>z",
    "<x-foo><mx-reply>x</mx-reply>y</x-foo>",
    "<svg><mx-reply>x</mx-reply></svg>",
    "<span data-mx-spoiler>s</span><span data-mx-spoiler=\"r\" data-mx-maths=\"\\pi\">s</span>",
    "<ol start=\"-1\" reversed><li value=\"3\">x</ol>",
    "<img src=\"mxc://a/b\" width=\"1\" height=\"2\" alt=\"a\" title=\"t\" loading=\"lazy\">",
    "<p>a<br>b<hr>c<img src=\"mxc://a/b\">d</p>",
    "<frameset><frame src=x></frameset>",
    "<body onload=alert(1)><b>x</b></body>",
    "<html><head><title>t</title></head><body><p>x</p></body></html>",
    "</div><b>x</b>",
    "<svg><b>x</b></svg><math><i>y</i></math>",
    "<svg><p>x</p><a href=\"https://a\">l</a></svg>",
    "<math><mtext><a href=\"javascript:x\" target=\"_blank\">l</a></mtext></math>",
    "<select><option><b>x</b></option></select>",
    "<button><button>x</button></button>",
    "<nobr><nobr>x</nobr></nobr>",
    "<marquee><table><marquee>x",
    "<a><table><a>",
    "<i><table><tr><td><i>x",
    "<p><table><p>x",
];

/// Documents that exercise one element with every subset of its attribute pool.
pub fn systematic_docs() -> Vec<String> {
    let mut docs = vec![];
    // scheme spellings on a[href] / img[src], alone and next to every other pool attribute
    for u in URIS {
        let q = u.replace('"', "&quot;");
        docs.push(format!("<a href=\"{q}\">l</a>"));
        docs.push(format!("<img src=\"{q}\">"));
        docs.push(format!("<a data-x=\"1\" href=\"{q}\">l</a>"));
        docs.push(format!("<a href=\"{q}\" target=\"_blank\" zzz=\"1\">l</a>"));
        docs.push(format!("<img alt=\"a\" src=\"{q}\" title=\"t\">"));
        docs.push(format!("<svg><a xlink:href=\"{q}\" href=\"{q}\">l</a></svg>"));
    }
    for (el, pool) in ATTR_POOL {
        let pool = &pool[..pool.len().min(6)];
        for mask in 0u32..(1 << pool.len()) {
            let mut s = format!("<{el}");
            // descending order for odd masks: source order must not matter
            let idx: Vec<usize> =
                if mask % 2 == 1 { (0..pool.len()).rev().collect() } else { (0..pool.len()).collect() };
            for i in idx {
                if mask & (1 << i) != 0 {
                    let v = match pool[i] {
                        "href" | "xlink:href" => ["https://a", "javascript:alert(1)", "mxc://a/b"][(mask as usize / 3) % 3],
                        "src" => ["mxc://a/b", "http://evil", "https://a"][(mask as usize / 5) % 3],
                        "class" => ["language-x foo", "language-x", "foo", "a b"][(mask as usize / 7) % 4],
                        "color" => "red",
                        _ => "1",
                    };
                    s.push_str(&format!(" {}=\"{}\"", pool[i], v));
                }
            }
            s.push_str(&format!(">t</{el}>"));
            docs.push(s);
        }
    }
    for c in CLASSES {
        docs.push(format!("<code class=\"{c}\">x</code>"));
        docs.push(format!("<span class=\"{c}\">x</span>"));
    }
    for el in ALLOWED.iter().chain(DEPRECATED).chain(FORBIDDEN).chain(FOREIGN) {
        docs.push(format!("a<{el} id=\"1\">b<b>c</b><x-foo>d<i>e</i></x-foo></{el}>f"));
    }
    for d in PARSER_STRESS {
        docs.push((*d).to_owned());
    }
    for n in [0usize, 1, 2, 3, 4, 98, 99, 100, 101, 102, 150, 300] {
        docs.push(format!("{}x{}", "<div>".repeat(n), "</div>".repeat(n)));
        docs.push(format!("{}<b>x</b>{}", "<x-foo>".repeat(n), "</x-foo>".repeat(n)));
        docs.push(format!("{}<a href=\"https://a\">x</a>y{}", "<span><x-foo>".repeat(n / 2), "</x-foo></span>".repeat(n / 2)));
    }
    docs
}

pub fn run_streams(tier: &str, seed: u64, mut emit: impl FnMut(&str, &Cfg, &str)) {
    let thorough = tier == "thorough";
    let mut r = Rng::new(seed ^ 0xC14);
    let presets = presets();
    // systematic: every systematic document under every preset
    let docs = systematic_docs();
    for d in &docs {
        for c in &presets {
            emit("systematic-presets", c, d);
        }
    }
    // systematic: every single-option configuration on a rotating slice of the documents
    let singles = single_option_cfgs();
    let per = if thorough { 60 } else { 3 };
    for (i, c) in singles.iter().enumerate() {
        for k in 0..per {
            emit("systematic-single-option", c, &docs[(i * 131 + k * 17) % docs.len()]);
        }
    }
    // systematic: two `class` attributes on one element (through an attribute replacement), so that the
    // value rewriting of the class filter meets the set semantics of the attribute store
    for mode in [1u8, 2, 0] {
        for classes in [&[("span", &["a*", "b"][..])][..], &[("span", &["*"][..])][..], &[("span", &["a"][..]), ("code", &["language-*", "a"][..])][..]] {
            for variant in 0..4 {
                let mut c = Cfg {
                    mode,
                    replace_attrs: Some((false, vec![("span", vec![("style", "class")]), ("code", vec![("id", "class")])])),
                    allow_attrs: Some((false, vec![("span", vec!["class"])])),
                    ..Default::default()
                };
                match variant {
                    0 => c.allow_classes = Some((false, props_of(classes))),
                    1 => c.allow_classes = Some((true, props_of(classes))),
                    2 => c.remove_classes = Some(props_of(classes)),
                    _ => {
                        c.remove_classes = Some(props_of(classes));
                        c.allow_classes = Some((false, props_of(&[("span", &["*b*", "a"][..]), ("code", &["*"][..])])));
                    }
                }
                for x in ["a", "b", "a b", "ab a", "c", "", " a", "language-x a", "a a"] {
                    for y in ["a", "b", "b a", "c a", "language-y", "a  a"] {
                        emit("systematic-class-sets", &c, &format!("<span style=\"{x}\" class=\"{y}\">t</span><code id=\"{x}\" class=\"{y}\">u</code>"));
                    }
                }
            }
        }
    }
    // random structured documents
    let n = if thorough { 150_000 } else { 4_000 };
    for _ in 0..n {
        let d = gen_doc(&mut r, false);
        let c = if r.chance(1, 3) { r.pick(&presets).clone() } else { gen_cfg(&mut r) };
        emit("random", &c, &d);
    }
    // allow-list grammar (clean documents)
    let n = if thorough { 40_000 } else { 1_500 };
    for _ in 0..n {
        let d = gen_doc(&mut r, true);
        let c = if r.chance(2, 3) { r.pick(&presets).clone() } else { gen_cfg(&mut r) };
        emit("random-clean-grammar", &c, &d);
    }
    // nesting
    let n = if thorough { 4_000 } else { 150 };
    for _ in 0..n {
        let depth = *r.pick(&[5usize, 50, 98, 99, 100, 101, 102, 120, 200, 300]);
        let d = gen_nested(&mut r, depth);
        let c = if r.chance(1, 2) { r.pick(&presets).clone() } else { gen_cfg(&mut r) };
        emit("nesting", &c, &d);
    }
    // parser stress: pairs of the parser-stress documents, side by side and nested
    let n = if thorough { 30_000 } else { 800 };
    for _ in 0..n {
        let (a, b) = (*r.pick(PARSER_STRESS), *r.pick(PARSER_STRESS));
        let d = match r.below(4) {
            0 => format!("{a}{b}"),
            1 => format!("<div>{a}</div>{b}"),
            2 => format!("<x-foo>{a}{b}"),
            _ => format!("<table><tr><td>{a}</td></tr></table><svg>{b}"),
        };
        let c = if r.chance(3, 4) { r.pick(&presets).clone() } else { gen_cfg(&mut r) };
        emit("parser-stress", &c, &d);
    }
    // malformed: character-level mutants of generated and parser-stress documents
    let n = if thorough { 40_000 } else { 1_500 };
    for _ in 0..n {
        let base = if r.chance(1, 3) { (*r.pick(PARSER_STRESS)).to_owned() } else { gen_doc(&mut r, false) };
        let mut d: Vec<char> = base.chars().collect();
        for _ in 0..1 + r.below(3) {
            if d.is_empty() {
                break;
            }
            let i = r.below(d.len());
            match r.below(4) {
                0 => {
                    d.remove(i);
                }
                1 => d.insert(i, *r.pick(&['<', '>', '"', '\'', '/', '=', '&', ' ', '\u{0}', '!', '-'])),
                2 => {
                    let j = r.below(d.len());
                    d.swap(i, j);
                }
                _ => d.truncate(i),
            }
        }
        let d: String = d.into_iter().collect();
        let c = if r.chance(1, 2) { r.pick(&presets).clone() } else { gen_cfg(&mut r) };
        emit("malformed", &c, &d);
    }
}

/// Stream tag plus whether the sanitizer changed the parsed tree (evidence distribution).
pub fn tag_of(tag: &str, case: &Sx, out: &Sx) -> String {
    let input = case.as_list().and_then(|l| l.get(2));
    let cleaned = out.as_list().and_then(|l| l.get(1)).and_then(|x| x.as_list()).and_then(|l| l.first());
    format!("{tag}:{}", if input == cleaned { "unchanged" } else { "changed" })
}

pub fn run(tier: &str, seed: u64, em: &mut Emitter) {
    run_streams(tier, seed, |tag, c, d| {
        let c = c.clone().normalise();
        let (case, out) = (case_sx(&c, d), run_case(&c, d));
        em.emit(&tag_of(tag, &case, &out), case, out);
    });
}
