//! C13 — push ruleset edits: operation sequences on the real `Ruleset`.
//!
//! case = ( start ( op ... ) )          start 0: `Ruleset::new()`, 1: `Ruleset::server_default(@u:x.y)`
//!   op = ( N0 kind id actions payload after? before? )   Ruleset::insert
//!      | ( N1 rkind id )                                 Ruleset::remove
//!      | ( N2 rkind id enabled )                         Ruleset::set_enabled
//!      | ( N3 rkind id actions )                         Ruleset::set_actions
//!      | ( N4 )                                          full observation through Ruleset::iter
//!      | ( N5 rkind id )                                 Ruleset::get
//!   kind: 0 override 1 content 2 room 3 sender 4 underride (the order of `Ruleset::iter`); rkind
//!   additionally 5 = a custom `RuleKind`.  `actions` is the JSON text of the `Vec<Action>`;
//!   `payload` is the JSON text of the conditions (override/underride), the pattern (content) or
//!   empty (room/sender).
//!
//! outcome = ( N2 )                       some operation panicked
//!         | ( N0 steps ) | ( N1 code steps )   by the result of the last operation
//!   step  = ( res delta obs )
//!   res   = ( N0 ) | ( N1 code )
//!   delta = for every kind whose rule list differs from the one before the operation (for op 4:
//!           every kind): ( kind ( id ... ) ( rec ... ) ) — all ids in order, and the records that
//!           were not present (identically) before;  rec = ( id default enabled actions payload )
//!   obs   = result of `get` ( () or ( rec ) ), empty otherwise.
//! Error codes: 1 ServerDefaultRuleId 2 InvalidRuleId 3 RelativeToServerDefaultRule 4 UnknownRuleId
//! 5 BeforeHigherThanAfter | 6 remove:ServerDefault 7 remove:NotFound | 8 RuleNotFoundError.
use std::panic::AssertUnwindSafe;

use ruma_common::{
    push::{
        Action, AnyPushRuleRef, InsertPushRuleError, NewConditionalPushRule, NewPatternedPushRule, NewPushRule,
        NewSimplePushRule, PushCondition, RemovePushRuleError, RuleKind, Ruleset,
    },
    OwnedRoomId, OwnedUserId, UserId,
};

use crate::{rng::Rng, sx::Sx, Emitter};

const USER: &str = "@u:x.y";

#[derive(Clone, PartialEq, Eq, Debug)]
struct Rec {
    id: String,
    default: bool,
    enabled: bool,
    actions: String,
    payload: String,
}

impl Rec {
    fn sx(&self) -> Sx {
        Sx::L(vec![Sx::s(&self.id), Sx::b(self.default), Sx::b(self.enabled), Sx::s(&self.actions), Sx::s(&self.payload)])
    }
}

fn rec_of(r: AnyPushRuleRef<'_>) -> (usize, Rec) {
    let (k, payload) = match r {
        AnyPushRuleRef::Override(c) => (0, serde_json::to_string(&c.conditions).unwrap()),
        AnyPushRuleRef::Content(p) => (1, p.pattern.clone()),
        AnyPushRuleRef::Room(_) => (2, String::new()),
        AnyPushRuleRef::Sender(_) => (3, String::new()),
        AnyPushRuleRef::Underride(c) => (4, serde_json::to_string(&c.conditions).unwrap()),
        _ => unreachable!(),
    };
    (
        k,
        Rec {
            id: r.rule_id().to_owned(),
            default: r.is_server_default(),
            enabled: r.enabled(),
            actions: serde_json::to_string(r.actions()).unwrap(),
            payload,
        },
    )
}

type State = [Vec<Rec>; 5];

/// The state as observable through `Ruleset::iter` (which yields the kinds in a fixed order).
fn observe(rs: &Ruleset) -> State {
    let mut st: State = Default::default();
    for r in rs.iter() {
        let (k, rec) = rec_of(r);
        st[k].push(rec);
    }
    st
}

fn kind_sx(k: usize, new: &[Rec], old: Option<&[Rec]>) -> Sx {
    let ids = new.iter().map(|r| Sx::s(&r.id)).collect();
    let recs = new.iter().filter(|r| old.map_or(true, |o| !o.contains(r))).map(Rec::sx).collect();
    Sx::L(vec![Sx::n(k as u32), Sx::L(ids), Sx::L(recs)])
}

fn rule_kind(k: i128) -> Option<RuleKind> {
    Some(match k {
        0 => RuleKind::Override,
        1 => RuleKind::Content,
        2 => RuleKind::Room,
        3 => RuleKind::Sender,
        4 => RuleKind::Underride,
        5 => RuleKind::from("org.example.custom"),
        _ => return None,
    })
}

#[derive(Clone, Debug)]
enum Op {
    Insert { kind: usize, id: String, actions: String, payload: String, after: Option<String>, before: Option<String> },
    Remove { kind: usize, id: String },
    SetEnabled { kind: usize, id: String, enabled: bool },
    SetActions { kind: usize, id: String, actions: String },
    Dump,
    Get { kind: usize, id: String },
}

impl Op {
    fn sx(&self) -> Sx {
        let o = |x: &Option<String>| Sx::opt(x.as_deref().map(Sx::s));
        match self {
            Op::Insert { kind, id, actions, payload, after, before } => {
                Sx::L(vec![Sx::N(0), Sx::n(*kind as u32), Sx::s(id), Sx::s(actions), Sx::s(payload), o(after), o(before)])
            }
            Op::Remove { kind, id } => Sx::L(vec![Sx::N(1), Sx::n(*kind as u32), Sx::s(id)]),
            Op::SetEnabled { kind, id, enabled } => Sx::L(vec![Sx::N(2), Sx::n(*kind as u32), Sx::s(id), Sx::b(*enabled)]),
            Op::SetActions { kind, id, actions } => Sx::L(vec![Sx::N(3), Sx::n(*kind as u32), Sx::s(id), Sx::s(actions)]),
            Op::Dump => Sx::L(vec![Sx::N(4)]),
            Op::Get { kind, id } => Sx::L(vec![Sx::N(5), Sx::n(*kind as u32), Sx::s(id)]),
        }
    }

    fn parse(x: &Sx) -> Option<Op> {
        let l = x.as_list()?;
        let s = |i: usize| l.get(i).and_then(Sx::as_string);
        let k = |max: i128| l.get(1).and_then(Sx::as_int).filter(|k| (0..=max).contains(k)).map(|k| k as usize);
        let o = |i: usize| -> Option<Option<String>> {
            match l.get(i)?.as_opt()? {
                None => Some(None),
                Some(v) => Some(Some(v.as_string()?)),
            }
        };
        Some(match (l.first()?.as_int()?, l.len()) {
            (0, 7) => Op::Insert { kind: k(4)?, id: s(2)?, actions: s(3)?, payload: s(4)?, after: o(5)?, before: o(6)? },
            (1, 3) => Op::Remove { kind: k(5)?, id: s(2)? },
            (2, 4) => Op::SetEnabled { kind: k(5)?, id: s(2)?, enabled: l[3].as_int()? != 0 },
            (3, 4) => Op::SetActions { kind: k(5)?, id: s(2)?, actions: s(3)? },
            (4, 1) => Op::Dump,
            (5, 3) => Op::Get { kind: k(5)?, id: s(2)? },
            _ => return None,
        })
    }
}

/// Canonical JSON text of an action list (what the observation prints).
fn canon_actions(text: &str) -> Option<(Vec<Action>, String)> {
    let a: Vec<Action> = serde_json::from_str(text).ok()?;
    let back = serde_json::to_string(&a).ok()?;
    (back == text).then_some((a, back))
}

fn canon_conditions(text: &str) -> Option<Vec<PushCondition>> {
    let c: Vec<PushCondition> = serde_json::from_str(text).ok()?;
    (serde_json::to_string(&c).ok()? == text).then_some(c)
}

/// Build the `NewPushRule`; `None` when the case cannot be expressed with ruma's types (a room
/// rule whose id is not a room id, ...): such cases are not generated.
fn new_rule(kind: usize, id: &str, actions: &str, payload: &str) -> Option<NewPushRule> {
    let (actions, _) = canon_actions(actions)?;
    Some(match kind {
        0 => NewPushRule::Override(NewConditionalPushRule::new(id.to_owned(), canon_conditions(payload)?, actions)),
        4 => NewPushRule::Underride(NewConditionalPushRule::new(id.to_owned(), canon_conditions(payload)?, actions)),
        1 => NewPushRule::Content(NewPatternedPushRule::new(id.to_owned(), payload.to_owned(), actions)),
        2 if payload.is_empty() => NewPushRule::Room(NewSimplePushRule::new(OwnedRoomId::try_from(id).ok()?, actions)),
        3 if payload.is_empty() => NewPushRule::Sender(NewSimplePushRule::new(OwnedUserId::try_from(id).ok()?, actions)),
        _ => return None,
    })
}

fn expressible(op: &Op) -> bool {
    match op {
        Op::Insert { kind, id, actions, payload, .. } => new_rule(*kind, id, actions, payload).is_some(),
        Op::SetActions { actions, .. } => canon_actions(actions).is_some(),
        _ => true,
    }
}

fn insert_code(e: &InsertPushRuleError) -> i128 {
    match e {
        InsertPushRuleError::ServerDefaultRuleId => 1,
        InsertPushRuleError::InvalidRuleId => 2,
        InsertPushRuleError::RelativeToServerDefaultRule => 3,
        InsertPushRuleError::UnknownRuleId => 4,
        InsertPushRuleError::BeforeHigherThanAfter => 5,
        _ => 99,
    }
}

/// Apply one operation to the real ruleset. `Err(())` = panic.
fn apply(rs: &mut Ruleset, op: &Op) -> Result<(Result<(), i128>, Vec<Sx>), ()> {
    let r = std::panic::catch_unwind(AssertUnwindSafe(|| -> (Result<(), i128>, Vec<Sx>) {
        match op {
            Op::Insert { kind, id, actions, payload, after, before } => {
                let rule = new_rule(*kind, id, actions, payload).expect("expressible");
                (rs.insert(rule, after.as_deref(), before.as_deref()).map_err(|e| insert_code(&e)), vec![])
            }
            Op::Remove { kind, id } => (
                rs.remove(rule_kind(*kind as i128).unwrap(), id).map_err(|e| match e {
                    RemovePushRuleError::ServerDefault => 6,
                    RemovePushRuleError::NotFound => 7,
                    _ => 99,
                }),
                vec![],
            ),
            Op::SetEnabled { kind, id, enabled } => {
                (rs.set_enabled(rule_kind(*kind as i128).unwrap(), id, *enabled).map_err(|_| 8), vec![])
            }
            Op::SetActions { kind, id, actions } => {
                let (a, _) = canon_actions(actions).expect("expressible");
                (rs.set_actions(rule_kind(*kind as i128).unwrap(), id, a).map_err(|_| 8), vec![])
            }
            Op::Dump => (Ok(()), vec![]),
            Op::Get { kind, id } => {
                let got = rs.get(rule_kind(*kind as i128).unwrap(), id).map(|r| rec_of(r).1.sx());
                (Ok(()), vec![Sx::opt(got)])
            }
        }
    }));
    r.map_err(|_| ())
}

fn start_state(start: i128) -> Option<Ruleset> {
    match start {
        0 => Some(Ruleset::new()),
        1 => Some(Ruleset::server_default(<&UserId>::try_from(USER).unwrap())),
        _ => None,
    }
}

fn run_ops(start: i128, ops: &[Op]) -> Option<Sx> {
    let mut rs = start_state(start)?;
    let mut prev = observe(&rs);
    let mut steps = vec![];
    let mut last: Result<(), i128> = Ok(());
    for op in ops {
        if !expressible(op) {
            return None;
        }
        let Ok((res, obs)) = apply(&mut rs, op) else { return Some(Sx::panic()) };
        let now = observe(&rs);
        let full = matches!(op, Op::Dump);
        let delta = (0..5)
            .filter(|&k| full || now[k] != prev[k])
            .map(|k| kind_sx(k, &now[k], if full { None } else { Some(&prev[k]) }))
            .collect();
        let res_sx = match res {
            Ok(()) => Sx::L(vec![Sx::N(0)]),
            Err(c) => Sx::L(vec![Sx::N(1), Sx::N(c)]),
        };
        steps.push(Sx::L(vec![res_sx, Sx::L(delta), Sx::L(obs)]));
        if !matches!(op, Op::Dump | Op::Get { .. }) {
            last = res;
        }
        prev = now;
    }
    Some(match last {
        Ok(()) => Sx::L(vec![Sx::N(0), Sx::L(steps)]),
        Err(c) => Sx::L(vec![Sx::N(1), Sx::N(c), Sx::L(steps)]),
    })
}

fn case_sx(start: i128, ops: &[Op]) -> Sx {
    Sx::L(vec![Sx::N(start), Sx::L(ops.iter().map(Op::sx).collect())])
}

pub fn replay(case: &Sx) -> Option<Sx> {
    let l = case.as_list()?;
    if l.len() != 2 {
        return None;
    }
    let start = l[0].as_int()?;
    let ops = l[1].as_list()?.iter().map(Op::parse).collect::<Option<Vec<_>>>()?;
    run_ops(start, &ops)
}

fn emit(em: &mut Emitter, tag: &str, start: i128, ops: &[Op]) {
    if let Some(out) = run_ops(start, ops) {
        em.emit(tag, case_sx(start, ops), out);
    }
}

// ---------------------------------------------------------------------------------------------
// Alphabets
// ---------------------------------------------------------------------------------------------
const ACTIONS: &[&str] = &[
    "[]",
    "[\"notify\"]",
    "[\"notify\",{\"set_tweak\":\"highlight\"}]",
    "[\"notify\",{\"set_tweak\":\"sound\",\"value\":\"default\"}]",
];

fn payloads(kind: usize) -> &'static [&'static str] {
    match kind {
        0 | 4 => &["[]", "[{\"kind\":\"event_match\",\"key\":\"type\",\"pattern\":\"m.room.message\"}]"],
        1 => &["p", "q*", ""],
        _ => &[""],
    }
}

/// The rule id spelled for a kind (`a` -> `a`, `!a:x`, `@a:x`).
fn id_for(kind: usize, name: &str) -> String {
    match kind {
        2 => format!("!{name}:x"),
        3 => format!("@{name}:x"),
        _ => name.to_owned(),
    }
}

/// A server-default rule id that exists in the default ruleset for that kind (or a dotted id).
fn dot_id(kind: usize) -> &'static str {
    match kind {
        0 => ".m.rule.master",
        1 => ".m.rule.contains_user_name",
        4 => ".m.rule.message",
        _ => ".m.rule.none",
    }
}

fn ins(kind: usize, id: &str, a: usize, p: usize, after: Option<&str>, before: Option<&str>) -> Op {
    let ps = payloads(kind);
    Op::Insert {
        kind,
        id: id.to_owned(),
        actions: ACTIONS[a % ACTIONS.len()].to_owned(),
        payload: ps[p % ps.len()].to_owned(),
        after: after.map(str::to_owned),
        before: before.map(str::to_owned),
    }
}

/// Operation alphabet on one kind over the given names.
fn alphabet(kind: usize, names: &[&str], rich: bool) -> Vec<Op> {
    let mut ops = vec![];
    let ids: Vec<String> = names.iter().map(|n| id_for(kind, n)).collect();
    let unknown = id_for(kind, "zz");
    // anchors: every pair over {none, ids}; the unknown and the server-default anchor alone, next
    // to the first id on either side, and together
    let mut good: Vec<Option<String>> = vec![None];
    good.extend(ids.iter().cloned().map(Some));
    let mut pairs: Vec<(Option<String>, Option<String>)> = vec![];
    for a in &good {
        for b in &good {
            pairs.push((a.clone(), b.clone()));
        }
    }
    let dot = Some(dot_id(kind).to_owned());
    for odd in [Some(unknown.clone()), dot.clone()] {
        for other in [None, Some(ids[0].clone())] {
            pairs.push((odd.clone(), other.clone()));
            pairs.push((other, odd.clone()));
        }
    }
    pairs.push((Some(unknown.clone()), dot));
    let mut subjects = ids.clone();
    if rich {
        subjects.push(id_for(kind, "n"));
    }
    for id in &subjects {
        for (a, b) in &pairs {
            ops.push(ins(kind, id, 1, 1, a.as_deref(), b.as_deref()));
        }
    }
    // ids insert must refuse (only expressible for string-keyed kinds)
    for bad in [dot_id(kind).to_owned(), ".x".to_owned(), id_for(kind, "a/b"), id_for(kind, "a\\b")] {
        ops.push(ins(kind, &bad, 2, 0, None, None));
        ops.push(ins(kind, &bad, 2, 0, Some(&ids[0]), None));
        if rich {
            ops.push(ins(kind, &bad, 2, 0, Some(dot_id(kind)), Some(&unknown)));
        }
    }
    for id in ids.iter().chain([&unknown, &dot_id(kind).to_owned()]) {
        ops.push(Op::Remove { kind, id: id.clone() });
        ops.push(Op::SetEnabled { kind, id: id.clone(), enabled: false });
        ops.push(Op::SetActions { kind, id: id.clone(), actions: ACTIONS[3].to_owned() });
        if rich {
            ops.push(Op::Get { kind, id: id.clone() });
        }
    }
    ops.push(Op::SetEnabled { kind, id: ids[0].clone(), enabled: true });
    if rich {
        ops.push(Op::Remove { kind: 5, id: ids[0].clone() });
        ops.push(Op::SetEnabled { kind: 5, id: ids[0].clone(), enabled: true });
        ops.push(Op::SetActions { kind: 5, id: ids[0].clone(), actions: ACTIONS[0].to_owned() });
        ops.push(Op::Get { kind: 5, id: ids[0].clone() });
    }
    ops.retain(expressible);
    ops
}

/// All duplicate-free arrangements of subsets of `names`.
fn arrangements(names: &[&str]) -> Vec<Vec<String>> {
    fn go(names: &[&str], cur: &mut Vec<String>, out: &mut Vec<Vec<String>>) {
        out.push(cur.clone());
        for n in names {
            if !cur.iter().any(|c| c == n) {
                cur.push((*n).to_owned());
                go(names, cur, out);
                cur.pop();
            }
        }
    }
    let mut out = vec![];
    go(names, &mut vec![], &mut out);
    out
}

/// Operations that build the arrangement (in that order) in `kind`, the first rule disabled.
fn setup(kind: usize, arr: &[String]) -> Vec<Op> {
    let mut ops = vec![];
    for (i, n) in arr.iter().enumerate() {
        let id = id_for(kind, n);
        let prev = (i > 0).then(|| id_for(kind, &arr[i - 1]));
        ops.push(ins(kind, &id, 0, 0, prev.as_deref(), None));
    }
    if let Some(n) = arr.first() {
        ops.push(Op::SetEnabled { kind, id: id_for(kind, n), enabled: false });
    }
    ops
}

fn random_op(r: &mut Rng, names: &[&str]) -> Op {
    let kind = *r.pick(&[0usize, 0, 0, 1, 1, 2, 3, 4, 4]);
    let name = |r: &mut Rng| id_for(kind, *r.pick(names));
    let anchor = |r: &mut Rng| -> Option<String> {
        match r.below(10) {
            0..=3 => None,
            4..=7 => Some(id_for(kind, *r.pick(names))),
            8 => Some(id_for(kind, "zz")),
            _ => Some(dot_id(kind).to_owned()),
        }
    };
    match r.below(20) {
        0..=10 => {
            let id = if r.chance(1, 25) { dot_id(kind).to_owned() } else { name(r) };
            let (a, b) = (anchor(r), anchor(r));
            ins(kind, &id, r.below(4), r.below(3), a.as_deref(), b.as_deref())
        }
        11..=13 => Op::Remove { kind: if r.chance(1, 30) { 5 } else { kind }, id: if r.chance(1, 8) { dot_id(kind).to_owned() } else { name(r) } },
        14..=16 => Op::SetEnabled { kind, id: if r.chance(1, 4) { dot_id(kind).to_owned() } else { name(r) }, enabled: r.chance(1, 2) },
        17 | 18 => Op::SetActions { kind, id: if r.chance(1, 4) { dot_id(kind).to_owned() } else { name(r) }, actions: ACTIONS[r.below(4)].to_owned() },
        _ => Op::Get { kind, id: name(r) },
    }
}

const ODD_IDS: &[&str] = &[
    "", ".", "..", "a.", "/", "\\", "a/", "\\a", "\u{e9}", ".\u{e9}", "\u{1F600}/", " .a", "a b", "\u{0}", "A", "a\u{0301}",
    "!r:x", "!r/r:x", "!.r:x", "@s:x", "@s/s:x", "@.s:x", "@s\\s:x", "!r\\r:x",
];

pub fn run(tier: &str, seed: u64, em: &mut Emitter) {
    let thorough = tier == "thorough";
    // The start states themselves (ties coq/Gen/C13Defaults.v to `Ruleset::server_default`).
    for start in 0..2 {
        emit(em, "systematic-start", start, &[Op::Dump]);
    }

    // Systematic 0: every rule of the server-default ruleset, by kind, against every edit: it can be
    // neither removed nor re-inserted nor used as an anchor, whatever was done to it before (seed4 C13-2)
    {
        let rs = Ruleset::server_default(<&UserId>::try_from(USER).unwrap());
        let mut defaults: Vec<(usize, String)> = vec![];
        for r in rs.iter() {
            use ruma_common::push::AnyPushRuleRef as A;
            let kind = match r {
                A::Override(_) => 0,
                A::Content(_) => 1,
                A::Room(_) => 2,
                A::Sender(_) => 3,
                A::Underride(_) => 4,
                #[allow(unreachable_patterns)]
                _ => continue,
            };
            defaults.push((kind, r.rule_id().to_owned()));
        }
        for (kind, id) in &defaults {
            let (kind, id) = (*kind, id.clone());
            let rm = Op::Remove { kind, id: id.clone() };
            let user = id_for(kind, "a");
            emit(em, "systematic-defaults", 1, &[rm.clone(), Op::Dump]);
            emit(em, "systematic-defaults", 1, &[Op::SetEnabled { kind, id: id.clone(), enabled: false }, rm.clone(), Op::Dump]);
            emit(em, "systematic-defaults", 1, &[Op::SetActions { kind, id: id.clone(), actions: ACTIONS[1].to_owned() }, rm.clone(), Op::Dump]);
            emit(em, "systematic-defaults", 1, &[ins(kind, &id, 1, 1, None, None), Op::Dump]);
            emit(em, "systematic-defaults", 1, &[ins(kind, &user, 1, 1, Some(&id), None), Op::Dump]);
            emit(em, "systematic-defaults", 1, &[ins(kind, &user, 1, 1, None, Some(&id)), Op::Dump]);
            emit(em, "systematic-defaults", 1, &[rm.clone(), ins(kind, &id, 1, 1, None, None), Op::Dump]);
        }
    }

    // Systematic 1: every arrangement of a small set of rules in a kind, then every single operation.
    let names: &[&str] = if thorough { &["a", "b", "c", "d"] } else { &["a", "b", "c"] };
    for start in 0..2i128 {
        for kind in 0..5usize {
            if start == 1 && (kind == 2 || kind == 3) {
                continue; // no server-default room/sender rules: same as start 0
            }
            let alpha = alphabet(kind, names, true);
            for arr in arrangements(names) {
                let pre = setup(kind, &arr);
                for op in &alpha {
                    let mut ops = pre.clone();
                    ops.push(op.clone());
                    emit(em, "systematic-state", start, &ops);
                }
            }
        }
    }

    // Systematic 1b: every order of four rules, then every (re-)insertion with anchors among them:
    // the moved rule in every relative position to one or two anchors.
    let four = ["a", "b", "c", "d"];
    for (start, kind) in [(0i128, 0usize), (1, 0), (0, 1)] {
        let ids: Vec<String> = four.iter().map(|n| id_for(kind, n)).collect();
        let mut anchors: Vec<Option<&str>> = vec![None];
        anchors.extend(ids.iter().map(|i| Some(i.as_str())));
        let new_id = id_for(kind, "n");
        for arr in arrangements(&four).into_iter().filter(|a| a.len() == 4) {
            let pre = setup(kind, &arr);
            for subject in ids.iter().chain([&new_id]) {
                for a in &anchors {
                    for b in &anchors {
                        let mut ops = pre.clone();
                        ops.push(ins(kind, subject, 1, 1, *a, *b));
                        emit(em, "systematic-perm", start, &ops);
                    }
                }
            }
        }
    }

    // Systematic 2: all operation sequences up to a length over a smaller alphabet.
    let len = if thorough { 3 } else { 2 };
    for start in 0..2i128 {
        for kind in [0usize, 1] {
            let alpha = alphabet(kind, &["a", "b"], false);
            let mut idx = vec![0usize; len];
            'outer: loop {
                // all sequences of exactly `len` operations; shorter ones are their prefixes
                let ops: Vec<Op> = idx.iter().map(|&i| alpha[i].clone()).collect();
                emit(em, "systematic-seq", start, &ops);
                for d in (0..len).rev() {
                    idx[d] += 1;
                    if idx[d] < alpha.len() {
                        continue 'outer;
                    }
                    idx[d] = 0;
                }
                break;
            }
        }
    }

    // Random structured: long mixed sequences over all kinds, ending in a full observation.
    let mut r = Rng::new(seed ^ 0xC13);
    let n_random = if thorough { 20_000 } else { 800 };
    for _ in 0..n_random {
        let start = r.below(2) as i128;
        let n = 3 + r.below(38);
        let names: &[&str] = if r.chance(1, 2) { &["a", "b", "c"] } else { &["a", "b", "c", "d", "e", "f"] };
        let mut ops = vec![];
        while ops.len() < n {
            let op = random_op(&mut r, names);
            if expressible(&op) {
                ops.push(op);
            }
        }
        ops.push(Op::Dump);
        emit(em, "random", start, &ops);
    }

    // Malformed: odd rule ids and anchors.
    let mut r = Rng::new(seed ^ 0xC13_BAD);
    let n_bad = if thorough { 20_000 } else { 2_000 };
    let mut done = 0;
    while done < n_bad {
        let start = r.below(2) as i128;
        let kind = r.below(5);
        let odd = |r: &mut Rng| (*r.pick(ODD_IDS)).to_owned();
        let mut ops = setup(kind, &["a".to_owned(), "b".to_owned()][..r.below(3)]);
        for _ in 0..1 + r.below(3) {
            let a = if r.chance(1, 2) { Some(odd(&mut r)) } else if r.chance(1, 2) { Some(id_for(kind, "a")) } else { None };
            let b = if r.chance(1, 3) { Some(odd(&mut r)) } else { None };
            let op = match r.below(6) {
                0..=2 => ins(kind, &odd(&mut r), r.below(4), r.below(3), a.as_deref(), b.as_deref()),
                3 => Op::Remove { kind: r.below(6), id: odd(&mut r) },
                4 => Op::SetEnabled { kind: r.below(6), id: odd(&mut r), enabled: r.chance(1, 2) },
                _ => Op::Get { kind: r.below(6), id: odd(&mut r) },
            };
            if expressible(&op) {
                ops.push(op);
            }
        }
        ops.push(Op::Dump);
        emit(em, "malformed", start, &ops);
        done += 1;
    }
}

/// The server-default ruleset as the code builds it, for tools/translators/c13.py.
pub fn dump(dir: &str) {
    let rs = start_state(1).unwrap();
    let st = observe(&rs);
    let hex = |s: &str| s.bytes().map(|b| format!("{b:02x}")).collect::<String>();
    let mut out = String::new();
    for (k, l) in st.iter().enumerate() {
        for r in l {
            out.push_str(&format!(
                "{k} {} {} {} {} {}\n",
                hex(&r.id),
                r.default as u8,
                r.enabled as u8,
                hex(&r.actions),
                if r.payload.is_empty() { "-".to_owned() } else { hex(&r.payload) }
            ));
        }
    }
    std::fs::write(format!("{dir}/c13_defaults.txt"), out).unwrap();
}
