//! C17 — entry points for untrusted wire data never panic, abort or hang: a supervised mutation
//! fuzzer over the real ruma code.
//!
//! case    = ( N<entry> S<part> ... )      the entry table is in c17_seeds.rs
//! outcome = ( N0 payload )  the call returned a value        ( N1 Ncode )  it returned an error
//!           ( N2 )  panic      ( N3 )  no answer within the watchdog time (hang)
//!           ( N4 )  the worker process died (abort, stack overflow, out of memory)
//!           ( N5 )  an input was rejected but had an effect: the caller's ruleset / object was
//!                   changed although an error was returned, or the entry's fixed valid probe no
//!                   longer gives its first result afterwards
//!
//! Every case is executed in a long-lived WORKER PROCESS (this binary, started with
//! VHARNESS_C17_CHILD=1), on a thread with a bounded stack (2 MiB, the default of a spawned Rust
//! thread, e.g. a tokio worker), cases arriving one per line on stdin and outcomes leaving on
//! stdout.  The supervisor (this process) generates the cases, waits at most WATCHDOG_SECS for
//! each outcome, and turns a silent or dead worker into an outcome instead of crashing the
//! check; a new worker is started for the next case.  All cases between two such events run in
//! ONE process, so state leaking from a rejected input into a later call is observable.
use std::{
    collections::BTreeMap,
    io::{BufRead, BufReader, Write},
    panic::AssertUnwindSafe,
    process::{Child, ChildStdin, Command, Stdio},
    sync::{mpsc, Mutex},
    time::Duration,
};

use ruma_common::{
    api::{IncomingRequest, IncomingResponse},
    http_headers::{ContentDisposition, ContentDispositionParseError, ContentDispositionType, TokenString},
    power_levels::NotificationPowerLevels,
    push::{
        Action, FlattenedJson, NewPushRule, PushCondition, PushConditionPowerLevelsCtx, PushConditionRoomCtx, RuleKind,
        Ruleset,
    },
    serde::{
        base64::{Standard, UrlSafe},
        Base64, Raw,
    },
    Base64PublicKey, CanonicalJsonObject, CanonicalJsonValue, ClientSecret, CrossSigningKeyId, DeviceKeyId, EventId,
    MatrixToUri, MatrixUri, MxcUri, OneTimeKeyId, OwnedRoomId, OwnedUserId, RoomAliasId, RoomId, RoomOrAliasId,
    RoomVersionId, ServerName, ServerSigningKeyId, ServerSigningKeyVersion, SessionId, UserId, VoipVersionId,
};
use ruma_events::{
    AnyEphemeralRoomEvent, AnyEphemeralRoomEventContent, AnyGlobalAccountDataEvent, AnyGlobalAccountDataEventContent,
    AnyInitialStateEvent, AnyMessageLikeEvent, AnyMessageLikeEventContent, AnyRoomAccountDataEvent,
    AnyRoomAccountDataEventContent, AnyStateEvent, AnyStateEventContent, AnyStrippedStateEvent, AnySyncEphemeralRoomEvent,
    AnySyncMessageLikeEvent, AnySyncStateEvent, AnySyncTimelineEvent, AnyTimelineEvent, AnyToDeviceEvent,
    AnyToDeviceEventContent, EventContentFromType,
};
use ruma_federation_api::authentication::XMatrix;
use ruma_html::{Html, HtmlSanitizerMode, RemoveReplyFallback};
use ruma_signatures::{
    content_hash, hash_and_sign_event, reference_hash, sign_json, verify_event, verify_json, Ed25519KeyPair, KeyPair,
    PublicKeyMap,
};

use crate::{
    rng::Rng,
    sx::{self, Sx},
    Emitter,
};

include!("c16_endpoints.rs");
include!("c17_entries.rs");
include!("c17_seeds.rs");

const WATCHDOG_SECS: u64 = 10;
const DEFAULT_STACK: usize = 2 * 1024 * 1024;

// ---------------------------------------------------------------------------------------------
// worker process
// ---------------------------------------------------------------------------------------------
fn decode(case: &Sx) -> Option<(i128, Vec<Vec<u8>>)> {
    let l = case.as_list()?;
    let id = l.first()?.as_int()?;
    let parts = l[1..].iter().map(|p| p.as_bytes().map(<[u8]>::to_vec)).collect::<Option<Vec<_>>>()?;
    Some((id, parts))
}

fn call(e: &Entry, parts: &[Vec<u8>]) -> Option<Ret> {
    std::panic::catch_unwind(AssertUnwindSafe(|| (e.f)(parts))).ok()
}

/// Run one case in this process.  `probes`: first result of each entry's fixed valid probe.
fn run_here(table: &[Entry], probes: &BTreeMap<i128, String>, case: &Sx) -> Sx {
    let Some((id, parts)) = decode(case) else { return Sx::L(vec![Sx::N(-1)]) };
    let Some(e) = table.iter().find(|e| e.id == id) else { return Sx::L(vec![Sx::N(-1)]) };
    let Some(r) = call(e, &parts) else { return Sx::panic() };
    match r.kind {
        0 => Sx::ok(r.payload.unwrap_or(Sx::L(vec![]))),
        5 => Sx::L(vec![Sx::N(5)]),
        _ => {
            // a rejected input must have no effect on later calls: the fixed probe still answers
            // what it answered first in this process
            if let Some(first) = probes.get(&id) {
                let probe = &(e.seeds)()[0];
                match call(e, probe) {
                    Some(again) if again.repr == *first => {}
                    _ => return Sx::L(vec![Sx::N(5)]),
                }
            }
            Sx::err(r.code)
        }
    }
}

fn first_probe_results(table: &[Entry]) -> BTreeMap<i128, String> {
    let mut m = BTreeMap::new();
    for e in table {
        let probe = &(e.seeds)()[0];
        if let Some(r) = call(e, probe) {
            m.insert(e.id, r.repr);
        }
    }
    m
}

fn child_main() -> ! {
    let stack = std::env::var("VHARNESS_C17_STACK").ok().and_then(|s| s.parse().ok()).unwrap_or(DEFAULT_STACK);
    let worker = std::thread::Builder::new().stack_size(stack).spawn(|| {
        let table = entries();
        let probes = first_probe_results(&table);
        let stdin = std::io::stdin();
        let stdout = std::io::stdout();
        let mut out = stdout.lock();
        for line in stdin.lock().lines() {
            let Ok(line) = line else { break };
            let res = match sx::parse_line(&line) {
                Some(case) => run_here(&table, &probes, &case),
                None => Sx::L(vec![Sx::N(-1)]),
            };
            if writeln!(out, "{}", res.to_line()).is_err() || out.flush().is_err() {
                break;
            }
        }
    });
    let code = match worker.map(|h| h.join()) {
        Ok(Ok(())) => 0,
        _ => 3,
    };
    std::process::exit(code)
}

// ---------------------------------------------------------------------------------------------
// supervisor
// ---------------------------------------------------------------------------------------------
struct Worker {
    child: Child,
    stdin: ChildStdin,
    rx: mpsc::Receiver<String>,
}

#[derive(Default)]
struct Supervisor {
    worker: Option<Worker>,
    starts: u64,
    /// the slowest answered case: seconds, entry
    slowest: (f64, i128),
}

impl Supervisor {
    fn start(&mut self) -> Option<()> {
        let exe = std::env::current_exe().ok()?;
        let dir = std::env::temp_dir().join(format!("vharness-c17-{}", std::process::id()));
        let mut child = Command::new(exe)
            .args(["run", "C17", "--tier", "child", "--out"])
            .arg(&dir)
            .env("VHARNESS_C17_CHILD", "1")
            .stdin(Stdio::piped())
            .stdout(Stdio::piped())
            .stderr(if std::env::var_os("VHARNESS_SHOW_PANICS").is_some() { Stdio::inherit() } else { Stdio::null() })
            .spawn()
            .ok()?;
        let stdin = child.stdin.take()?;
        let stdout = child.stdout.take()?;
        let (tx, rx) = mpsc::channel();
        std::thread::spawn(move || {
            for line in BufReader::new(stdout).lines() {
                let Ok(line) = line else { break };
                if tx.send(line).is_err() {
                    break;
                }
            }
        });
        self.worker = Some(Worker { child, stdin, rx });
        self.starts += 1;
        Some(())
    }

    fn stop(&mut self) {
        if let Some(mut w) = self.worker.take() {
            let _ = w.child.kill();
            let _ = w.child.wait();
        }
    }

    /// The outcome of one case, whatever happens to the worker.
    fn run(&mut self, case: &Sx) -> Sx {
        if self.worker.is_none() && self.start().is_none() {
            return Sx::L(vec![Sx::N(-2)]);
        }
        let line = case.to_line();
        let w = self.worker.as_mut().expect("started");
        let sent = writeln!(w.stdin, "{line}").and_then(|_| w.stdin.flush());
        let t0 = std::time::Instant::now();
        let res = if sent.is_err() {
            Err(mpsc::RecvTimeoutError::Disconnected)
        } else {
            w.rx.recv_timeout(Duration::from_secs(WATCHDOG_SECS))
        };
        let dt = t0.elapsed().as_secs_f64();
        if res.is_ok() && dt > self.slowest.0 {
            self.slowest = (dt, case.as_list().and_then(|l| l.first()).and_then(Sx::as_int).unwrap_or(-1));
        }
        match res {
            Ok(text) => sx::parse_line(&text).unwrap_or(Sx::L(vec![Sx::N(-1)])),
            Err(mpsc::RecvTimeoutError::Timeout) => {
                self.stop();
                Sx::L(vec![Sx::N(3)])
            }
            Err(mpsc::RecvTimeoutError::Disconnected) => {
                self.stop();
                Sx::L(vec![Sx::N(4)])
            }
        }
    }
}

impl Drop for Supervisor {
    fn drop(&mut self) {
        self.stop();
    }
}

static REPLAY_SUP: Mutex<Option<Supervisor>> = Mutex::new(None);

pub fn replay(case: &Sx) -> Option<Sx> {
    decode(case)?;
    let mut g = REPLAY_SUP.lock().ok()?;
    let sup = g.get_or_insert_with(Supervisor::default);
    Some(sup.run(case))
}

pub fn dump(_dir: &str) {}

// ---------------------------------------------------------------------------------------------
// a JSON tree that can hold what serde_json::Value cannot: duplicate keys, raw number tokens,
// raw fragments (deep nesting is spliced in as text)
// ---------------------------------------------------------------------------------------------
#[derive(Clone)]
enum J {
    Null,
    Bool(bool),
    Num(String),
    Str(String),
    Arr(Vec<J>),
    Obj(Vec<(String, J)>),
    Raw(String),
}

impl J {
    fn of(v: &serde_json::Value) -> J {
        match v {
            serde_json::Value::Null => J::Null,
            serde_json::Value::Bool(b) => J::Bool(*b),
            serde_json::Value::Number(n) => J::Num(n.to_string()),
            serde_json::Value::String(s) => J::Str(s.clone()),
            serde_json::Value::Array(a) => J::Arr(a.iter().map(J::of).collect()),
            serde_json::Value::Object(o) => J::Obj(o.iter().map(|(k, v)| (k.clone(), J::of(v))).collect()),
        }
    }
    fn parse(b: &[u8]) -> Option<J> {
        serde_json::from_slice::<serde_json::Value>(b).ok().map(|v| J::of(&v))
    }
    fn write(&self, out: &mut String) {
        match self {
            J::Null => out.push_str("null"),
            J::Bool(b) => out.push_str(if *b { "true" } else { "false" }),
            J::Num(n) | J::Raw(n) => out.push_str(n),
            J::Str(s) => out.push_str(&serde_json::to_string(s).unwrap_or_default()),
            J::Arr(a) => {
                out.push('[');
                for (i, x) in a.iter().enumerate() {
                    if i > 0 {
                        out.push(',');
                    }
                    x.write(out);
                }
                out.push(']');
            }
            J::Obj(o) => {
                out.push('{');
                for (i, (k, v)) in o.iter().enumerate() {
                    if i > 0 {
                        out.push(',');
                    }
                    out.push_str(&serde_json::to_string(k).unwrap_or_default());
                    out.push(':');
                    v.write(out);
                }
                out.push('}');
            }
        }
    }
    fn text(&self) -> String {
        let mut s = String::new();
        self.write(&mut s);
        s
    }
    fn count(&self) -> usize {
        1 + match self {
            J::Arr(a) => a.iter().map(J::count).sum(),
            J::Obj(o) => o.iter().map(|(_, v)| v.count()).sum(),
            _ => 0,
        }
    }
    /// The n-th node in pre-order.
    fn nth_mut(&mut self, n: &mut usize) -> Option<&mut J> {
        if *n == 0 {
            return Some(self);
        }
        *n -= 1;
        match self {
            J::Arr(a) => {
                for x in a {
                    if let Some(r) = x.nth_mut(n) {
                        return Some(r);
                    }
                }
                None
            }
            J::Obj(o) => {
                for (_, x) in o {
                    if let Some(r) = x.nth_mut(n) {
                        return Some(r);
                    }
                }
                None
            }
            _ => None,
        }
    }
}

fn nested(open: &str, inner: &str, close: &str, depth: usize) -> String {
    let mut s = String::with_capacity(depth * (open.len() + close.len()) + inner.len());
    for _ in 0..depth {
        s.push_str(open);
    }
    s.push_str(inner);
    for _ in 0..depth {
        s.push_str(close);
    }
    s
}

const BOUNDARY_SMALL: &[usize] = &[250, 251, 252, 253, 254, 255, 256, 257, 258, 259, 260];
const BOUNDARY_BIG: &[usize] = &[65530, 65531, 65532, 65533, 65534, 65535, 65536, 65537, 65538, 65539, 65540];
const JSON_DEPTHS: &[usize] = &[2, 16, 100, 120, 125, 126, 127, 128, 129, 130, 200, 1000];
const JSON_DEPTHS_DEEP: &[usize] = &[5_000, 50_000];
/// HTML nesting: up to 2000 open elements in the main stream; the `deep` stream goes to 16 000,
/// the most a 65 KiB event can express (`<b>` x 16 000 = 48 KiB).  html5ever's tree builder
/// scans the stack of open elements for some tags (`<ol>`, `<div>`, ...), so the parse time is
/// quadratic in the depth: measured 1.4 s at 16 000, beyond the 10 s watchdog at about 45 000.
const HTML_DEPTHS: &[usize] = &[2, 10, 99, 100, 101, 255, 256, 500, 1000, 2000];
const HTML_DEPTHS_DEEP: &[usize] = &[4000, 8000, 16000];
const HOSTILE_NUMBERS: &[&str] = &[
    "1e999", "-1e999", "1e400", "1.5", "-0", "0.0", "1E2", "9007199254740991", "9007199254740992", "-9007199254740992",
    "9223372036854775807", "9223372036854775808", "18446744073709551615", "18446744073709551616",
    "-9223372036854775809", "340282366920938463463374607431768211456", "1e-999", "0.1e1", "2147483648", "4294967296",
    "65536", "256", "255", "-1", "0",
];
const HOSTILE_STRINGS: &[&str] = &[
    "", " ", "\u{0}", "\u{feff}", "\u{e9}", "\u{1f44d}", "\u{202e}", "a\nb", "*", "?", "**", "[!a-", "\\", "\\\\", "a\\", ".", "..",
    ":", "::", "@", "@:", "!", "#", "$", "/", "//", "%", "%2", "%zz", "%00", "%ff", "'", "\"", ";", "=", ",", "mxc://",
    "mxc:///", "mxc://a/", "ed25519:", ":x", "https://matrix.to/#/", "matrix:", "m.room.message", "m.", "m.room.", "true", "null", "{}", "[]",
    "++50", "+5", "+", "-", "+ ", " +", " + ", "+\n", "-0", "+0", "00", "0x10", "1e3", "١٢٣", "ſ", "İ", "ß", "\u{fb01}",
    "\u{e04}", "\u{928}", "\u{7ff}", "\u{800}", "\u{fff}", "\u{1000}", "\u{d7ff}", "\u{e000}", "\u{ffff}", "\u{10000}", "\u{10ffff}",
];

/// Strings whose cost or index arithmetic depends on their size.
fn hostile_pattern(r: &mut Rng) -> String {
    let n = if r.chance(1, 60) {
        *r.pick(&[60_000usize, 200_000])
    } else if r.chance(1, 12) {
        *r.pick(&[5000usize, 20_000])
    } else {
        *r.pick(&[3usize, 10, 30, 100, 300, 1000])
    };
    match r.below(8) {
        0 => "?".repeat(n),
        1 => "*".repeat(n),
        2 => "*?".repeat(n / 2),
        3 => format!("{}x", "a*".repeat(n.min(20_000) / 2)),
        4 => "[".repeat(n),
        5 => format!("a{}b", "?".repeat(n)),
        6 => "\\".repeat(n),
        _ => "(?i)".repeat(n.min(5000)),
    }
}

fn boundary_len(r: &mut Rng, big_ok: bool) -> usize {
    if big_ok && r.chance(1, 40) {
        *r.pick(BOUNDARY_BIG)
    } else {
        *r.pick(BOUNDARY_SMALL)
    }
}

// ---------------------------------------------------------------------------------------------
// mutation
// ---------------------------------------------------------------------------------------------
const INTERESTING: &[&[u8]] = &[
    b"\0", b"\xff", b"\x80", b"\xc0\x80", b"\xed\xa0\x80", b"\xf4\x90\x80\x80", b"\xe2\x82", b"\"", b"\\", b"/", b":", b"%", b"'", b";",
    b"=", b"*", b"?", b"[", b"]", b"{", b"}", b",", b" ", b"\t", b"\n", b"\r\n", b"@", b"!", b"#", b"$", b"+", b"-", b".", b"&", b"<", b">",
    b"%00", b"%2F", b"%25", b"%ff", b"%", b"''", b"\\\"", b"\\u0000", b"\\ud800", b"\xc3\xa9", b"\xf0\x9f\x91\x8d", b"0", b"9", b"a", b"Z",
    b"null", b"true", b"1e999", b"-", b"[[", b"{\"", b"</", b"<!--", b"<![CDATA[", b"&#x", b"&#0;", b"&amp", b"<svg>", b"<math>", b"<table>",
    b"<template>", b"<select>", b"<p>", b"</p>", b"<b>", b"<a href=\"", b"<mx-reply>", b"</mx-reply>", b"<plaintext>", b"<noscript>",
    b"<title>", b"<textarea>", b"<frameset>", b"<!DOCTYPE", b"<?", b"<form>", b"<li>", b"<dd>", b"<h1>", b"<font ", b"<img src=x>",
];

fn bytes_mutate(r: &mut Rng, b: &mut Vec<u8>, utf8_only: bool, big_ok: bool) {
    let n = b.len();
    match r.below(11) {
        0 if n > 0 => {
            // deletion
            let i = r.below(n);
            let l = 1 + r.below(8.min(n - i));
            b.drain(i..i + l);
        }
        1 if n > 0 => {
            // duplication (once, or many times)
            let i = r.below(n);
            let l = 1 + r.below(16.min(n - i));
            let seg = b[i..i + l].to_vec();
            let times = if r.chance(1, 4) { 2 + r.below(64) } else { 1 };
            for _ in 0..times {
                b.splice(i..i, seg.iter().copied());
            }
        }
        2 | 3 => {
            // insertion of an interesting token
            let tok = loop {
                let t = *r.pick(INTERESTING);
                if !utf8_only || std::str::from_utf8(t).is_ok() {
                    break t;
                }
            };
            let i = r.below(n + 1);
            b.splice(i..i, tok.iter().copied());
        }
        4 if n > 0 => {
            // byte replacement
            let i = r.below(n);
            b[i] = if utf8_only { *r.pick(b" \0\"'%/:;=*?[]{}\\@!#$.-+09azAZ~\x7f") } else { r.next() as u8 };
        }
        5 if n > 0 => {
            b.truncate(r.below(n));
        }
        6 | 7 => {
            // boundary length: stretch one place until the whole has a boundary length
            let target = boundary_len(r, big_ok);
            if n < target {
                let i = r.below(n + 1);
                let c = if n > 0 && r.chance(1, 2) { b[i.min(n - 1)] } else { *r.pick(b"a0.-_:/%*?\xc3") };
                let c = if utf8_only && c >= 0x80 { b'a' } else { c };
                b.splice(i..i, std::iter::repeat(c).take(target - n));
            } else {
                b.truncate(target);
            }
        }
        8 if n > 1 => {
            // swap two segments
            let i = r.below(n - 1);
            let j = i + 1 + r.below(n - i - 1);
            b.swap(i, j);
        }
        9 => {
            // case flip / bit flip
            if n > 0 {
                let i = r.below(n);
                b[i] ^= if utf8_only { 0x20 } else { 1 << r.below(8) };
            }
        }
        _ => {
            let tok = *r.pick(INTERESTING);
            if !utf8_only || std::str::from_utf8(tok).is_ok() {
                b.extend_from_slice(tok);
            }
        }
    }
    if utf8_only && std::str::from_utf8(b).is_err() {
        *b = String::from_utf8_lossy(b).into_owned().into_bytes();
    }
}

fn hostile_value(r: &mut Rng, deep: bool) -> J {
    match r.below(14) {
        0 => J::Null,
        1 => J::Bool(r.chance(1, 2)),
        2 | 3 => J::Num((*r.pick(HOSTILE_NUMBERS)).to_owned()),
        4 | 5 => J::Str((*r.pick(HOSTILE_STRINGS)).to_owned()),
        6 => J::Str("a".repeat(boundary_len(r, true))),
        7 => J::Arr(vec![]),
        8 => J::Obj(vec![]),
        9 => J::Str(hostile_pattern(r)),
        10 => {
            let d = if deep { *r.pick(JSON_DEPTHS_DEEP) } else { *r.pick(JSON_DEPTHS) };
            J::Raw(nested("[", "1", "]", d))
        }
        11 => {
            let d = if deep { *r.pick(JSON_DEPTHS_DEEP) } else { *r.pick(JSON_DEPTHS) };
            J::Raw(nested("{\"a\":", "1", "}", d))
        }
        12 => J::Arr((0..r.below(300)).map(|i| J::Num(i.to_string())).collect()),
        _ => J::Obj((0..r.below(40)).map(|i| (format!("k{i}"), J::Str("v".into()))).collect()),
    }
}

/// One structural edit of a JSON text; `None` if the text is not JSON (then bytes are edited).
fn json_mutate(r: &mut Rng, b: &[u8], deep: bool) -> Option<Vec<u8>> {
    let mut j = J::parse(b)?;
    let total = j.count();
    let mut n = r.below(total);
    let node = j.nth_mut(&mut n)?;
    match r.below(12) {
        0 | 1 => {
            // deletion of a member / an element
            match node {
                J::Obj(o) if !o.is_empty() => {
                    o.remove(r.below(o.len()));
                }
                J::Arr(a) if !a.is_empty() => {
                    a.remove(r.below(a.len()));
                }
                other => *other = J::Null,
            }
        }
        2 => {
            // duplication (duplicate key, with the same or another value)
            match node {
                J::Obj(o) if !o.is_empty() => {
                    let (k, v) = o[r.below(o.len())].clone();
                    let v = if r.chance(1, 2) { v } else { hostile_value(r, false) };
                    let at = r.below(o.len() + 1);
                    o.insert(at, (k, v));
                }
                J::Arr(a) if !a.is_empty() => {
                    let v = a[r.below(a.len())].clone();
                    let times = if r.chance(1, 5) { 100 } else { 1 };
                    for _ in 0..times {
                        a.push(v.clone());
                    }
                }
                other => *other = J::Arr(vec![other.clone(), other.clone()]),
            }
        }
        3 | 4 | 5 => *node = hostile_value(r, deep), // type swap
        6 => {
            // deep nesting around the node
            let d = if deep { *r.pick(JSON_DEPTHS_DEEP) } else { *r.pick(JSON_DEPTHS) };
            let inner = node.text();
            *node = J::Raw(if r.chance(1, 2) { nested("[", &inner, "]", d) } else { nested("{\"a\":", &inner, "}", d) });
        }
        7 => {
            // a string / number edited in place
            match node {
                J::Str(s) => {
                    let mut b = std::mem::take(s).into_bytes();
                    bytes_mutate(r, &mut b, true, true);
                    *s = String::from_utf8_lossy(&b).into_owned();
                }
                J::Num(n) => *n = (*r.pick(HOSTILE_NUMBERS)).to_owned(),
                J::Bool(b) => *b = !*b,
                other => *other = J::Str((*r.pick(HOSTILE_STRINGS)).to_owned()),
            }
        }
        8 => {
            // key edits: rename, unknown key, empty key
            if let J::Obj(o) = node {
                if !o.is_empty() && r.chance(2, 3) {
                    let i = r.below(o.len());
                    let mut k = std::mem::take(&mut o[i].0).into_bytes();
                    bytes_mutate(r, &mut k, true, false);
                    o[i].0 = String::from_utf8_lossy(&k).into_owned();
                } else {
                    o.push(((*r.pick(HOSTILE_STRINGS)).to_owned(), hostile_value(r, false)));
                }
            } else {
                *node = J::Obj(vec![("k".into(), node.clone())]);
            }
        }
        9 => {
            // a value moved to where another type is expected: wrap / unwrap
            *node = match node.clone() {
                J::Arr(mut a) if !a.is_empty() => a.remove(0),
                J::Obj(mut o) if !o.is_empty() => o.remove(0).1,
                J::Str(s) => J::Raw(s.parse::<i64>().map(|n| n.to_string()).unwrap_or_else(|_| "[\"x\"]".into())),
                J::Num(n) => J::Str(n),
                other => J::Arr(vec![other]),
            };
        }
        10 => {
            // hostile push pattern / id in a string slot
            if let J::Str(s) = node {
                *s = hostile_pattern(r);
            } else {
                *node = J::Str("a".repeat(boundary_len(r, true)));
            }
        }
        _ => {
            // swap two members' values
            if let J::Obj(o) = node {
                if o.len() > 1 {
                    let (i, k) = (r.below(o.len()), r.below(o.len()));
                    let t = o[i].1.clone();
                    o[i].1 = o[k].1.clone();
                    o[k].1 = t;
                }
            }
        }
    }
    Some(j.text().into_bytes())
}

fn html_mutate(r: &mut Rng, b: &mut Vec<u8>, deep: bool) {
    let depths = if deep { HTML_DEPTHS_DEEP } else { HTML_DEPTHS };
    const TAGS: &[&str] = &[
        "div", "span", "b", "i", "a", "p", "font", "blockquote", "ul", "li", "table", "td", "mx-reply", "details", "sup",
        "svg", "math", "template", "select", "h1", "pre", "code", "del", "em", "strong", "ol", "dl", "dd", "button", "nobr",
    ];
    match if deep { r.below(2) } else { r.below(8) } {
        0 => {
            let d = *r.pick(depths);
            let t = *r.pick(TAGS);
            let inner = String::from_utf8_lossy(b).into_owned();
            *b = nested(&format!("<{t}>"), &inner, &format!("</{t}>"), d).into_bytes();
        }
        1 => {
            // unclosed nesting
            let d = *r.pick(depths);
            let t = *r.pick(TAGS);
            let mut s = format!("<{t}>").repeat(d).into_bytes();
            s.extend_from_slice(b);
            *b = s;
        }
        2 => {
            // mis-nested formatting elements (adoption agency)
            let d = *r.pick(&[2usize, 8, 16, 64, 200]);
            let mut s = String::new();
            for i in 0..d {
                s.push_str(if i % 2 == 0 { "<b><p>" } else { "<i><a href=x>" });
            }
            for i in 0..d {
                s.push_str(if i % 2 == 0 { "</b>x" } else { "</p></i>" });
            }
            b.extend_from_slice(s.as_bytes());
        }
        3 => {
            // many attributes / long attribute
            let n = *r.pick(&[1usize, 10, 300]);
            let mut s = String::from("<a");
            for i in 0..n {
                s.push_str(&format!(" a{i}=\"{}\"", if r.chance(1, 10) { "x".repeat(boundary_len(r, true)) } else { "v".into() }));
            }
            s.push_str(" href=\"https://x\" class=\"language-a language-b x\" data-mx-color='#fff'>t</a>");
            let i = r.below(b.len() + 1);
            b.splice(i..i, s.into_bytes());
        }
        4 => {
            let d = *r.pick(HTML_DEPTHS);
            *b = format!("{}{}", "<table><tr><td>".repeat(d / 3), String::from_utf8_lossy(b)).into_bytes();
        }
        _ => bytes_mutate(r, b, true, true),
    }
    if std::str::from_utf8(b).is_err() {
        *b = String::from_utf8_lossy(b).into_owned().into_bytes();
    }
}

/// One mutant of `seed`: one part edited (sometimes two).
fn mutate(r: &mut Rng, e: &Entry, seed: &[Vec<u8>], all_parts: &[Vec<u8>], deep: bool) -> Vec<Vec<u8>> {
    let mut parts = seed.to_vec();
    let rounds = if r.chance(1, 4) { 2 + r.below(3) } else { 1 };
    for _ in 0..rounds {
        if parts.is_empty() {
            break;
        }
        // selectors are edited rarely
        let mut i = r.below(parts.len());
        if e.kinds.get(i) == Some(&K::Sel) && !r.chance(1, 8) {
            i = (0..parts.len()).find(|k| e.kinds.get(*k) != Some(&K::Sel)).unwrap_or(i);
        }
        let kind = e.kinds.get(i).copied().unwrap_or(K::Bytes);
        if r.chance(1, 40) && !all_parts.is_empty() {
            // a valid input of some other entry point
            parts[i] = r.pick(all_parts).clone();
            continue;
        }
        match kind {
            K::Json => {
                let structural = if r.chance(3, 4) { json_mutate(r, &parts[i], deep) } else { None };
                match structural {
                    Some(b) => parts[i] = b,
                    None => bytes_mutate(r, &mut parts[i], false, false),
                }
            }
            K::Html => html_mutate(r, &mut parts[i], deep),
            K::Text => bytes_mutate(r, &mut parts[i], true, true),
            K::Bytes => bytes_mutate(r, &mut parts[i], false, true),
            K::Sel => {
                if r.chance(1, 2) {
                    parts[i] = r.below(300).to_string().into_bytes();
                } else {
                    bytes_mutate(r, &mut parts[i], true, false);
                }
            }
        }
    }
    parts
}

fn case_of(id: i128, parts: &[Vec<u8>]) -> Sx {
    let mut l = vec![Sx::N(id)];
    l.extend(parts.iter().map(|p| Sx::S(p.clone())));
    Sx::L(l)
}

/// Inputs every byte-level parser should see once: all single bytes, all pairs over a small
/// alphabet, each boundary length.
fn systematic(e: &Entry, seed: &[Vec<u8>], out: &mut Vec<Vec<Vec<u8>>>) {
    let Some(slot) = (0..seed.len()).find(|k| matches!(e.kinds.get(*k), Some(K::Text | K::Bytes))) else { return };
    let with = |b: Vec<u8>| {
        let mut p = seed.to_vec();
        p[slot] = b;
        p
    };
    out.push(with(vec![]));
    let bytes_ok = e.kinds[slot] == K::Bytes;
    for c in 0..=255u8 {
        if c < 0x80 || bytes_ok {
            out.push(with(vec![c]));
        }
    }
    let alpha = b"a:/@!#$%*?\\\"';= .-+[]\xc3\xa9";
    for &a in alpha.iter() {
        for &b in alpha.iter() {
            let v = vec![a, b];
            if bytes_ok || std::str::from_utf8(&v).is_ok() {
                out.push(with(v));
            }
        }
    }
    // every boundary length, by stretching the seed in front of its last byte and at its start
    for &n in BOUNDARY_SMALL.iter().chain([65535usize, 65536].iter()) {
        let s = &seed[slot];
        if s.len() < n {
            let mut v = s.clone();
            let at = s.len().saturating_sub(1);
            v.splice(at..at, std::iter::repeat(b'a').take(n - s.len()));
            out.push(with(v));
            if n < 1000 {
                let mut v = s.clone();
                let at = 1.min(s.len());
                v.splice(at..at, std::iter::repeat(b'a').take(n - s.len()));
                out.push(with(v));
            }
        }
    }
}

pub fn run(tier: &str, seed: u64, em: &mut Emitter) {
    if std::env::var_os("VHARNESS_C17_CHILD").is_some() {
        child_main();
    }
    let table = entries();
    let per_entry: usize = match tier {
        "thorough" => 32_000,
        _ => 1_600,
    };
    let mut sup = Supervisor::default();
    let mut stop = false;
    let emit = |em: &mut Emitter, sup: &mut Supervisor, tag: &str, id: i128, parts: &[Vec<u8>]| -> bool {
        let case = case_of(id, parts);
        let out = sup.run(&case);
        let bad = !matches!(out.as_list().and_then(|l| l.first()), Some(Sx::N(0 | 1)));
        em.emit(tag, case, out);
        bad
    };
    let all_parts: Vec<Vec<u8>> =
        table.iter().flat_map(|e| (e.seeds)().into_iter().flatten()).filter(|p| p.len() > 2).collect();

    // 1. valid seeds, 2. systematic byte-level inputs
    for e in &table {
        let seeds = (e.seeds)();
        for s in &seeds {
            emit(em, &mut sup, "seed", e.id, s);
        }
        let mut sys = vec![];
        systematic(e, &seeds[0], &mut sys);
        for s in &sys {
            emit(em, &mut sup, "systematic", e.id, s);
        }
    }
    // 3. mutants, interleaved over the entry points so that calls of different kinds follow each
    //    other in the same worker process
    let mut rngs: Vec<Rng> = table.iter().map(|e| Rng::new(seed ^ 0xC17 ^ ((e.id as u64) << 20))).collect();
    let mut violations = 0;
    let chunk = 50;
    let mut done = 0;
    while done < per_entry && !stop {
        for (e, r) in table.iter().zip(rngs.iter_mut()) {
            let seeds = (e.seeds)();
            for _ in 0..chunk {
                let s = r.pick(&seeds);
                let m = mutate(r, e, s, &all_parts, false);
                // mutants of mutants: keep a second generation going
                let m = if r.chance(1, 3) { mutate(r, e, &m, &all_parts, false) } else { m };
                if emit(em, &mut sup, "mutant", e.id, &m) {
                    violations += 1;
                }
            }
            if violations > 200 {
                // every further case costs a worker restart; the verdict is settled
                stop = true;
                break;
            }
        }
        done += chunk;
    }
    // 4. very deep nesting (beyond any parser's recursion limit): a stack overflow here is an
    //    abort of the worker, reported as outcome ( N4 )
    let deep_n = if tier == "thorough" { 60 } else { 6 };
    for (e, r) in table.iter().zip(rngs.iter_mut()) {
        if stop || !e.kinds.iter().any(|k| matches!(k, K::Json | K::Html)) {
            continue;
        }
        let seeds = (e.seeds)();
        for _ in 0..deep_n {
            let s = r.pick(&seeds);
            let m = mutate(r, e, s, &all_parts, true);
            emit(em, &mut sup, "deep", e.id, &m);
        }
    }
    sup.stop();
    eprintln!(
        "c17: {} worker process(es) used; slowest answered case {:.2} s (entry {})",
        sup.starts, sup.slowest.0, sup.slowest.1
    );
}
