//! C15 — sanitizer idempotence and preservation: cases and implementation outcomes.
//!
//! case    = ( cfg html-bytes parsed-tree )                      (as C14)
//! outcome = ok ( once twice ( string-idempotent ) ) | panic
//!   once  : tree after `sanitize_with(cfg)`;
//!   twice : tree after a second `sanitize_with(cfg)` on the same `Html` object;
//!   string-idempotent: with s1 = once.to_string(), whether sanitizing s1 (parse, sanitize_with,
//!           to_string) equals the plain `Html::parse(s1).to_string()`, and for the presets whether
//!           `sanitize_html` returns s1 and, applied to it again, `Html::parse(s1).to_string()`.  This passes through
//!           html5ever's parser and serializer, which are not modelled: search only.
use ruma_html::{Html, HtmlSanitizerMode, RemoveReplyFallback};

use crate::{
    c14::{case_sx, decode_case, run_streams, tag_of, tree_sx, Cfg},
    sx::{guarded, Sx},
    Emitter,
};

pub fn run_case(cfg: &Cfg, html: &str) -> Sx {
    let cfg = cfg.clone();
    let html = html.to_owned();
    guarded(move || {
        let conf = cfg.build();
        let doc = Html::parse(&html);
        doc.sanitize_with(&conf);
        let once = tree_sx(&doc);
        let s1 = doc.to_string();
        doc.sanitize_with(&conf);
        let twice = tree_sx(&doc);
        let again = Html::parse(&s1);
        again.sanitize_with(&conf);
        let mut string_idem = again.to_string() == Html::parse(&s1).to_string();
        // the string entry point itself, applied once and twice (presets only: that is all it offers)
        if let Some((m @ (1 | 2), reply)) = cfg.preset_kind() {
            let mode = if m == 1 { HtmlSanitizerMode::Strict } else { HtmlSanitizerMode::Compat };
            let rrf = if reply { RemoveReplyFallback::Yes } else { RemoveReplyFallback::No };
            let e1 = ruma_html::sanitize_html(&html, mode, rrf);
            let e2 = ruma_html::sanitize_html(&e1, mode, rrf);
            string_idem = string_idem && e1 == s1 && e2 == Html::parse(&e1).to_string();
        }
        Sx::ok(Sx::L(vec![once, twice, Sx::L(vec![Sx::b(string_idem)])]))
    })
}

pub fn dump(_dir: &str) {}

pub fn replay(case: &Sx) -> Option<Sx> {
    let (cfg, html) = decode_case(case)?;
    Some(run_case(&cfg, &html))
}

pub fn run(tier: &str, seed: u64, em: &mut Emitter) {
    run_streams(tier, seed ^ 0x15, |tag, c, d| {
        let c = c.clone().normalise();
        let (case, out) = (case_sx(&c, d), run_case(&c, d));
        em.emit(&tag_of(tag, &case, &out), case, out);
    });
}
