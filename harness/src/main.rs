//! vharness — runs ruma's real implementation on generated cases and records its outcome
//! next to each case, for comparison with the Coq models.  Also dumps the compiled tables the
//! translator turns into `coq/Gen/*.v`.
mod dump;
pub mod jgen;
pub mod rng;
pub mod sx;
mod c18_schema;
mod c16_bodies;

/// One module per property: `run` (generate cases + implementation outcomes), `replay`
/// (one recorded case), `dump` (compiled constants for the translator).
macro_rules! props {
    ($($m:ident => $id:literal),* $(,)?) => {
        $(mod $m;)*
        fn run_prop(id: &str, tier: &str, seed: u64, em: &mut Emitter) -> bool {
            match id { $($id => { $m::run(tier, seed, em); true })* _ => false }
        }
        fn replay_prop(id: &str, case: &Sx) -> Option<Sx> {
            match id { $($id => $m::replay(case),)* _ => None }
        }
        pub fn dump_all(dir: &str) { $($m::dump(dir);)* }
    };
}
props!(
    c01 => "C01", c02 => "C02", c03 => "C03", c04 => "C04", c05 => "C05", c06 => "C06", c07 => "C07",
    c08 => "C08", c09 => "C09", c10 => "C10", c11 => "C11", c12 => "C12", c13 => "C13", c14 => "C14",
    c15 => "C15", c16 => "C16", c17 => "C17", c18 => "C18", c19 => "C19", c20 => "C20",
);

use std::{
    collections::BTreeMap,
    fs::File,
    io::{BufWriter, Write},
};

use sx::Sx;

pub struct Emitter {
    out: BufWriter<File>,
    pub n: u64,
    tags: BTreeMap<String, u64>,
    kinds: BTreeMap<String, u64>,
    samples: Vec<String>,
    aux: BTreeMap<String, Vec<String>>,
}

impl Emitter {
    fn new(dir: &str) -> Self {
        std::fs::create_dir_all(dir).unwrap();
        Emitter {
            out: BufWriter::new(File::create(format!("{dir}/cases.txt")).unwrap()),
            n: 0,
            tags: BTreeMap::new(),
            kinds: BTreeMap::new(),
            samples: vec![],
            aux: BTreeMap::new(),
        }
    }
    /// Record one case with the implementation's outcome.
    pub fn emit(&mut self, tag: &str, case: Sx, out: Sx) {
        let kind = match &out {
            Sx::L(l) => match l.first() {
                Some(Sx::N(0)) => "ok",
                Some(Sx::N(1)) => "err",
                Some(Sx::N(2)) => "panic",
                _ => "other",
            },
            _ => "other",
        };
        *self.kinds.entry(kind.to_owned()).or_default() += 1;
        *self.tags.entry(tag.to_owned()).or_default() += 1;
        let line = Sx::L(vec![case, out]).to_line();
        if self.samples.len() < 3 || (self.n % 997 == 0 && self.samples.len() < 8) {
            if line.len() < 600 {
                self.samples.push(line.clone());
            }
        }
        writeln!(self.out, "{line}").unwrap();
        self.n += 1;
    }
    /// Side channel for post-checks (e.g. the RFC 8032 oracle): lines of `<dir>/<name>`.
    pub fn aux(&mut self, name: &str, line: String) {
        self.aux.entry(name.to_owned()).or_default().push(line);
    }
    fn finish(mut self, dir: &str) {
        self.out.flush().unwrap();
        for (name, lines) in &self.aux {
            std::fs::write(format!("{dir}/{name}"), lines.join("\n") + "\n").unwrap();
        }
        let stats = serde_json::json!({
            "cases": self.n, "by_tag": self.tags, "by_outcome": self.kinds, "samples": self.samples,
        });
        std::fs::write(format!("{dir}/stats.json"), serde_json::to_string_pretty(&stats).unwrap()).unwrap();
    }
}

/// Re-run recorded cases (one s-expression per line; `#` comments) on the implementation.
fn replay_file(prop: &str, path: &str, em: &mut Emitter) {
    let Ok(text) = std::fs::read_to_string(path) else { return };
    for line in text.lines() {
        let line = line.trim();
        if line.is_empty() || line.starts_with('#') {
            continue;
        }
        let Some(case) = sx::parse_line(line) else {
            eprintln!("corpus: unparsable line in {path}");
            continue;
        };
        let out = replay_prop(prop, &case);
        match out {
            Some(o) => em.emit("corpus", case, o),
            None => eprintln!("corpus: case not decodable for {prop} in {path}"),
        }
    }
}

fn main() {
    // Panics are outcomes, not noise.
    if std::env::var_os("VHARNESS_SHOW_PANICS").is_none() {
        std::panic::set_hook(Box::new(|_| {}));
    }
    let args: Vec<String> = std::env::args().collect();
    let get = |name: &str, def: &str| -> String {
        args.iter().position(|a| a == name).and_then(|i| args.get(i + 1)).cloned().unwrap_or_else(|| def.to_owned())
    };
    match args.get(1).map(String::as_str) {
        Some("dump") => dump::dump(&get("--out", "/verif/.cache/dump")),
        Some("run") => {
            let prop = args.get(2).expect("property id").clone();
            let tier = get("--tier", "quick");
            let seed: u64 = get("--seed", "1").parse().unwrap_or(1);
            let dir = get("--out", "/verif/.cache/run");
            let mut em = Emitter::new(&dir);
            // corpus of minimised past disagreements runs first
            let corpus = get("--corpus", "");
            if !corpus.is_empty() {
                if let Ok(rd) = std::fs::read_dir(&corpus) {
                    let mut files: Vec<_> = rd.filter_map(|e| e.ok()).map(|e| e.path()).collect();
                    files.sort();
                    for f in files {
                        replay_file(&prop, &f.to_string_lossy(), &mut em);
                    }
                }
            }
            if !run_prop(&prop, &tier, seed, &mut em) {
                eprintln!("unknown property {prop}");
                std::process::exit(2);
            }
            em.finish(&dir);
        }
        Some("replay") => {
            let prop = args.get(2).expect("property id").clone();
            let dir = get("--out", "/verif/.cache/replay");
            let mut em = Emitter::new(&dir);
            replay_file(&prop, &get("--case", ""), &mut em);
            em.finish(&dir);
        }
        _ => {
            eprintln!("usage: vharness dump --out DIR | run Cxx --tier T --seed S --out DIR");
            std::process::exit(2);
        }
    }
}
