//! C18 — typed event (de)serialization: dispatch by `type`, redaction detection, generic
//! accessors (compared with the Coq model), and — as a failing-input search on the
//! implementation only — the content clause: serialize typed content -> deserialize is a
//! fixpoint, no duplicate keys, no present value changed, key order irrelevant, unknown fields
//! accepted; `Raw` keeps the text byte for byte and `get_field` agrees with a full parse.
//!
//! Cases
//!   ( N0 S<target> <event: json> N<shaped> N<perm> )   deserialize into the target enum
//!        -> ( group variant redacted type [sender] [event_id] [ts] [room_id] [state_key] order_ok )
//!   ( N1 S<kind> S<type> <content: json> <hard: json> N<perm> )   Any<kind>EventContent::from_parts + to_string
//!        -> ( accepted fixpoint no_dup_keys preserved order_ok )
//!   ( N2 S<text> S<field> )   Raw::from_json_string / json / get_field
//!        -> ( S<json text> field_agrees deserialize_agrees )
//!   ( N3 S<target> S<text> )  robustness: any text into the target enum; only a panic is an outcome
//! `shaped` = 1: the event is built from the specification's schema (must deserialize).
//! `hard` = the members of `content` whose values must survive the round trip (optional members
//! holding their default, `null`, and unknown extra members are not in it).
use ruma_common::{
    canonical_json::redact_content_in_place, room_version_rules::RedactionRules, serde::Raw, CanonicalJsonValue,
};
use ruma_events::{
    AnyEphemeralRoomEvent, AnyEphemeralRoomEventContent, AnyGlobalAccountDataEvent, AnyGlobalAccountDataEventContent,
    AnyInitialStateEvent, AnyMessageLikeEvent, AnyMessageLikeEventContent, AnyRoomAccountDataEvent,
    AnyRoomAccountDataEventContent, AnyStateEvent, AnyStateEventContent, AnyStrippedStateEvent, AnySyncEphemeralRoomEvent,
    AnySyncMessageLikeEvent, AnySyncStateEvent, AnySyncTimelineEvent, AnyTimelineEvent, AnyToDeviceEvent,
    AnyToDeviceEventContent, EventContentFromType,
};
use serde_json::{json, value::RawValue, Map, Value};

use crate::{
    rng::Rng,
    sx::{guarded, json_to_sx, sx_to_json, Sx},
    Emitter,
};

// ---------------------------------------------------------------------------------------------
// JSON helpers: text with a chosen key order, duplicate-key scan, "hard" subset
// ---------------------------------------------------------------------------------------------
fn write_json(v: &Value, perm: u64, out: &mut String) {
    match v {
        Value::Object(m) => {
            let mut keys: Vec<&String> = m.keys().collect();
            match perm % 4 {
                0 => {}
                1 => keys.reverse(),
                _ => {
                    let mut r = Rng::new(perm ^ (m.len() as u64) << 7);
                    for i in (1..keys.len()).rev() {
                        let j = r.below(i + 1);
                        keys.swap(i, j);
                    }
                }
            }
            out.push('{');
            for (i, k) in keys.iter().enumerate() {
                if i > 0 {
                    out.push(',');
                }
                out.push_str(&serde_json::to_string(k).unwrap());
                out.push(':');
                write_json(&m[*k], perm.wrapping_mul(31).wrapping_add(i as u64), out);
            }
            out.push('}');
        }
        Value::Array(a) => {
            out.push('[');
            for (i, x) in a.iter().enumerate() {
                if i > 0 {
                    out.push(',');
                }
                write_json(x, perm.wrapping_mul(17).wrapping_add(i as u64), out);
            }
            out.push(']');
        }
        Value::String(st) if perm % 5 == 3 && st.chars().any(|c| c.is_ascii_alphabetic()) => {
            // an equivalent spelling of the same string: one letter (and every '/') written as an escape
            let plain = serde_json::to_string(st).unwrap();
            let mut done = false;
            let mut t = String::new();
            let mut prev_backslash = false;
            let mut skip = 0;
            for c in plain.chars() {
                if skip > 0 {
                    skip -= 1;
                    t.push(c);
                    continue;
                }
                if prev_backslash && c == 'u' {
                    skip = 4;
                }
                if !done && !prev_backslash && c.is_ascii_alphabetic() && (perm / 5) % 3 != 0 {
                    t.push_str(&format!("\\u{:04x}", c as u32));
                    done = true;
                } else if c == '/' && !prev_backslash {
                    t.push_str("\\/");
                } else {
                    t.push(c);
                }
                prev_backslash = c == '\\' && !prev_backslash;
            }
            out.push_str(&t);
        }
        other => out.push_str(&serde_json::to_string(other).unwrap()),
    }
}

/// insignificant whitespace around the structural characters (outside strings)
fn spaced(text: &str) -> String {
    let (mut out, mut in_str, mut esc) = (String::new(), false, false);
    for c in text.chars() {
        if in_str {
            out.push(c);
            if esc {
                esc = false;
            } else if c == '\\' {
                esc = true;
            } else if c == '"' {
                in_str = false;
            }
        } else {
            match c {
                '"' => {
                    in_str = true;
                    out.push(c);
                }
                ':' => out.push_str(" : "),
                ',' => out.push_str(" ,\t"),
                '{' | '[' => {
                    out.push(c);
                    out.push_str("\n  ");
                }
                '}' | ']' => {
                    out.push_str("\r\n");
                    out.push(c);
                }
                _ => out.push(c),
            }
        }
    }
    out
}

fn text_of(v: &Value, perm: u64) -> String {
    let mut s = String::new();
    write_json(v, perm, &mut s);
    s
}

/// Does the JSON text contain an object with a repeated key?  (serde_json::Value would hide it.)
fn has_duplicate_keys(text: &str) -> bool {
    use serde::de::{DeserializeSeed, Deserializer, MapAccess, SeqAccess, Visitor};
    struct Dup<'a>(&'a mut bool);
    impl<'de> DeserializeSeed<'de> for Dup<'_> {
        type Value = ();
        fn deserialize<D: Deserializer<'de>>(self, d: D) -> Result<(), D::Error> {
            d.deserialize_any(self)
        }
    }
    impl<'de> Visitor<'de> for Dup<'_> {
        type Value = ();
        fn expecting(&self, f: &mut std::fmt::Formatter<'_>) -> std::fmt::Result {
            f.write_str("json")
        }
        fn visit_bool<E>(self, _: bool) -> Result<(), E> {
            Ok(())
        }
        fn visit_i64<E>(self, _: i64) -> Result<(), E> {
            Ok(())
        }
        fn visit_u64<E>(self, _: u64) -> Result<(), E> {
            Ok(())
        }
        fn visit_f64<E>(self, _: f64) -> Result<(), E> {
            Ok(())
        }
        fn visit_str<E>(self, _: &str) -> Result<(), E> {
            Ok(())
        }
        fn visit_unit<E>(self) -> Result<(), E> {
            Ok(())
        }
        fn visit_seq<A: SeqAccess<'de>>(self, mut a: A) -> Result<(), A::Error> {
            while a.next_element_seed(Dup(&mut *self.0))?.is_some() {}
            Ok(())
        }
        fn visit_map<A: MapAccess<'de>>(self, mut a: A) -> Result<(), A::Error> {
            let mut seen = std::collections::BTreeSet::new();
            while let Some(k) = a.next_key::<String>()? {
                if !seen.insert(k) {
                    *self.0 = true;
                }
                a.next_value_seed(Dup(&mut *self.0))?;
            }
            Ok(())
        }
    }
    let mut dup = false;
    let mut de = serde_json::Deserializer::from_str(text);
    let _ = Dup(&mut dup).deserialize(&mut de);
    dup
}

/// every member of `hard` is in `out` with the same value (objects recursively, arrays elementwise)
fn contains(out: &Value, hard: &Value) -> bool {
    match (out, hard) {
        (Value::Object(o), Value::Object(h)) => h.iter().all(|(k, hv)| o.get(k).is_some_and(|ov| contains(ov, hv))),
        (Value::Array(o), Value::Array(h)) => o.len() == h.len() && o.iter().zip(h).all(|(a, b)| contains(a, b)),
        (a, b) => a == b,
    }
}

fn to_canonical(v: &Value) -> Option<CanonicalJsonValue> {
    CanonicalJsonValue::try_from(v.clone()).ok()
}

fn canonical_to_value(v: &CanonicalJsonValue) -> Value {
    serde_json::to_value(v).unwrap()
}

// ---------------------------------------------------------------------------------------------
// Observations of the typed events
// ---------------------------------------------------------------------------------------------
#[derive(Default, PartialEq, Clone)]
struct Obs {
    group: String,
    variant: String,
    redacted: i128,
    ty: String,
    sender: Option<String>,
    event_id: Option<String>,
    ts: Option<i128>,
    room_id: Option<String>,
    state_key: Option<String>,
}

impl Obs {
    fn to_sx(&self, order_ok: bool) -> Sx {
        let os = |x: &Option<String>| Sx::opt(x.as_deref().map(Sx::s));
        Sx::ok(Sx::L(vec![
            Sx::s(&self.group),
            Sx::s(&self.variant),
            Sx::N(self.redacted),
            Sx::s(&self.ty),
            os(&self.sender),
            os(&self.event_id),
            Sx::opt(self.ts.map(Sx::N)),
            os(&self.room_id),
            os(&self.state_key),
            Sx::b(order_ok),
        ]))
    }
}

/// `RoomMessage(Original(OriginalMessageLikeEvent { ..` -> ["RoomMessage", "Original", ..]
fn debug_path(dbg: &str, n: usize) -> Vec<String> {
    let mut out = vec![];
    let mut cur = String::new();
    for c in dbg.chars() {
        if c.is_alphanumeric() || c == '_' {
            cur.push(c);
        } else if c == '(' {
            out.push(std::mem::take(&mut cur));
            if out.len() == n {
                break;
            }
        } else {
            break;
        }
    }
    out
}

fn ms(ts: ruma_common::MilliSecondsSinceUnixEpoch) -> i128 {
    u64::from(ts.0) as i128
}

macro_rules! obs_room {
    // message-like / state enums with a redacted form
    ($ev:expr, $group:expr, room_id: $rid:expr, state_key: $sk:expr) => {{
        let ev = $ev;
        let path = debug_path(&format!("{ev:?}"), 2);
        Obs {
            group: $group.to_owned(),
            variant: path.first().cloned().unwrap_or_default(),
            redacted: match path.get(1).map(String::as_str) {
                Some("Original") => 0,
                Some("Redacted") => 1,
                _ => 9,
            } + if (path.get(1).map(String::as_str) == Some("Redacted")) != ev.is_redacted() { 100 } else { 0 },
            ty: ev.event_type().to_string(),
            sender: Some(ev.sender().to_string()),
            event_id: Some(ev.event_id().to_string()),
            ts: Some(ms(ev.origin_server_ts())),
            room_id: $rid(ev),
            state_key: $sk(ev),
        }
    }};
}

fn none<T>(_: &T) -> Option<String> {
    None
}

fn observe(target: &str, text: &str) -> Result<Obs, ()> {
    fn de<'a, T: serde::Deserialize<'a>>(t: &'a str) -> Result<T, ()> {
        serde_json::from_str::<T>(t).map_err(|_| ())
    }
    Ok(match target {
        "AnyTimelineEvent" => {
            let ev: AnyTimelineEvent = de(text)?;
            let mut o = match &ev {
                AnyTimelineEvent::MessageLike(e) => {
                    obs_room!(e, "MessageLike", room_id: |e: &AnyMessageLikeEvent| Some(e.room_id().to_string()), state_key: none)
                }
                AnyTimelineEvent::State(e) => obs_room!(e, "State", room_id: |e: &AnyStateEvent| Some(e.room_id().to_string()),
                    state_key: |e: &AnyStateEvent| Some(e.state_key().to_owned())),
            };
            // the timeline enum's own accessors must agree with the inner event's
            if ev.event_type().to_string() != o.ty
                || Some(ev.sender().to_string()) != o.sender
                || Some(ev.event_id().to_string()) != o.event_id
                || Some(ms(ev.origin_server_ts())) != o.ts
                || Some(ev.room_id().to_string()) != o.room_id
            {
                o.variant.push_str("!accessor-mismatch");
            }
            o
        }
        "AnySyncTimelineEvent" => {
            let ev: AnySyncTimelineEvent = de(text)?;
            let mut o = match &ev {
                AnySyncTimelineEvent::MessageLike(e) => obs_room!(e, "MessageLike", room_id: none, state_key: none),
                AnySyncTimelineEvent::State(e) => {
                    obs_room!(e, "State", room_id: none, state_key: |e: &AnySyncStateEvent| Some(e.state_key().to_owned()))
                }
            };
            if ev.event_type().to_string() != o.ty
                || Some(ev.sender().to_string()) != o.sender
                || Some(ev.event_id().to_string()) != o.event_id
                || Some(ms(ev.origin_server_ts())) != o.ts
            {
                o.variant.push_str("!accessor-mismatch");
            }
            o
        }
        "AnyMessageLikeEvent" => {
            let ev: AnyMessageLikeEvent = de(text)?;
            obs_room!(&ev, "", room_id: |e: &AnyMessageLikeEvent| Some(e.room_id().to_string()), state_key: none)
        }
        "AnySyncMessageLikeEvent" => {
            let ev: AnySyncMessageLikeEvent = de(text)?;
            obs_room!(&ev, "", room_id: none, state_key: none)
        }
        "AnyStateEvent" => {
            let ev: AnyStateEvent = de(text)?;
            obs_room!(&ev, "", room_id: |e: &AnyStateEvent| Some(e.room_id().to_string()),
                state_key: |e: &AnyStateEvent| Some(e.state_key().to_owned()))
        }
        "AnySyncStateEvent" => {
            let ev: AnySyncStateEvent = de(text)?;
            obs_room!(&ev, "", room_id: none, state_key: |e: &AnySyncStateEvent| Some(e.state_key().to_owned()))
        }
        "AnyStrippedStateEvent" => {
            let ev: AnyStrippedStateEvent = de(text)?;
            Obs {
                variant: debug_path(&format!("{ev:?}"), 1).pop().unwrap_or_default(),
                redacted: 2,
                ty: ev.event_type().to_string(),
                sender: Some(ev.sender().to_string()),
                state_key: Some(ev.state_key().to_owned()),
                ..Default::default()
            }
        }
        "AnyInitialStateEvent" => {
            let ev: AnyInitialStateEvent = de(text)?;
            Obs {
                variant: debug_path(&format!("{ev:?}"), 1).pop().unwrap_or_default(),
                redacted: 2,
                ty: ev.event_type().to_string(),
                state_key: Some(ev.state_key().to_owned()),
                ..Default::default()
            }
        }
        "AnyToDeviceEvent" => {
            let ev: AnyToDeviceEvent = de(text)?;
            Obs {
                variant: debug_path(&format!("{ev:?}"), 1).pop().unwrap_or_default(),
                redacted: 2,
                ty: ev.event_type().to_string(),
                sender: Some(ev.sender().to_string()),
                ..Default::default()
            }
        }
        "AnyEphemeralRoomEvent" => {
            let ev: AnyEphemeralRoomEvent = de(text)?;
            Obs {
                variant: debug_path(&format!("{ev:?}"), 1).pop().unwrap_or_default(),
                redacted: 2,
                ty: ev.event_type().to_string(),
                room_id: Some(ev.room_id().to_string()),
                ..Default::default()
            }
        }
        "AnySyncEphemeralRoomEvent" => {
            let ev: AnySyncEphemeralRoomEvent = de(text)?;
            Obs {
                variant: debug_path(&format!("{ev:?}"), 1).pop().unwrap_or_default(),
                redacted: 2,
                ty: ev.event_type().to_string(),
                ..Default::default()
            }
        }
        "AnyGlobalAccountDataEvent" => {
            let ev: AnyGlobalAccountDataEvent = de(text)?;
            Obs {
                variant: debug_path(&format!("{ev:?}"), 1).pop().unwrap_or_default(),
                redacted: 2,
                ty: ev.event_type().to_string(),
                ..Default::default()
            }
        }
        "AnyRoomAccountDataEvent" => {
            let ev: AnyRoomAccountDataEvent = de(text)?;
            Obs {
                variant: debug_path(&format!("{ev:?}"), 1).pop().unwrap_or_default(),
                redacted: 2,
                ty: ev.event_type().to_string(),
                ..Default::default()
            }
        }
        _ => return Err(()),
    })
}

fn run_event(target: &str, ev: &Value, perm: u64) -> Sx {
    let base = observe(target, &text_of(ev, 0));
    // the same event with its keys in two other orders
    let order_ok = [perm | 1, perm.wrapping_mul(3) | 2].iter().all(|p| observe(target, &text_of(ev, *p)) == base);
    match base {
        Ok(o) => o.to_sx(order_ok),
        Err(()) => {
            if order_ok {
                Sx::err(0)
            } else {
                Sx::err(1)
            }
        }
    }
}

// ---------------------------------------------------------------------------------------------
// Content round trip
// ---------------------------------------------------------------------------------------------
fn content_roundtrip<C: EventContentFromType + serde::Serialize>(ty: &str, content: &Value, hard: &Value, perm: u64) -> Sx {
    let flags = |a: bool, b: bool, c: bool, d: bool, e: bool| Sx::ok(Sx::L(vec![Sx::b(a), Sx::b(b), Sx::b(c), Sx::b(d), Sx::b(e)]));
    let parse = |text: &str| -> Option<String> {
        let raw = RawValue::from_string(text.to_owned()).ok()?;
        let c = C::from_parts(ty, &raw).ok()?;
        serde_json::to_string(&c).ok()
    };
    let Some(s1) = parse(&text_of(content, 0)) else { return flags(false, true, true, true, true) };
    let s2 = parse(&s1);
    let fix = s2.as_deref() == Some(s1.as_str());
    let nodup = !has_duplicate_keys(&s1);
    let preserved = serde_json::from_str::<Value>(&s1).is_ok_and(|out| contains(&out, hard));
    let order = [perm | 1, perm.wrapping_mul(3) | 2].iter().all(|p| parse(&text_of(content, *p)).as_deref() == Some(s1.as_str()));
    flags(true, fix, nodup, preserved, order)
}

fn run_content(kind: &str, ty: &str, content: &Value, hard: &Value, perm: u64) -> Sx {
    match kind {
        "MessageLike" => content_roundtrip::<AnyMessageLikeEventContent>(ty, content, hard, perm),
        "State" => content_roundtrip::<AnyStateEventContent>(ty, content, hard, perm),
        "ToDevice" => content_roundtrip::<AnyToDeviceEventContent>(ty, content, hard, perm),
        "EphemeralRoom" => content_roundtrip::<AnyEphemeralRoomEventContent>(ty, content, hard, perm),
        "GlobalAccountData" => content_roundtrip::<AnyGlobalAccountDataEventContent>(ty, content, hard, perm),
        "RoomAccountData" => content_roundtrip::<AnyRoomAccountDataEventContent>(ty, content, hard, perm),
        _ => Sx::err(9),
    }
}

// ---------------------------------------------------------------------------------------------
// Raw
// ---------------------------------------------------------------------------------------------
fn run_raw(text: &str, field: &str) -> Sx {
    let Ok(raw) = Raw::<Value>::from_json_string(text.to_owned()) else { return Sx::err(0) };
    let stored = raw.json().get().to_owned();
    // get_field against a full parse (last duplicate wins in both)
    let full: Option<Value> = serde_json::from_str::<Value>(text).ok();
    let expect = full.as_ref().and_then(|v| v.as_object()).and_then(|o| o.get(field)).cloned();
    let field_ok = match (full.as_ref().map(|v| v.is_object()), raw.get_field::<Value>(field)) {
        (Some(true), Ok(got)) => got == expect,
        (Some(false), Err(_)) => true, // not an object: get_field errors
        _ => false,
    };
    let de_ok = raw.deserialize().ok() == full;
    Sx::ok(Sx::L(vec![Sx::s(&stored), Sx::b(field_ok), Sx::b(de_ok)]))
}

fn run_robust(target: &str, text: &str) -> Sx {
    let _ = observe(target, text);
    Sx::ok(Sx::L(vec![]))
}

// ---------------------------------------------------------------------------------------------
// Generators: event contents from the specification's schemas
// ---------------------------------------------------------------------------------------------
/// A content under construction: `full` is what is sent, `hard` the members that must survive.
#[derive(Clone, Default)]
struct B {
    full: Map<String, Value>,
    hard: Map<String, Value>,
}

impl B {
    fn new() -> B {
        B::default()
    }
    /// a member whose value must be preserved
    fn req(mut self, k: &str, v: Value) -> B {
        self.full.insert(k.to_owned(), v.clone());
        self.hard.insert(k.to_owned(), v);
        self
    }
    /// a member that may legitimately be dropped or normalised (default value, null)
    fn soft(mut self, k: &str, v: Value) -> B {
        self.full.insert(k.to_owned(), v);
        self
    }
    fn opt(self, r: &mut Rng, k: &str, v: impl FnOnce(&mut Rng) -> Value) -> B {
        if r.chance(1, 2) {
            let v = v(r);
            self.req(k, v)
        } else {
            self
        }
    }
    fn nest(mut self, k: &str, b: B) -> B {
        self.full.insert(k.to_owned(), Value::Object(b.full));
        if !b.hard.is_empty() {
            // (an object whose members are all optional and absent may itself be dropped)
            self.hard.insert(k.to_owned(), Value::Object(b.hard));
        }
        self
    }
    fn opt_nest(self, r: &mut Rng, k: &str, b: impl FnOnce(&mut Rng) -> B) -> B {
        if r.chance(1, 2) {
            let b = b(r);
            self.nest(k, b)
        } else {
            self
        }
    }
    /// unknown extra members (never in `hard`)
    fn extras(mut self, r: &mut Rng) -> B {
        if r.chance(1, 2) {
            for _ in 0..1 + r.below(2) {
                let k = *r.pick(&["x.unknown.field", "org.example.extra", "zz_unknown", "X-Unknown"]);
                let v = match r.below(5) {
                    0 => json!(null),
                    1 => json!(r.below(1000) as i64),
                    2 => json!("extra"),
                    3 => json!({"nested": [1, "two", {"three": 3}]}),
                    _ => json!([true, false]),
                };
                self.full.insert(k.to_owned(), v);
            }
        }
        self
    }
}

const USERS: &[&str] = &["@alice:example.org", "@bob:matrix.org", "@carol:sub.example.com:8448", "@_bridge_x:example.org"];
const ROOMS: &[&str] = &["!room:example.org", "!abcDEF123:matrix.org"];
const EVENTS: &[&str] = &["$event:example.org", "$Rqnc-F-dvnEYJTyHq_iKxU2bZ1CI92-kuZq3a5lr5Zg", "$abc123def456:matrix.org"];
const SERVERS: &[&str] = &["example.org", "matrix.org", "sub.example.com:8448"];
const ALIASES: &[&str] = &["#room:example.org", "#other:matrix.org"];
const MXCS: &[&str] = &["mxc://example.org/abcDEF123", "mxc://matrix.org/xyz"];
const TEXTS: &[&str] = &["hello", "", "with \"quotes\" and \\ backslash", "\u{e9}\u{1F600} unicode", "line\nbreak", "<b>html</b>"];
const B64: &[&str] = &["AAAAAAAAAAAAAAAAAAAAAAAAAAAAAAAAAAAAAAAAAAA", "c2lnbmF0dXJl", "LRZiOWZV0k/6jQwdlTRw0hFTcNIGY+MZ0KymVvCJoWA"];

fn p(r: &mut Rng, xs: &[&str]) -> Value {
    json!(*r.pick(xs))
}
fn int(r: &mut Rng, lo: i64, hi: i64) -> Value {
    let edge = [lo, hi, 0.clamp(lo, hi), 1.clamp(lo, hi), 50.clamp(lo, hi), 100.clamp(lo, hi)];
    // values that unit conversions, float round trips and narrow integer types get wrong (seed4 C18-2)
    const TRICKY: [i64; 20] = [
        999, 1001, 1003, 1009, 1023, 1118, 1235, 4097, 59_999, 60_001, 65_537, 16_777_217, 2_147_483_647, 2_147_483_649,
        4_294_967_297, 1_000_000_007, 9_007_199_254_740_991, 9_007_199_254_740_990, 123_456_789_123, 86_400_001,
    ];
    if r.chance(1, 2) {
        json!(*r.pick(&edge))
    } else if r.chance(1, 3) {
        json!((*r.pick(&TRICKY)).clamp(lo, hi))
    } else {
        json!(lo + (r.next() % ((hi - lo) as u64 + 1)) as i64)
    }
}
const MAXI: i64 = 9007199254740991;

fn image_info(r: &mut Rng) -> B {
    B::new()
        .opt(r, "h", |r| int(r, 0, 4096))
        .opt(r, "w", |r| int(r, 0, 4096))
        .opt(r, "mimetype", |r| p(r, &["image/png", "image/jpeg"]))
        .opt(r, "size", |r| int(r, 0, 1 << 30))
        .opt(r, "thumbnail_url", |r| p(r, MXCS))
        .opt_nest(r, "thumbnail_info", |r| {
            B::new().opt(r, "h", |r| int(r, 0, 600)).opt(r, "w", |r| int(r, 0, 800)).opt(r, "mimetype", |r| p(r, &["image/png"])).opt(r, "size", |r| int(r, 0, 99999))
        })
        .extras(r)
}

fn relates_to(r: &mut Rng) -> B {
    match r.below(4) {
        0 => B::new().nest("m.in_reply_to", B::new().req("event_id", p(r, EVENTS))),
        1 => {
            let b = B::new().req("rel_type", json!("m.thread")).req("event_id", p(r, EVENTS));
            if r.chance(1, 2) {
                b.nest("m.in_reply_to", B::new().req("event_id", p(r, EVENTS))).req("is_falling_back", json!(true))
            } else {
                b
            }
        }
        2 => B::new().req("rel_type", json!("m.reference")).req("event_id", p(r, EVENTS)),
        _ => B::new().req("rel_type", json!("org.example.custom_relation")).req("event_id", p(r, EVENTS)).req("key", json!("x")),
    }
}

fn mentions(r: &mut Rng) -> B {
    B::new().opt(r, "user_ids", |r| json!([*r.pick(USERS)])).opt(r, "room", |_| json!(true))
}

fn message_body(r: &mut Rng, msgtype: &str) -> B {
    let b = B::new().req("msgtype", json!(msgtype)).req("body", p(r, TEXTS));
    match msgtype {
        "m.text" | "m.notice" | "m.emote" => {
            if r.chance(1, 2) {
                b.req("format", json!("org.matrix.custom.html")).req("formatted_body", p(r, TEXTS))
            } else {
                b
            }
        }
        "m.image" => b.req("url", p(r, MXCS)).opt_nest(r, "info", image_info),
        "m.file" => b
            .req("url", p(r, MXCS))
            .opt(r, "filename", |r| p(r, &["a.txt", "report.pdf"]))
            .opt_nest(r, "info", |r| B::new().opt(r, "mimetype", |r| p(r, &["text/plain"])).opt(r, "size", |r| int(r, 0, 1 << 20))),
        "m.audio" => b.req("url", p(r, MXCS)).opt_nest(r, "info", |r| {
            B::new().opt(r, "duration", |r| int(r, 0, 600000)).opt(r, "mimetype", |r| p(r, &["audio/ogg"])).opt(r, "size", |r| int(r, 0, 1 << 20))
        }),
        "m.video" => b.req("url", p(r, MXCS)).opt_nest(r, "info", |r| {
            B::new()
                .opt(r, "duration", |r| int(r, 0, 600000))
                .opt(r, "h", |r| int(r, 0, 2160))
                .opt(r, "w", |r| int(r, 0, 3840))
                .opt(r, "mimetype", |r| p(r, &["video/mp4"]))
                .opt(r, "size", |r| int(r, 0, 1 << 30))
        }),
        "m.location" => b.req("geo_uri", json!("geo:51.5008,0.1247")).opt_nest(r, "info", |r| B::new().opt(r, "thumbnail_url", |r| p(r, MXCS))),
        "m.server_notice" => b
            .req("server_notice_type", p(r, &["m.server_notice.usage_limit_reached", "org.example.notice"]))
            .opt(r, "admin_contact", |_| json!("mailto:admin@example.org"))
            .opt(r, "limit_type", |r| p(r, &["monthly_active_user", "org.example.limit"])),
        "m.key.verification.request" => b
            .req("methods", json!(["m.sas.v1"]))
            .req("from_device", json!("ABCDEFG"))
            .req("to", p(r, USERS)),
        _ => b.req("org.example.custom_field", json!({"a": [1, 2, 3]})),
    }
}

fn room_message(r: &mut Rng) -> B {
    let msgtype = *r.pick(&[
        "m.text", "m.text", "m.notice", "m.emote", "m.image", "m.file", "m.audio", "m.video", "m.location", "m.server_notice",
        "m.key.verification.request", "org.example.custom",
    ]);
    let mut b = message_body(r, msgtype);
    match r.below(6) {
        0 | 1 => b = b.nest("m.relates_to", relates_to(r)),
        2 => {
            // an edit: m.replace + m.new_content
            let mt = *r.pick(&["m.text", "m.notice", "org.example.custom"]);
            let nc = message_body(r, mt);
            b = b.nest("m.relates_to", B::new().req("rel_type", json!("m.replace")).req("event_id", p(r, EVENTS))).nest("m.new_content", nc);
        }
        _ => {}
    }
    if r.chance(1, 4) {
        b = b.nest("m.mentions", mentions(r));
    }
    b.extras(r)
}

fn encrypted(r: &mut Rng, to_device: bool) -> B {
    if to_device || r.chance(1, 4) {
        let mut ct = Map::new();
        ct.insert((*r.pick(B64)).to_owned(), json!({"body": *r.pick(B64), "type": r.below(2) as i64}));
        B::new().req("algorithm", json!("m.olm.v1.curve25519-aes-sha2")).req("sender_key", p(r, B64)).req("ciphertext", Value::Object(ct))
    } else {
        let b = B::new()
            .req("algorithm", json!("m.megolm.v1.aes-sha2"))
            .req("ciphertext", p(r, B64))
            .req("session_id", p(r, B64))
            .req("sender_key", p(r, B64))
            .req("device_id", json!("DEVICEID"));
        if r.chance(1, 3) {
            b.nest("m.relates_to", relates_to(r))
        } else {
            b
        }
    }
    .extras(r)
}

fn call_version(r: &mut Rng) -> Value {
    match r.below(4) {
        0 => json!(0),
        1 => json!("1"),
        // the string spelling of version 0 is NOT the variant V0 (documented): it must stay a string
        2 => json!("0"),
        _ => json!("org.example.voip"),
    }
}

fn verification_relation(r: &mut Rng) -> B {
    B::new().req("rel_type", json!("m.reference")).req("event_id", p(r, EVENTS))
}

/// key verification contents; `to_device`: `transaction_id` instead of `m.relates_to`
fn verification(r: &mut Rng, step: &str, to_device: bool) -> B {
    let b = match step {
        "request" => B::new()
            .req("from_device", json!("ABCDEFG"))
            .req("methods", json!(["m.sas.v1", "m.qr_code.show.v1", "org.example.method"]))
            .req("timestamp", int(r, 0, MAXI)),
        "ready" => B::new().req("from_device", json!("ABCDEFG")).req("methods", json!(["m.sas.v1", "m.reciprocate.v1"])),
        "start" => {
            if r.chance(2, 3) {
                B::new()
                    .req("from_device", json!("ABCDEFG"))
                    .req("method", json!("m.sas.v1"))
                    .req("key_agreement_protocols", json!(["curve25519-hkdf-sha256", "curve25519"]))
                    .req("hashes", json!(["sha256"]))
                    .req("message_authentication_codes", json!(["hkdf-hmac-sha256.v2", "hkdf-hmac-sha256"]))
                    .req("short_authentication_string", json!(["decimal", "emoji"]))
            } else {
                B::new().req("from_device", json!("ABCDEFG")).req("method", json!("m.reciprocate.v1")).req("secret", p(r, B64))
            }
        }
        "accept" => B::new()
            .req("method", json!("m.sas.v1"))
            .req("key_agreement_protocol", json!("curve25519-hkdf-sha256"))
            .req("hash", json!("sha256"))
            .req("message_authentication_code", json!("hkdf-hmac-sha256.v2"))
            .req("short_authentication_string", json!(["decimal"]))
            .req("commitment", p(r, B64)),
        "key" => B::new().req("key", p(r, B64)),
        "mac" => {
            let mut m = Map::new();
            m.insert("ed25519:ABCDEFG".to_owned(), p(r, B64));
            B::new().req("mac", Value::Object(m)).req("keys", p(r, B64))
        }
        "done" => B::new(),
        _ => B::new().req("code", p(r, &["m.user", "m.timeout", "m.mismatched_sas", "org.example.code"])).req("reason", p(r, TEXTS)),
    };
    let b = if to_device { b.req("transaction_id", json!("txn1234")) } else { b.nest("m.relates_to", verification_relation(r)) };
    b.extras(r)
}

fn power_levels(r: &mut Rng) -> B {
    let mut b = B::new();
    // (member, default): a member holding its default may be dropped when serializing
    for (k, dflt) in [("ban", 50), ("events_default", 0), ("invite", 0), ("kick", 50), ("redact", 50), ("state_default", 50), ("users_default", 0)] {
        if r.chance(1, 2) {
            let v = int(r, -100, 100);
            b = if v == json!(dflt) { b.soft(k, v) } else { b.req(k, v) };
        }
    }
    for (k, names) in [("events", &["m.room.name", "m.room.power_levels", "m.room.message", "org.example.custom", "m.reaction"][..]), ("users", USERS)] {
        if r.chance(1, 2) {
            let mut m = Map::new();
            for t in names {
                if r.chance(1, 2) {
                    m.insert((*t).to_owned(), int(r, -10, 100));
                }
            }
            // an empty map is the default
            b = if m.is_empty() { b.soft(k, Value::Object(m)) } else { b.req(k, Value::Object(m)) };
        }
    }
    b.opt_nest(r, "notifications", |r| {
        let v = int(r, 0, 100);
        if v == json!(50) { B::new().soft("room", v) } else if r.chance(1, 4) { B::new() } else { B::new().req("room", v) }
    })
    .extras(r)
}

fn push_rule(r: &mut Rng, kind: &str) -> Value {
    let mut rule = json!({
        "rule_id": match kind { "room" => ROOMS[0], "sender" => USERS[0], _ => ".org.example.rule" },
        "default": r.chance(1, 2),
        "enabled": r.chance(1, 2),
        "actions": match r.below(7) { 0 => json!(["notify"]), 3 => json!(["dont_notify"]), 4 => json!(["coalesce"]), 5 => json!(["notify", "org.example.action", {"set_tweak": "highlight", "value": false}]), 6 => json!(["notify", {"set_tweak": "org.example.tweak", "value": {"a": 1}}]), 1 => json!(["notify", {"set_tweak": "sound", "value": "default"}, {"set_tweak": "highlight"}]), _ => json!([]) },
    });
    if kind == "content" {
        rule["pattern"] = json!("al*ce");
    }
    if kind == "override" || kind == "underride" {
        rule["conditions"] = match r.below(4) {
            0 => json!([]),
            1 => json!([{"kind": "event_match", "key": "type", "pattern": "m.room.member"}]),
            2 => json!([{"kind": "contains_display_name"}, {"kind": "room_member_count", "is": "2"}]),
            _ => json!([{"kind": "sender_notification_permission", "key": "room"}, {"kind": "org.example.custom_condition", "x": 1}]),
        };
    }
    rule
}

/// One event content for (kind, type): returns the content, and the state key / type to use.
struct Gen {
    ty: String,
    b: B,
    state_key: Option<String>,
}

fn gen_state(r: &mut Rng) -> Gen {
    let ty = *r.pick(&[
        "m.room.create", "m.room.member", "m.room.member", "m.room.name", "m.room.topic", "m.room.avatar", "m.room.canonical_alias",
        "m.room.join_rules", "m.room.join_rules", "m.room.power_levels", "m.room.history_visibility", "m.room.guest_access",
        "m.room.encryption", "m.room.pinned_events", "m.room.server_acl", "m.room.tombstone", "m.room.third_party_invite",
        "m.room.aliases", "m.space.child", "m.space.parent", "m.policy.rule.user", "m.policy.rule.room", "m.policy.rule.server",
    ]);
    let mut sk = String::new();
    let b = match ty {
        "m.room.create" => {
            let mut b = B::new();
            if r.chance(2, 3) {
                b = b.req("creator", p(r, USERS));
            }
            match r.below(3) {
                0 => b = b.req("m.federate", json!(false)),
                1 => b = b.soft("m.federate", json!(true)),
                _ => {}
            }
            b.opt(r, "room_version", |r| p(r, &["1", "6", "9", "10", "11", "org.example.version"]))
                .opt_nest(r, "predecessor", |r| B::new().req("room_id", p(r, ROOMS)).req("event_id", p(r, EVENTS)))
                .opt(r, "type", |r| p(r, &["m.space", "org.example.room_type"]))
        }
        "m.room.member" => {
            sk = (*r.pick(USERS)).to_owned();
            let mut b = B::new().req("membership", p(r, &["join", "leave", "invite", "ban", "knock"]));
            match r.below(3) {
                0 => b = b.req("displayname", p(r, TEXTS)),
                1 => b = b.soft("displayname", json!(null)),
                _ => {}
            }
            match r.below(3) {
                0 => b = b.req("avatar_url", p(r, MXCS)),
                1 => b = b.soft("avatar_url", json!(null)),
                _ => {}
            }
            b.opt(r, "is_direct", |r| json!(r.chance(1, 2)))
                .opt(r, "reason", |r| p(r, TEXTS))
                .opt(r, "join_authorised_via_users_server", |r| p(r, USERS))
                .opt_nest(r, "third_party_invite", |r| {
                    let mut sigs = Map::new();
                    sigs.insert("example.org".to_owned(), json!({"ed25519:0": *r.pick(B64)}));
                    B::new().req("display_name", json!("alice")).nest(
                        "signed",
                        B::new().req("mxid", p(r, USERS)).req("token", json!("abc123")).req("signatures", Value::Object(sigs)),
                    )
                })
        }
        "m.room.name" => B::new().req("name", p(r, TEXTS)),
        "m.room.topic" => B::new().req("topic", p(r, TEXTS)),
        "m.room.avatar" => B::new().opt(r, "url", |r| p(r, MXCS)).opt_nest(r, "info", image_info),
        "m.room.canonical_alias" => {
            let mut b = B::new();
            match r.below(3) {
                0 => b = b.req("alias", p(r, ALIASES)),
                1 => b = b.soft("alias", json!(null)),
                _ => {}
            }
            match r.below(3) {
                0 => b = b.req("alt_aliases", json!([ALIASES[0], ALIASES[1]])),
                1 => b = b.soft("alt_aliases", json!([])),
                _ => {}
            }
            b
        }
        "m.room.join_rules" => {
            let rule = *r.pick(&["public", "invite", "knock", "private", "restricted", "knock_restricted", "org.example.rule"]);
            let b = B::new().req("join_rule", json!(rule));
            if rule == "restricted" || rule == "knock_restricted" {
                match r.below(3) {
                    0 => b.req("allow", json!([{"type": "m.room_membership", "room_id": ROOMS[0]}])),
                    1 => b.req("allow", json!([{"type": "m.room_membership", "room_id": ROOMS[1]}, {"type": "org.example.allow", "x": 1}])),
                    _ => b.soft("allow", json!([])),
                }
            } else if rule == "org.example.rule" {
                b.req("org.example.data", json!({"k": "v"}))
            } else {
                b
            }
        }
        "m.room.power_levels" => power_levels(r),
        "m.room.history_visibility" => B::new().req("history_visibility", p(r, &["invited", "joined", "shared", "world_readable", "org.example.v"])),
        "m.room.guest_access" => B::new().req("guest_access", p(r, &["can_join", "forbidden", "org.example.g"])),
        "m.room.encryption" => B::new()
            .req("algorithm", p(r, &["m.megolm.v1.aes-sha2", "org.example.alg"]))
            .opt(r, "rotation_period_ms", |r| int(r, 0, MAXI))
            .opt(r, "rotation_period_msgs", |r| int(r, 0, MAXI)),
        "m.room.pinned_events" => B::new().req("pinned", json!([EVENTS[0], EVENTS[1]])),
        "m.room.server_acl" => {
            let mut b = B::new().req("allow", json!(["*"])).req("deny", json!(["*.evil.com", "evil.com"]));
            match r.below(3) {
                0 => b = b.req("allow_ip_literals", json!(false)),
                1 => b = b.soft("allow_ip_literals", json!(true)),
                _ => {}
            }
            b
        }
        "m.room.tombstone" => B::new().req("body", p(r, TEXTS)).req("replacement_room", p(r, ROOMS)),
        "m.room.third_party_invite" => {
            sk = "pc98token".to_owned();
            B::new()
                .req("display_name", json!("Alice Margatroid"))
                .req("key_validity_url", json!("https://magic.forest/verifykey"))
                .req("public_key", p(r, B64))
                .opt(r, "public_keys", |r| json!([{"public_key": *r.pick(B64), "key_validity_url": "https://magic.forest/verifykey"}, {"public_key": *r.pick(B64)}]))
        }
        "m.room.aliases" => {
            sk = (*r.pick(SERVERS)).to_owned();
            B::new().req("aliases", json!([ALIASES[0]]))
        }
        "m.space.child" => {
            sk = (*r.pick(ROOMS)).to_owned();
            B::new().req("via", json!([SERVERS[0], SERVERS[1]])).opt(r, "order", |_| json!("lexicographically_compare_me")).opt(r, "suggested", |_| json!(true))
        }
        "m.space.parent" => {
            sk = (*r.pick(ROOMS)).to_owned();
            B::new().req("via", json!([SERVERS[0]])).opt(r, "canonical", |_| json!(true))
        }
        _ => {
            sk = "rule:@evil*:example.org".to_owned();
            B::new().req("entity", json!("@evil*:example.org")).req("reason", p(r, TEXTS)).req("recommendation", p(r, &["m.ban", "org.example.rec"]))
        }
    };
    Gen { ty: ty.to_owned(), b: b.extras(r), state_key: Some(sk) }
}

fn gen_message_like(r: &mut Rng) -> Gen {
    let ty = *r.pick(&[
        "m.room.message", "m.room.message", "m.room.message", "m.room.message", "m.room.redaction", "m.reaction", "m.sticker",
        "m.room.encrypted", "m.call.invite", "m.call.answer", "m.call.hangup", "m.call.candidates", "m.call.select_answer",
        "m.call.reject", "m.call.negotiate", "m.call.sdp_stream_metadata_changed", "org.matrix.call.sdp_stream_metadata_changed",
        "m.key.verification.ready", "m.key.verification.start", "m.key.verification.accept", "m.key.verification.key",
        "m.key.verification.mac", "m.key.verification.done", "m.key.verification.cancel",
    ]);
    let b = match ty {
        "m.room.message" => room_message(r),
        "m.room.redaction" => B::new().opt(r, "reason", |r| p(r, TEXTS)).req("redacts", p(r, EVENTS)).extras(r),
        "m.reaction" => B::new().nest("m.relates_to", B::new().req("rel_type", json!("m.annotation")).req("event_id", p(r, EVENTS)).req("key", p(r, &["\u{1F44D}", "+1", ""]))).extras(r),
        "m.sticker" => B::new().req("body", p(r, TEXTS)).req("url", p(r, MXCS)).nest("info", image_info(r)).extras(r),
        "m.room.encrypted" => encrypted(r, false),
        "m.call.invite" => B::new()
            .req("call_id", json!("c1591052749788"))
            .req("version", call_version(r))
            .req("lifetime", int(r, 0, 600000))
            .nest("offer", B::new().req("type", json!("offer")).req("sdp", json!("v=0\r\no=- 6584580628695956864 2 IN IP4 127.0.0.1")))
            .opt(r, "party_id", |_| json!("party1"))
            .opt(r, "invitee", |r| p(r, USERS))
            .extras(r),
        "m.call.answer" => B::new()
            .req("call_id", json!("c1"))
            .req("version", call_version(r))
            .nest("answer", B::new().req("type", json!("answer")).req("sdp", json!("v=0")))
            .opt(r, "party_id", |_| json!("party2"))
            .extras(r),
        "m.call.hangup" => B::new()
            .req("call_id", json!("c1"))
            .req("version", call_version(r))
            .opt(r, "party_id", |_| json!("party2"))
            .opt(r, "reason", |r| p(r, &["ice_failed", "invite_timeout", "user_hangup", "user_media_failed", "user_busy", "unknown_error", "org.example.reason"]))
            .extras(r),
        "m.call.candidates" => B::new()
            .req("call_id", json!("c1"))
            .req("version", call_version(r))
            .opt(r, "party_id", |_| json!("party2"))
            .req("candidates", json!([{"candidate": "candidate:863018703 1 udp 2122260223 10.9.64.156 43670 typ host generation 0", "sdpMid": "audio", "sdpMLineIndex": 0}, {"candidate": ""}]))
            .extras(r),
        "m.call.select_answer" => B::new().req("call_id", json!("c1")).req("version", call_version(r)).req("party_id", json!("p")).req("selected_party_id", json!("q")).extras(r),
        "m.call.reject" => B::new().req("call_id", json!("c1")).req("version", call_version(r)).req("party_id", json!("p")).extras(r),
        "m.call.negotiate" => B::new()
            .req("call_id", json!("c1"))
            .req("party_id", json!("p"))
            .req("lifetime", int(r, 0, 600000))
            .req("version", call_version(r))
            .nest("description", B::new().req("type", p(r, &["offer", "answer"])).req("sdp", json!("v=0")))
            .extras(r),
        "m.call.sdp_stream_metadata_changed" | "org.matrix.call.sdp_stream_metadata_changed" => B::new()
            .req("call_id", json!("c1"))
            .req("party_id", json!("p"))
            .req("version", call_version(r))
            .nest("sdp_stream_metadata", B::new().nest("streamid1", B::new().req("purpose", p(r, &["m.usermedia", "m.screenshare", "org.example.purpose"])).req("audio_muted", json!(true)).soft("video_muted", json!(false))))
            .extras(r),
        other => verification(r, other.rsplit('.').next().unwrap(), false),
    };
    Gen { ty: ty.to_owned(), b, state_key: None }
}

fn gen_to_device(r: &mut Rng) -> Gen {
    let ty = *r.pick(&[
        "m.dummy", "m.room_key", "m.room_key_request", "m.forwarded_room_key", "m.key.verification.request", "m.key.verification.ready",
        "m.key.verification.start", "m.key.verification.accept", "m.key.verification.key", "m.key.verification.mac",
        "m.key.verification.done", "m.key.verification.cancel", "m.room.encrypted", "m.secret.request", "m.secret.send",
    ]);
    let b = match ty {
        "m.dummy" => B::new().extras(r),
        "m.room_key" => B::new()
            .req("algorithm", json!("m.megolm.v1.aes-sha2"))
            .req("room_id", p(r, ROOMS))
            .req("session_id", p(r, B64))
            .req("session_key", p(r, B64))
            .extras(r),
        "m.room_key_request" => {
            let b = B::new().req("request_id", json!("1495474790150.19")).req("requesting_device_id", json!("RJYKSTBOIE"));
            if r.chance(2, 3) {
                b.req("action", json!("request")).nest(
                    "body",
                    B::new()
                        .req("algorithm", json!("m.megolm.v1.aes-sha2"))
                        .req("room_id", p(r, ROOMS))
                        .req("session_id", p(r, B64))
                        .req("sender_key", p(r, B64)),
                )
            } else {
                b.req("action", json!("request_cancellation"))
            }
            .extras(r)
        }
        "m.forwarded_room_key" => B::new()
            .req("algorithm", json!("m.megolm.v1.aes-sha2"))
            .req("room_id", p(r, ROOMS))
            .req("sender_key", p(r, B64))
            .req("session_id", p(r, B64))
            .req("session_key", p(r, B64))
            .req("sender_claimed_ed25519_key", p(r, B64))
            .req("forwarding_curve25519_key_chain", json!([B64[0]]))
            .extras(r),
        "m.room.encrypted" => encrypted(r, true),
        "m.secret.request" => {
            let b = B::new().req("requesting_device_id", json!("ABCDEFG")).req("request_id", json!("randomly_generated_id_9573"));
            if r.chance(2, 3) {
                b.req("action", json!("request")).req("name", p(r, &["m.cross_signing.master", "m.cross_signing.self_signing", "m.cross_signing.user_signing", "m.megolm_backup.v1", "org.example.secret"]))
            } else {
                b.req("action", json!("request_cancellation"))
            }
            .extras(r)
        }
        "m.secret.send" => B::new().req("request_id", json!("randomly_generated_id_9573")).req("secret", p(r, B64)).extras(r),
        other => verification(r, other.rsplit('.').next().unwrap(), true),
    };
    Gen { ty: ty.to_owned(), b, state_key: None }
}

fn gen_ephemeral(r: &mut Rng) -> Gen {
    if r.chance(1, 2) {
        Gen { ty: "m.typing".to_owned(), b: B::new().req("user_ids", json!([USERS[0], USERS[1]])).extras(r), state_key: None }
    } else {
        let mut content = Map::new();
        for ev in EVENTS.iter().take(1 + r.below(2)) {
            let mut per_type = Map::new();
            for rt in ["m.read", "m.read.private", "org.example.receipt"] {
                if r.chance(1, 2) {
                    let mut users = Map::new();
                    for u in USERS.iter().take(1 + r.below(2)) {
                        users.insert(
                            (*u).to_owned(),
                            match r.below(3) {
                                0 => json!({"ts": 1436451550453i64}),
                                1 => json!({"ts": 1436451550453i64, "thread_id": "main"}),
                                _ => json!({"ts": 1436451550453i64, "thread_id": EVENTS[0]}),
                            },
                        );
                    }
                    per_type.insert(rt.to_owned(), Value::Object(users));
                }
            }
            content.insert((*ev).to_owned(), Value::Object(per_type));
        }
        Gen { ty: "m.receipt".to_owned(), b: B { full: content.clone(), hard: content }, state_key: None }
    }
}

fn gen_global_account(r: &mut Rng) -> Gen {
    let ty = *r.pick(&["m.direct", "m.ignored_user_list", "m.push_rules", "m.identity_server", "m.secret_storage.default_key", "m.secret_storage.key.abcdefg", "m.secret_storage.key."]);
    let b = match ty {
        "m.direct" => {
            let mut m = Map::new();
            m.insert(USERS[0].to_owned(), json!([ROOMS[0], ROOMS[1]]));
            m.insert(USERS[1].to_owned(), json!([]));
            B { full: m.clone(), hard: m }
        }
        "m.ignored_user_list" => {
            let mut m = Map::new();
            m.insert(USERS[0].to_owned(), json!({}));
            B::new().req("ignored_users", Value::Object(m)).extras(r)
        }
        "m.push_rules" => {
            let mut g = Map::new();
            for kind in ["override", "content", "room", "sender", "underride"] {
                if r.chance(2, 3) {
                    g.insert(kind.to_owned(), json!([push_rule(r, kind)]));
                }
            }
            B::new().req("global", Value::Object(g)).extras(r)
        }
        "m.identity_server" => match r.below(2) {
            0 => B::new().req("base_url", json!("https://example.org")).extras(r),
            _ => B::new().soft("base_url", json!(null)).extras(r),
        },
        "m.secret_storage.default_key" => B::new().req("key", json!("abcdefg")).extras(r),
        // an algorithm ruma does not know: kept with its properties (the `algorithm` member once)
        _ if r.chance(1, 4) => B::new()
            .req("algorithm", json!("org.example.custom_alg"))
            .opt(r, "name", |_| json!("m.default"))
            .req("org.example.prop", json!({"a": 1})),
        _ => B::new()
            .req("algorithm", json!("m.secret_storage.v1.aes-hmac-sha2"))
            .opt(r, "name", |_| json!("m.default"))
            .opt(r, "iv", |r| p(r, B64))
            .opt(r, "mac", |r| p(r, B64))
            .opt_nest(r, "passphrase", |r| {
                B::new().req("algorithm", json!("m.pbkdf2")).req("salt", json!("MmMsAlty")).req("iterations", int(r, 1, 500000)).opt(r, "bits", |_| json!(512))
            }),
    };
    Gen { ty: ty.to_owned(), b, state_key: None }
}

fn gen_room_account(r: &mut Rng) -> Gen {
    let ty = *r.pick(&["m.fully_read", "m.tag", "m.marked_unread"]);
    let b = match ty {
        "m.fully_read" => B::new().req("event_id", p(r, EVENTS)).extras(r),
        "m.tag" => B::new().req("tags", json!({"m.favourite": {}, "u.work": {}, "m.lowpriority": {}, "m.server_notice": {}})).extras(r),
        _ => B::new().req("unread", json!(r.chance(1, 2))).extras(r),
    };
    Gen { ty: ty.to_owned(), b, state_key: None }
}

fn gen_unknown(r: &mut Rng) -> (String, Value) {
    let ty = *r.pick(&[
        "org.example.custom", "m.room.unknown_type", "m.room.messag", "m.room.message.extra", "M.ROOM.MESSAGE", "m.room.member ", "",
        "m", "m.secret_storage.key", "m.secret_storage.keyx", "io.ruma.\u{e9}\u{1F600}", "m.call", "m.key.verification.unknown", "m.direct.x",
    ]);
    let content = match r.below(4) {
        0 => json!({}),
        1 => json!({"anything": ["goes", 1, null, {"deep": {"er": true}}]}),
        2 => json!({"body": "looks like a message", "msgtype": "m.text"}),
        _ => json!({"membership": 5}),
    };
    (ty.to_owned(), content)
}

// ---------------------------------------------------------------------------------------------
// Envelopes
// ---------------------------------------------------------------------------------------------
const RULES: &[(&str, RedactionRules)] = &[
    ("1", RedactionRules::V1), ("6", RedactionRules::V6), ("8", RedactionRules::V8), ("9", RedactionRules::V9), ("11", RedactionRules::V11),
];

fn redaction_event(r: &mut Rng, sync: bool) -> Value {
    let mut ev = json!({
        "type": "m.room.redaction",
        "content": {},
        "event_id": *r.pick(EVENTS),
        "sender": *r.pick(USERS),
        "origin_server_ts": int(r, 0, MAXI),
    });
    match r.below(3) {
        0 => ev["redacts"] = json!(EVENTS[0]),
        1 => ev["content"] = json!({"redacts": EVENTS[0], "reason": "spam"}),
        _ => {
            ev["redacts"] = json!(EVENTS[0]);
            ev["content"] = json!({"reason": "spam"});
        }
    }
    if !sync {
        ev["room_id"] = json!(ROOMS[0]);
    }
    if r.chance(1, 3) {
        ev["unsigned"] = json!({"age": 1257});
    }
    ev
}

/// bundled aggregations of a message-like event (`unsigned.m.relations`)
fn bundled_relations(r: &mut Rng) -> Value {
    let mut rel = Map::new();
    if r.chance(1, 2) {
        rel.insert(
            "m.thread".to_owned(),
            json!({
                "latest_event": {
                    "type": "m.room.message", "event_id": EVENTS[1], "sender": USERS[1], "origin_server_ts": 1632491098485i64,
                    "content": {"msgtype": "m.text", "body": "reply in thread",
                        "m.relates_to": {"rel_type": "m.thread", "event_id": EVENTS[0]}},
                },
                "count": int(r, 0, 1000),
                "current_user_participated": r.chance(1, 2),
            }),
        );
    }
    if r.chance(1, 2) {
        rel.insert("m.reference".to_owned(), json!({"chunk": [{"event_id": EVENTS[0]}, {"event_id": EVENTS[2]}]}));
    }
    if r.chance(1, 3) {
        rel.insert("org.example.unknown_relation".to_owned(), json!({"x": [1, 2]}));
    }
    Value::Object(rel)
}

fn unsigned_original(r: &mut Rng, state_prev: Option<&Value>) -> Option<Value> {
    if state_prev.is_none() && r.chance(1, 6) {
        return Some(json!({"age": 1, "m.relations": bundled_relations(r)}));
    }
    match r.below(5) {
        0 => None,
        1 => Some(json!({})),
        2 => Some(json!({"age": 1234})),
        3 => Some(json!({"age": -5, "transaction_id": "m1234.5", "x.unknown": 1})),
        _ => {
            let mut u = json!({"age": 99});
            if let Some(pc) = state_prev {
                u["prev_content"] = pc.clone();
            }
            // an explicit null is the same as no redacted_because
            if r.chance(1, 3) {
                u["redacted_because"] = json!(null);
            }
            Some(u)
        }
    }
}

/// Full-format room event from a generated content; `redact_as`: apply the redaction algorithm of that room version.
fn room_event(r: &mut Rng, g: &Gen, redact_as: Option<&RedactionRules>, content_override: Option<Value>) -> Value {
    let mut content = content_override.unwrap_or_else(|| Value::Object(g.b.full.clone()));
    let mut ev = Map::new();
    ev.insert("type".to_owned(), json!(g.ty));
    ev.insert("event_id".to_owned(), p(r, EVENTS));
    ev.insert("sender".to_owned(), p(r, USERS));
    ev.insert("origin_server_ts".to_owned(), int(r, 0, MAXI));
    ev.insert("room_id".to_owned(), p(r, ROOMS));
    if let Some(sk) = &g.state_key {
        ev.insert("state_key".to_owned(), json!(sk));
    }
    if g.ty == "m.room.redaction" && redact_as.is_none() {
        // v1-v10: top-level `redacts`; v11: inside content (the generator puts it in content; mirror it sometimes)
        match r.below(3) {
            0 => {
                let red = content.as_object_mut().and_then(|c| c.remove("redacts"));
                if let Some(x) = red {
                    ev.insert("redacts".to_owned(), x);
                }
            }
            1 => {
                ev.insert("redacts".to_owned(), content["redacts"].clone());
            }
            _ => {}
        }
    }
    match redact_as {
        Some(rules) => {
            // leftover members in the content of a redacted event (a server that redacts by newer or laxer
            // rules, an extension key): unknown members never cause failure (seed4 C18-1)
            let leftover = r.below(6);
            if leftover != 0 {
                if let Some(CanonicalJsonValue::Object(mut c)) = to_canonical(&content) {
                    let _ = redact_content_in_place(&mut c, rules, g.ty.as_str());
                    content = canonical_to_value(&CanonicalJsonValue::Object(c));
                }
            }
            if let Some(c) = content.as_object_mut() {
                match leftover {
                    1 => {
                        c.insert("org.example.extra".to_owned(), json!({"a": [1, "x"]}));
                    }
                    2 => {
                        c.insert("m.relates_to".to_owned(), json!({"rel_type": "m.reference", "event_id": EVENTS[0]}));
                    }
                    _ => {}
                }
            }
            let mut u = json!({"redacted_because": redaction_event(r, false)});
            if r.chance(1, 3) {
                u["age"] = json!(77);
            }
            ev.insert("unsigned".to_owned(), u);
        }
        None => {
            let prev = if g.state_key.is_some() && r.chance(1, 2) { Some(content.clone()) } else { None };
            if let Some(u) = unsigned_original(r, prev.as_ref()) {
                ev.insert("unsigned".to_owned(), u);
            }
        }
    }
    ev.insert("content".to_owned(), content);
    if r.chance(1, 3) {
        // members of the federation format / unknown members: must be ignored
        ev.insert("depth".to_owned(), json!(12));
        ev.insert("origin".to_owned(), json!("example.org"));
        ev.insert("hashes".to_owned(), json!({"sha256": B64[0]}));
        ev.insert("prev_events".to_owned(), json!([EVENTS[0]]));
        ev.insert("x.unknown.top".to_owned(), json!({"a": 1}));
    }
    Value::Object(ev)
}

fn without(ev: &Value, keys: &[&str]) -> Value {
    let mut m = ev.as_object().unwrap().clone();
    for k in keys {
        m.remove(*k);
    }
    Value::Object(m)
}

fn only(ev: &Value, keys: &[&str]) -> Value {
    let m = ev.as_object().unwrap();
    Value::Object(keys.iter().filter_map(|k| m.get(*k).map(|v| ((*k).to_owned(), v.clone()))).collect())
}

fn case_event(target: &str, ev: &Value, shaped: bool, perm: u64) -> Option<Sx> {
    let c = to_canonical(ev)?;
    Some(Sx::L(vec![Sx::N(0), Sx::s(target), json_to_sx(&c), Sx::b(shaped), Sx::N(perm as i128)]))
}

fn emit_event(em: &mut Emitter, tag: &str, target: &str, ev: &Value, shaped: bool, perm: u64) {
    if let Some(case) = case_event(target, ev, shaped, perm) {
        let (t, e) = (target.to_owned(), ev.clone());
        em.emit(tag, case, guarded(move || run_event(&t, &e, perm)));
    }
}

fn emit_content(em: &mut Emitter, tag: &str, kind: &str, g: &Gen, perm: u64) {
    let (Some(full), Some(hard)) = (to_canonical(&Value::Object(g.b.full.clone())), to_canonical(&Value::Object(g.b.hard.clone()))) else { return };
    let case = Sx::L(vec![Sx::N(1), Sx::s(kind), Sx::s(&g.ty), json_to_sx(&full), json_to_sx(&hard), Sx::N(perm as i128)]);
    let (k, ty, f, h) = (kind.to_owned(), g.ty.clone(), Value::Object(g.b.full.clone()), Value::Object(g.b.hard.clone()));
    em.emit(tag, case, guarded(move || run_content(&k, &ty, &f, &h, perm)));
}

/// envelope mutations the model can judge: drop / retype one member
fn malformed(r: &mut Rng, ev: &Value) -> Value {
    let mut m = ev.as_object().unwrap().clone();
    // members of the event only (a member unknown to the format is ignored anyway); the `unsigned` of a
    // redacted event is left alone (without it the redacted content would be read as an original one)
    let redacted = m.get("unsigned").and_then(|u| u.get("redacted_because")).is_some_and(|x| !x.is_null());
    let keys: Vec<&str> = ["type", "content", "event_id", "sender", "origin_server_ts", "room_id", "state_key", "unsigned"]
        .into_iter()
        .filter(|k| m.contains_key(*k) && !(redacted && *k == "unsigned"))
        .collect();
    let k = *r.pick(&keys);
    let original = m.get(k).cloned();
    match if k == "content" { 0 } else { r.below(6) } {
        0 => {
            m.remove(k);
        }
        1 => {
            m.insert(k.to_owned(), json!(null));
        }
        2 => {
            m.insert(k.to_owned(), json!(5));
        }
        3 => {
            m.insert(k.to_owned(), json!(true));
        }
        4 => {
            if k == "origin_server_ts" {
                m.insert(k.to_owned(), json!(*r.pick(&[-1i64, MAXI + 1, i64::MAX])));
            } else if k == "unsigned" {
                m.insert(k.to_owned(), json!({"redacted_because": *r.pick(&[json!(true), json!(5), json!({}), json!({"event_id": EVENTS[0]}), json!("x")])}));
            } else {
                m.insert(k.to_owned(), json!({"x": 1}));
            }
        }
        _ => {
            m.insert(k.to_owned(), json!("a string"));
        }
    }
    // a typed state key (empty / user id / ..) stays what it was when it stays a string
    if k == "state_key" && m.get(k).is_some_and(|v| v.is_string()) {
        if let Some(o) = original.filter(|o| o.is_string()) {
            m.insert(k.to_owned(), o);
        }
    }
    // keep id-typed members valid identifiers when they stay strings (identifier grammar is C10's)
    for (k, good) in [("event_id", EVENTS[0]), ("sender", USERS[0]), ("room_id", ROOMS[0])] {
        if m.get(k).is_some_and(|v| v.is_string()) {
            m.insert(k.to_owned(), json!(good));
        }
    }
    Value::Object(m)
}

const TIMELINE_TARGETS: &[&str] = &["AnyTimelineEvent", "AnySyncTimelineEvent"];

pub fn run(tier: &str, seed: u64, em: &mut Emitter) {
    let mut r = Rng::new(seed ^ 0xC18);
    let n = if tier == "thorough" { 20000 } else { 1500 };

    // --- systematic: every declared type string of every kind (and near-misses) with a minimal envelope,
    //     into every enum: dispatch only (content of a known type is `{}` => may be rejected, so `shaped` = 0
    //     and the outcome is compared through the model only when the implementation accepts... the model
    //     predicts acceptance from the envelope alone, so only unknown types are emitted here)
    for _ in 0..n / 3 {
        let (ty, content) = gen_unknown(&mut r);
        let g = Gen { ty, b: B { full: content.as_object().cloned().unwrap_or_default(), hard: Map::new() }, state_key: if r.chance(1, 2) { Some("".to_owned()) } else { None } };
        let redact = if r.chance(1, 4) { Some(&RULES[r.below(RULES.len())].1) } else { None };
        let full = room_event(&mut r, &g, redact, None);
        let perm = r.next();
        let state = g.state_key.is_some();
        for t in TIMELINE_TARGETS {
            let ev = if *t == "AnySyncTimelineEvent" { without(&full, &["room_id"]) } else { full.clone() };
            emit_event(em, "systematic-unknown-type", t, &ev, true, perm);
        }
        if state {
            emit_event(em, "systematic-unknown-type", "AnyStateEvent", &full, true, perm);
            emit_event(em, "systematic-unknown-type", "AnySyncStateEvent", &without(&full, &["room_id"]), true, perm);
            emit_event(em, "systematic-unknown-type", "AnyStrippedStateEvent", &only(&full, &["type", "content", "sender", "state_key"]), true, perm);
            emit_event(em, "systematic-unknown-type", "AnyInitialStateEvent", &only(&full, &["type", "content", "state_key"]), true, perm);
        } else {
            emit_event(em, "systematic-unknown-type", "AnyMessageLikeEvent", &full, true, perm);
            emit_event(em, "systematic-unknown-type", "AnySyncMessageLikeEvent", &without(&full, &["room_id"]), true, perm);
            emit_event(em, "systematic-unknown-type", "AnyToDeviceEvent", &only(&full, &["type", "content", "sender"]), true, perm);
            emit_event(em, "systematic-unknown-type", "AnyEphemeralRoomEvent", &only(&full, &["type", "content", "room_id"]), true, perm);
            emit_event(em, "systematic-unknown-type", "AnySyncEphemeralRoomEvent", &only(&full, &["type", "content"]), true, perm);
            emit_event(em, "systematic-unknown-type", "AnyGlobalAccountDataEvent", &only(&full, &["type", "content"]), true, perm);
            emit_event(em, "systematic-unknown-type", "AnyRoomAccountDataEvent", &only(&full, &["type", "content"]), true, perm);
        }
    }

    // --- random structured: events from the schemas
    for i in 0..n {
        let perm = r.next();
        // state / message-like room events
        let g = if i % 2 == 0 { gen_state(&mut r) } else { gen_message_like(&mut r) };
        let kind = if g.state_key.is_some() { "State" } else { "MessageLike" };
        emit_content(em, "content-roundtrip", kind, &g, perm);
        let redact = if r.chance(1, 3) { Some(&RULES[r.below(RULES.len())].1) } else { None };
        let full = room_event(&mut r, &g, redact, None);
        let sync = without(&full, &["room_id"]);
        let tag = if redact.is_some() { "schema-redacted" } else { "schema-original" };
        emit_event(em, tag, "AnyTimelineEvent", &full, true, perm);
        emit_event(em, tag, "AnySyncTimelineEvent", &sync, true, perm);
        if g.state_key.is_some() {
            emit_event(em, tag, "AnyStateEvent", &full, true, perm);
            emit_event(em, tag, "AnySyncStateEvent", &sync, true, perm);
            if redact.is_none() {
                emit_event(em, "schema-stripped", "AnyStrippedStateEvent", &only(&full, &["type", "content", "sender", "state_key"]), true, perm);
                emit_event(em, "schema-initial", "AnyInitialStateEvent", &only(&full, &["type", "content", "state_key"]), true, perm);
            } else {
                // stripped state may carry redacted content too
                emit_event(em, "schema-stripped", "AnyStrippedStateEvent", &only(&full, &["type", "content", "sender", "state_key"]), true, perm);
            }
        } else {
            emit_event(em, tag, "AnyMessageLikeEvent", &full, true, perm);
            emit_event(em, tag, "AnySyncMessageLikeEvent", &sync, true, perm);
        }
        // malformed envelopes (the model predicts the rejection)
        if i % 3 == 0 {
            let bad = malformed(&mut r, &full);
            for t in ["AnyTimelineEvent", if g.state_key.is_some() { "AnyStateEvent" } else { "AnyMessageLikeEvent" }] {
                emit_event(em, "malformed-envelope", t, &bad, false, perm);
            }
            let bad = malformed(&mut r, &sync);
            emit_event(em, "malformed-envelope", "AnySyncTimelineEvent", &bad, false, perm);
        }
        // the other kinds
        if i % 4 == 0 {
            let g = gen_to_device(&mut r);
            emit_content(em, "content-roundtrip", "ToDevice", &g, perm);
            let ev = json!({"type": g.ty, "sender": *r.pick(USERS), "content": Value::Object(g.b.full.clone())});
            emit_event(em, "schema-to-device", "AnyToDeviceEvent", &ev, true, perm);
            let g = gen_ephemeral(&mut r);
            emit_content(em, "content-roundtrip", "EphemeralRoom", &g, perm);
            let ev = json!({"type": g.ty, "room_id": *r.pick(ROOMS), "content": Value::Object(g.b.full.clone())});
            emit_event(em, "schema-ephemeral", "AnyEphemeralRoomEvent", &ev, true, perm);
            emit_event(em, "schema-ephemeral", "AnySyncEphemeralRoomEvent", &without(&ev, &["room_id"]), true, perm);
            let g = gen_global_account(&mut r);
            emit_content(em, "content-roundtrip", "GlobalAccountData", &g, perm);
            let ev = json!({"type": g.ty, "content": Value::Object(g.b.full.clone())});
            emit_event(em, "schema-account-data", "AnyGlobalAccountDataEvent", &ev, true, perm);
            let g = gen_room_account(&mut r);
            emit_content(em, "content-roundtrip", "RoomAccountData", &g, perm);
            let ev = json!({"type": g.ty, "content": Value::Object(g.b.full.clone())});
            emit_event(em, "schema-account-data", "AnyRoomAccountDataEvent", &ev, true, perm);
        }
        // Raw: the event text with insignificant whitespace, escapes and duplicate members
        if i % 5 == 0 {
            let mut text = text_of(&full, perm);
            match r.below(5) {
                0 => text = format!("  {text}\n"),
                1 => text = spaced(&text),
                2 => text = text.replacen('{', "{\"type\":\"first.duplicate\",", 1),
                3 => text = text.replace("\"sender\"", "\"\\u0073ender\""),
                _ => {}
            }
            let field = *r.pick(&["type", "content", "sender", "missing", "unsigned", "x.unknown.top", ""]);
            let (t, f) = (text.clone(), field.to_owned());
            em.emit("raw", Sx::L(vec![Sx::N(2), Sx::s(&text), Sx::s(field)]), guarded(move || run_raw(&t, &f)));
        }
        // robustness: ill-typed content / truncated text: only a panic counts
        if i % 5 == 1 {
            let mut bad = full.clone();
            bad["content"] = crate::jgen::gen_json(&mut r, 2).into_value();
            let text = text_of(&bad, perm);
            let cut = if r.chance(1, 3) {
                let mut n = text.len() - 1 - r.below(text.len().min(8));
                while !text.is_char_boundary(n) {
                    n -= 1;
                }
                text[..n].to_owned()
            } else {
                text
            };
            {
                for t in ["AnyTimelineEvent", "AnySyncStateEvent", "AnyToDeviceEvent"] {
                    let (tt, c) = (t.to_owned(), cut.clone());
                    em.emit("robustness", Sx::L(vec![Sx::N(3), Sx::s(t), Sx::s(&cut)]), guarded(move || run_robust(&tt, &c)));
                }
            }
        }
    }
    // the content clause through the derive model (schemas regenerated from the source)
    crate::c18_schema::run(tier, seed, em);
    // a few non-object Raw texts
    for text in ["null", "5", "\"str\"", "[1,2]", " {} ", "{\"a\":1,\"a\":2}", "{\"a\":{\"b\":[ 1 , 2 ]}}"] {
        for field in ["a", "b"] {
            em.emit("raw", Sx::L(vec![Sx::N(2), Sx::s(text), Sx::s(field)]), guarded(move || run_raw(text, field)));
        }
    }
}

trait IntoValue {
    fn into_value(self) -> Value;
}
impl IntoValue for CanonicalJsonValue {
    fn into_value(self) -> Value {
        canonical_to_value(&self)
    }
}

pub fn replay(case: &Sx) -> Option<Sx> {
    let l = case.as_list()?;
    match (l.first()?.as_int()?, &l[1..]) {
        (0, [target, ev, _shaped, perm]) => {
            let (target, ev, perm) = (target.as_string()?, canonical_to_value(&sx_to_json(ev)?), perm.as_int()? as u64);
            Some(guarded(move || run_event(&target, &ev, perm)))
        }
        (1, [kind, ty, full, hard, perm]) => {
            let (kind, ty) = (kind.as_string()?, ty.as_string()?);
            let (full, hard, perm) = (canonical_to_value(&sx_to_json(full)?), canonical_to_value(&sx_to_json(hard)?), perm.as_int()? as u64);
            Some(guarded(move || run_content(&kind, &ty, &full, &hard, perm)))
        }
        (2, [text, field]) => {
            let (text, field) = (text.as_string()?, field.as_string()?);
            Some(guarded(move || run_raw(&text, &field)))
        }
        (3, [target, text]) => {
            let (target, text) = (target.as_string()?, text.as_string()?);
            Some(guarded(move || run_robust(&target, &text)))
        }
        (4, [kind, ty, content]) => crate::c18_schema::replay(kind, ty, content),
        _ => None,
    }
}

pub fn dump(_dir: &str) {}
