//! C08 — event authorization: cases and the verdict of the real `ruma_state_res::auth_check`.
//!
//! case  = ( version event state oracle )
//! event = ( id room sender type skey? content ( prev.. ) ( auth.. ) redacts? )
//! state = ( ( type key event ) .. )            first entry for a key wins
//! oracle = ( ( key_id signature public_key ) .. )  triples on which ruma's third-party-invite
//!          signature check (key id parses, both decode, verify_canonical_json_bytes Ok) succeeds
//! outcome = (0 ()) accepted | (1 0) rejected | (2) panic
use std::cell::RefCell;

use ruma_common::{
    serde::{base64::Standard, Base64},
    third_party_invite::IdentityServerBase64PublicKey,
    AnyKeyName, CanonicalJsonObject, CanonicalJsonValue, MilliSecondsSinceUnixEpoch, OwnedEventId, OwnedRoomId,
    OwnedUserId, RoomId, RoomVersionId, SigningKeyId, UserId,
};
use ruma_events::{StateEventType, TimelineEventType};
use ruma_state_res::{auth_check, Event};
use serde_json::{json, value::RawValue};

use crate::{
    jgen::{gen_json, gen_str},
    rng::Rng,
    sx::{guarded, obj_to_sx, sx_to_obj, Sx},
    Emitter,
};

// ---------------------------------------------------------------------------------------------
// Events, state, the Event trait
// ---------------------------------------------------------------------------------------------
#[derive(Clone, Debug)]
pub struct Ev {
    pub id: OwnedEventId,
    pub room: OwnedRoomId,
    pub sender: OwnedUserId,
    pub ty: TimelineEventType,
    pub skey: Option<String>,
    pub content: CanonicalJsonObject,
    pub raw: Box<RawValue>,
    pub prev: Vec<OwnedEventId>,
    pub auth: Vec<OwnedEventId>,
    pub redacts: Option<OwnedEventId>,
}

impl Event for Ev {
    type Id = OwnedEventId;
    fn event_id(&self) -> &Self::Id {
        &self.id
    }
    fn room_id(&self) -> &RoomId {
        &self.room
    }
    fn sender(&self) -> &UserId {
        &self.sender
    }
    fn origin_server_ts(&self) -> MilliSecondsSinceUnixEpoch {
        MilliSecondsSinceUnixEpoch(js_int::UInt::MIN)
    }
    fn event_type(&self) -> &TimelineEventType {
        &self.ty
    }
    fn content(&self) -> &RawValue {
        &self.raw
    }
    fn state_key(&self) -> Option<&str> {
        self.skey.as_deref()
    }
    fn prev_events(&self) -> Box<dyn DoubleEndedIterator<Item = &Self::Id> + '_> {
        Box::new(self.prev.iter())
    }
    fn auth_events(&self) -> Box<dyn DoubleEndedIterator<Item = &Self::Id> + '_> {
        Box::new(self.auth.iter())
    }
    fn redacts(&self) -> Option<&Self::Id> {
        self.redacts.as_ref()
    }
}

pub fn cj(v: serde_json::Value) -> CanonicalJsonValue {
    CanonicalJsonValue::try_from(v).expect("canonical json")
}

pub fn cobj(v: serde_json::Value) -> CanonicalJsonObject {
    match cj(v) {
        CanonicalJsonValue::Object(o) => o,
        _ => panic!("object expected"),
    }
}

pub fn mk_ev(id: &str, room: &str, sender: &str, ty: &str, skey: Option<&str>, content: CanonicalJsonObject) -> Ev {
    let raw = serde_json::value::to_raw_value(&content).unwrap();
    Ev {
        id: OwnedEventId::try_from(id).expect("event id"),
        room: OwnedRoomId::try_from(room).expect("room id"),
        sender: OwnedUserId::try_from(sender).expect("user id"),
        ty: TimelineEventType::from(ty),
        skey: skey.map(str::to_owned),
        content,
        raw,
        prev: vec![],
        auth: vec![],
        redacts: None,
    }
}

impl Ev {
    pub fn set_content(&mut self, content: CanonicalJsonObject) {
        self.raw = serde_json::value::to_raw_value(&content).unwrap();
        self.content = content;
    }
}

pub type State = Vec<((String, String), Ev)>;

#[derive(Clone)]
pub struct Case {
    pub v: u32,
    pub ev: Ev,
    pub state: State,
}

pub fn state_get<'a>(st: &'a State, ty: &str, key: &str) -> Option<&'a Ev> {
    st.iter().find(|((t, k), _)| t == ty && k == key).map(|(_, e)| e)
}

pub fn rules_of(v: u32) -> ruma_common::room_version_rules::AuthorizationRules {
    RoomVersionId::try_from(v.to_string().as_str()).unwrap().rules().unwrap().authorization
}

/// Run the real `auth_check`; returns the verdict and the (type, key) pairs `fetch_state` was asked for.
pub fn run_auth(v: u32, ev: &Ev, state: &State) -> (Sx, Vec<(String, String)>) {
    let rules = rules_of(v);
    let reads: RefCell<Vec<(String, String)>> = RefCell::new(vec![]);
    let out = {
        let reads = &reads;
        let ev = ev.clone();
        let f = std::panic::AssertUnwindSafe(move || {
            let fetch = |ty: &StateEventType, key: &str| -> Option<Ev> {
                reads.borrow_mut().push((ty.to_string(), key.to_owned()));
                state_get(state, &ty.to_string(), key).cloned()
            };
            match auth_check(&rules, ev, fetch) {
                Ok(()) => Sx::ok(Sx::L(vec![])),
                Err(_) => Sx::err(0),
            }
        });
        guarded(f)
    };
    (out, reads.into_inner())
}

// ---------------------------------------------------------------------------------------------
// Wire encoding
// ---------------------------------------------------------------------------------------------
pub fn ev_to_sx(e: &Ev) -> Sx {
    Sx::L(vec![
        Sx::s(e.id.as_str()),
        Sx::s(e.room.as_str()),
        Sx::s(e.sender.as_str()),
        Sx::s(&e.ty.to_string()),
        Sx::opt(e.skey.as_deref().map(Sx::s)),
        obj_to_sx(&e.content),
        Sx::L(e.prev.iter().map(|i| Sx::s(i.as_str())).collect()),
        Sx::L(e.auth.iter().map(|i| Sx::s(i.as_str())).collect()),
        Sx::opt(e.redacts.as_ref().map(|i| Sx::s(i.as_str()))),
    ])
}

pub fn state_to_sx(st: &State) -> Sx {
    Sx::L(st.iter().map(|((t, k), e)| Sx::L(vec![Sx::s(t), Sx::s(k), ev_to_sx(e)])).collect())
}

pub fn sx_to_ev(x: &Sx) -> Option<Ev> {
    let l = x.as_list()?;
    if l.len() != 9 {
        return None;
    }
    let skey = match l[4].as_opt()? {
        None => None,
        Some(s) => Some(s.as_string()?),
    };
    let mut e = Ev {
        id: OwnedEventId::try_from(l[0].as_string()?).ok()?,
        room: OwnedRoomId::try_from(l[1].as_string()?).ok()?,
        sender: OwnedUserId::try_from(l[2].as_string()?).ok()?,
        ty: TimelineEventType::from(l[3].as_string()?),
        skey,
        content: CanonicalJsonObject::new(),
        raw: RawValue::from_string("{}".to_owned()).unwrap(),
        prev: vec![],
        auth: vec![],
        redacts: None,
    };
    e.set_content(sx_to_obj(&l[5])?);
    for i in l[6].as_list()? {
        e.prev.push(OwnedEventId::try_from(i.as_string()?).ok()?);
    }
    for i in l[7].as_list()? {
        e.auth.push(OwnedEventId::try_from(i.as_string()?).ok()?);
    }
    if let Some(r) = l[8].as_opt()? {
        e.redacts = Some(OwnedEventId::try_from(r.as_string()?).ok()?);
    }
    Some(e)
}

pub fn sx_to_state(x: &Sx) -> Option<State> {
    let mut st = vec![];
    for it in x.as_list()? {
        let l = it.as_list()?;
        st.push(((l.first()?.as_string()?, l.get(1)?.as_string()?), sx_to_ev(l.get(2)?)?));
    }
    Some(st)
}

/// The `signed` object ruma would extract from the member event's `third_party_invite`.
fn signed_of(ev: &Ev) -> Option<CanonicalJsonObject> {
    match ev.content.get("third_party_invite")? {
        CanonicalJsonValue::Object(t) => t.get("signed")?.as_object().cloned(),
        CanonicalJsonValue::Array(a) if a.len() == 1 => a[0].as_object().cloned(),
        _ => None,
    }
}

fn key_strings(te: &Ev, out: &mut Vec<String>) {
    if let Some(CanonicalJsonValue::String(s)) = te.content.get("public_key") {
        out.push(s.clone());
    }
    if let Some(CanonicalJsonValue::Array(a)) = te.content.get("public_keys") {
        for k in a {
            match k {
                CanonicalJsonValue::Object(o) => {
                    if let Some(CanonicalJsonValue::String(s)) = o.get("public_key") {
                        out.push(s.clone());
                    }
                }
                CanonicalJsonValue::Array(b) => {
                    if let Some(CanonicalJsonValue::String(s)) = b.first() {
                        out.push(s.clone());
                    }
                }
                _ => {}
            }
        }
    }
}

/// One application of the signature check of room_member.rs:311-337 (ruma-signatures is C02's subject).
fn verify_one(kid: &str, sig: &str, pk: &str, canonical: &str) -> bool {
    let Ok(parsed) = <&SigningKeyId<AnyKeyName>>::try_from(kid) else { return false };
    let alg = parsed.algorithm();
    let Ok(sig) = Base64::<Standard>::parse(sig) else { return false };
    let Ok(pk) = IdentityServerBase64PublicKey(pk.to_owned()).decode() else { return false };
    ruma_signatures::verify_canonical_json_bytes(&alg, &pk, sig.as_bytes(), canonical.as_bytes()).is_ok()
}

pub fn oracle(ev: &Ev, state: &State) -> Sx {
    let mut out = vec![];
    let Some(signed) = signed_of(ev) else { return Sx::L(out) };
    let Ok(canonical) = ruma_signatures::canonical_json(&signed) else { return Sx::L(out) };
    let mut keys = vec![];
    for ((t, _), e) in state {
        if t == "m.room.third_party_invite" {
            key_strings(e, &mut keys);
        }
    }
    keys.sort();
    keys.dedup();
    if let Some(CanonicalJsonValue::Object(sigs)) = signed.get("signatures") {
        for ent in sigs.values() {
            if let CanonicalJsonValue::Object(ent) = ent {
                for (kid, sv) in ent {
                    if let CanonicalJsonValue::String(sg) = sv {
                        for pk in &keys {
                            if verify_one(kid, sg, pk, &canonical) {
                                out.push(Sx::L(vec![Sx::s(kid), Sx::s(sg), Sx::s(pk)]));
                            }
                        }
                    }
                }
            }
        }
    }
    Sx::L(out)
}

pub fn case_sx(c: &Case) -> Sx {
    Sx::L(vec![Sx::n(c.v), ev_to_sx(&c.ev), state_to_sx(&c.state), oracle(&c.ev, &c.state)])
}

pub fn sx_to_case(x: &Sx) -> Option<Case> {
    let l = x.as_list()?;
    let v = l.first()?.as_int()?;
    if !(1..=11).contains(&v) {
        return None;
    }
    Some(Case { v: v as u32, ev: sx_to_ev(l.get(1)?)?, state: sx_to_state(l.get(2)?)? })
}

// ---------------------------------------------------------------------------------------------
// World building
// ---------------------------------------------------------------------------------------------
pub const ROOM: &str = "!room:s1";
pub const CREATOR: &str = "@creator:s1";
pub const ALICE: &str = "@alice:s1";
pub const BOB: &str = "@bob:s1";
pub const DAVE: &str = "@dave:s1";
pub const EVE: &str = "@eve:s2";

pub fn eid(v: u32, name: &str) -> String {
    if v <= 2 {
        format!("${name}:s1")
    } else {
        format!("${name}")
    }
}

/// Membership shapes of a user in the current state.
pub const N_MEMB: usize = 8;
pub fn memb_content(i: usize) -> Option<CanonicalJsonObject> {
    match i {
        0 => None,
        1 => Some(cobj(json!({"membership": "join"}))),
        2 => Some(cobj(json!({"membership": "invite"}))),
        3 => Some(cobj(json!({"membership": "leave"}))),
        4 => Some(cobj(json!({"membership": "ban"}))),
        5 => Some(cobj(json!({"membership": "knock"}))),
        6 => Some(cobj(json!({"membership": "weird"}))),
        _ => Some(cobj(json!({"membership": 5, "Membership": "join"}))),
    }
}

/// Join-rule shapes.
pub const N_JR: usize = 8;
pub fn jr_content(i: usize) -> Option<CanonicalJsonObject> {
    match i {
        0 => Some(cobj(json!({"join_rule": "public"}))),
        1 => Some(cobj(json!({"join_rule": "invite"}))),
        2 => Some(cobj(json!({"join_rule": "knock"}))),
        3 => Some(cobj(json!({"join_rule": "restricted", "allow": []}))),
        4 => Some(cobj(json!({"join_rule": "knock_restricted"}))),
        5 => Some(cobj(json!({"join_rule": "weird"}))),
        6 => None,
        _ => Some(cobj(json!({"join_rule": ["public"]}))),
    }
}

impl Case {
    /// A room created by CREATOR (joined); the candidate event is a message by ALICE.
    pub fn base(v: u32) -> Case {
        let mut create =
            mk_ev(&eid(v, "create"), ROOM, CREATOR, "m.room.create", Some(""), cobj(json!({"creator": CREATOR})));
        create.prev = vec![];
        let mut c = Case { v, ev: create.clone(), state: vec![] };
        c.set("m.room.create", "", Some(create));
        c.set_member(CREATOR, 1);
        c.ev = c.mk("m.room.message", ALICE, None, cobj(json!({"body": "hi"})));
        c
    }
    pub fn create_id(&self) -> OwnedEventId {
        OwnedEventId::try_from(eid(self.v, "create")).unwrap()
    }
    /// A candidate event with the usual auth/prev events.
    pub fn mk(&self, ty: &str, sender: &str, skey: Option<&str>, content: CanonicalJsonObject) -> Ev {
        let mut e = mk_ev(&eid(self.v, "ev"), ROOM, sender, ty, skey, content);
        e.auth = vec![self.create_id()];
        e.prev = vec![OwnedEventId::try_from(eid(self.v, "prev")).unwrap()];
        e
    }
    pub fn set(&mut self, ty: &str, key: &str, e: Option<Ev>) {
        self.state.retain(|((t, k), _)| !(t == ty && k == key));
        if let Some(e) = e {
            self.state.push(((ty.to_owned(), key.to_owned()), e));
        }
    }
    pub fn set_content(&mut self, ty: &str, key: &str, sender: &str, content: Option<CanonicalJsonObject>) {
        let e = content.map(|c| mk_ev(&eid(self.v, &format!("st{}", self.state.len())), ROOM, sender, ty, Some(key), c));
        self.set(ty, key, e);
    }
    pub fn set_member(&mut self, user: &str, m: usize) {
        let sender = if <&UserId>::try_from(user).is_ok() { user } else { CREATOR };
        self.set_content("m.room.member", user, sender, memb_content(m));
    }
    pub fn set_jr(&mut self, j: usize) {
        self.set_content("m.room.join_rules", "", CREATOR, jr_content(j));
    }
    pub fn set_pl(&mut self, content: Option<CanonicalJsonObject>) {
        self.set_content("m.room.power_levels", "", CREATOR, content);
    }
    pub fn create_mut(&mut self) -> &mut Ev {
        &mut self.state.iter_mut().find(|((t, k), _)| t == "m.room.create" && k.is_empty()).unwrap().1
    }
}

/// A level value as it appears in JSON.
#[derive(Clone, Debug)]
pub enum Lv {
    Absent,
    Int(i64),
    Str(String),
    Raw(CanonicalJsonValue),
}

impl Lv {
    fn put(&self, o: &mut CanonicalJsonObject, k: &str) {
        match self {
            Lv::Absent => {}
            Lv::Int(i) => {
                o.insert(k.to_owned(), cj(json!(i)));
            }
            Lv::Str(s) => {
                o.insert(k.to_owned(), CanonicalJsonValue::String(s.clone()));
            }
            Lv::Raw(v) => {
                o.insert(k.to_owned(), v.clone());
            }
        }
    }
}

/// Styles in which the number `x` is written.
pub fn styles(x: i64) -> Vec<Lv> {
    vec![Lv::Int(x), Lv::Str(x.to_string()), Lv::Str(format!(" {}{} ", if x >= 0 { "+" } else { "" }, x))]
}

#[derive(Clone, Default)]
pub struct Pl {
    pub fields: Vec<(&'static str, Lv)>,
    pub users: Option<Vec<(String, Lv)>>,
    pub events: Option<Vec<(String, Lv)>>,
    pub notifications: Option<Vec<(String, Lv)>>,
    pub extra: Vec<(&'static str, CanonicalJsonValue)>,
}

impl Pl {
    pub fn content(&self) -> CanonicalJsonObject {
        let mut o = CanonicalJsonObject::new();
        for (k, v) in &self.fields {
            v.put(&mut o, k);
        }
        let map = |m: &Vec<(String, Lv)>| {
            let mut x = CanonicalJsonObject::new();
            for (k, v) in m {
                v.put(&mut x, k);
            }
            CanonicalJsonValue::Object(x)
        };
        if let Some(u) = &self.users {
            o.insert("users".into(), map(u));
        }
        if let Some(u) = &self.events {
            o.insert("events".into(), map(u));
        }
        if let Some(u) = &self.notifications {
            o.insert("notifications".into(), map(u));
        }
        for (k, v) in &self.extra {
            o.insert((*k).to_owned(), v.clone());
        }
        o
    }
    pub fn user(mut self, u: &str, l: Lv) -> Self {
        self.users.get_or_insert_with(Vec::new).push((u.to_owned(), l));
        self
    }
    pub fn field(mut self, f: &'static str, l: Lv) -> Self {
        self.fields.push((f, l));
        self
    }
    pub fn event(mut self, t: &str, l: Lv) -> Self {
        self.events.get_or_insert_with(Vec::new).push((t.to_owned(), l));
        self
    }
    pub fn notif(mut self, t: &str, l: Lv) -> Self {
        self.notifications.get_or_insert_with(Vec::new).push((t.to_owned(), l));
        self
    }
}

// ---------------------------------------------------------------------------------------------
// Generation
// ---------------------------------------------------------------------------------------------
pub struct Gen<'a> {
    pub thorough: bool,
    pub rng: Rng,
    pub sink: &'a mut dyn FnMut(&str, &Case),
    pub n: u64,
}

impl Gen<'_> {
    /// Emit always in the thorough tier; in the quick tier keep one in `one_in` (deterministic).
    pub fn emit(&mut self, tag: &str, c: &Case, one_in: usize) {
        if self.thorough || one_in <= 1 || self.rng.below(one_in) == 0 {
            (self.sink)(tag, c);
            self.n += 1;
        }
    }
}

const BAD_LEVELS: &[&str] = &["null", "true", "[]", "{}", "\"x\"", "\"\"", "[50]"];

fn bad_level(i: usize) -> Lv {
    Lv::Raw(cj(serde_json::from_str(BAD_LEVELS[i % BAD_LEVELS.len()]).unwrap()))
}

/// Strings offered as power levels (v1-v9 accept some of them).
pub const LEVEL_STRINGS: &[&str] = &[
    "50", " 50", "50 ", "\t50\n", "+50", "-50", "++50", "+-50", "-+50", "--50", "050", "+050", "5 0", "", " ", "+", "-",
    "+ 50", "- 50", "9007199254740991", "9007199254740992", "+9007199254740991", "+9007199254740992",
    "-9007199254740991", "-9007199254740992", "99999999999999999999999", "-99999999999999999999999",
    "\u{a0}50\u{2003}", "\u{3000}50", "50\u{85}", "\u{200b}50", "0x32", "5e1", "50.0", "\u{ff15}\u{ff10}", "5_0", "+0", "-0",
    "00", "\u{1680}51\u{205f}", "50\u{0}", "\u{feff}50",
];

fn sys_create(g: &mut Gen<'_>, v: u32) {
    for prev in 0..2 {
        for room in ["!room:s1", "!room:s2", "!room", "!room:s 1", "!room:s1:8448", "!room:", "!ro:om:s1"] {
            for (ci, creator) in ["absent", "null", "str", "int", "baduid"].iter().enumerate() {
                for sender in [CREATOR, EVE, "@c:s1:8448"] {
                    let mut content = cobj(json!({"room_version": v.to_string()}));
                    match *creator {
                        "null" => {
                            content.insert("creator".into(), CanonicalJsonValue::Null);
                        }
                        "str" => {
                            content.insert("creator".into(), cj(json!(sender)));
                        }
                        "int" => {
                            content.insert("creator".into(), cj(json!(5)));
                        }
                        "baduid" => {
                            content.insert("creator".into(), cj(json!("creator")));
                        }
                        _ => {}
                    }
                    let mut ev = mk_ev(&eid(v, "create"), room, sender, "m.room.create", Some(""), content);
                    if prev == 1 {
                        ev.prev = vec![OwnedEventId::try_from(eid(v, "prev")).unwrap()];
                    }
                    let _ = ci;
                    // state is irrelevant for create events; give it something anyway
                    let mut c = Case::base(v);
                    c.ev = ev;
                    g.emit("sys-create", &c, 1);
                }
            }
        }
    }
}

fn federate_value(i: usize) -> Option<CanonicalJsonValue> {
    match i {
        0 => None,
        1 => Some(cj(json!(true))),
        2 => Some(cj(json!(false))),
        3 => Some(CanonicalJsonValue::Null),
        4 => Some(cj(json!("false"))),
        _ => Some(cj(json!(0))),
    }
}

/// The candidate events used to exercise the rules every non-create event passes first.
fn preamble_kinds(c: &Case) -> Vec<Ev> {
    let srv = |u: &str| u.split_once(':').unwrap().1.to_owned();
    let mut out = vec![];
    for sender in [ALICE, EVE, "@alice:s1:8448"] {
        out.push(c.mk("m.room.message", sender, None, cobj(json!({"body": "x"}))));
        out.push(c.mk("m.room.member", sender, Some(sender), cobj(json!({"membership": "join"}))));
        out.push(c.mk("m.room.aliases", sender, Some(&srv(sender)), cobj(json!({"aliases": []}))));
        out.push(c.mk("m.room.aliases", sender, Some("s1"), cobj(json!({"aliases": []}))));
        out.push(c.mk("m.room.aliases", sender, None, cobj(json!({"aliases": []}))));
        out.push(c.mk("m.room.aliases", sender, Some(sender), cobj(json!({"aliases": []}))));
    }
    out
}

fn sys_preamble(g: &mut Gen<'_>, v: u32) {
    for create_in_state in 0..2 {
        for auth in 0..4 {
            for fed in 0..6 {
                for create_sender in [CREATOR, EVE] {
                    for sender_m in [1usize, 3] {
                        let mut c = Case::base(v);
                        c.set_jr(0);
                        for u in [ALICE, EVE, "@alice:s1:8448"] {
                            c.set_member(u, sender_m);
                        }
                        {
                            let ce = c.create_mut();
                            ce.sender = OwnedUserId::try_from(create_sender).unwrap();
                            let mut content = ce.content.clone();
                            if let Some(f) = federate_value(fed) {
                                content.insert("m.federate".into(), f);
                            }
                            ce.set_content(content);
                        }
                        if create_in_state == 0 {
                            c.set("m.room.create", "", None);
                        }
                        for mut ev in preamble_kinds(&c) {
                            ev.auth = match auth {
                                0 => vec![c.create_id()],
                                1 => vec![],
                                2 => vec![OwnedEventId::try_from(eid(v, "other")).unwrap()],
                                _ => vec![OwnedEventId::try_from(eid(v, "other")).unwrap(), c.create_id()],
                            };
                            let mut c2 = c.clone();
                            c2.ev = ev;
                            g.emit("sys-preamble", &c2, 6);
                        }
                    }
                }
            }
        }
    }
}

/// Shapes of the `creator` of the create event in state (matters for v1-v10 whenever a level is computed).
fn creator_shapes(c: &Case) -> Vec<Case> {
    let mut out = vec![];
    for (i, cr) in [Some(json!(CREATOR)), Some(json!(ALICE)), None, Some(json!(null)), Some(json!(7)), Some(json!("nobody"))]
        .into_iter()
        .enumerate()
    {
        let mut c2 = c.clone();
        let ce = c2.create_mut();
        let mut content = ce.content.clone();
        content.remove("creator");
        if let Some(x) = cr {
            content.insert("creator".into(), cj(x));
        }
        ce.set_content(content);
        if i == 1 {
            // also make ALICE the sender of the create event (v11's notion of creator)
            c2.create_mut().sender = OwnedUserId::try_from(ALICE).unwrap();
        }
        out.push(c2);
    }
    out
}

/// Power-level events giving `who` the level `lvl` in several ways, and `field` the value `fv`.
fn pl_variants(who: &str, lvl: i64, field: &'static str, fv: &Lv, other: Option<(&str, i64)>) -> Vec<Pl> {
    let mut out = vec![];
    let with_other = |p: Pl| match other {
        Some((u, l)) => p.user(u, Lv::Int(l)),
        None => p,
    };
    for st in styles(lvl) {
        out.push(with_other(Pl::default().user(who, st.clone()).field(field, fv.clone())));
    }
    // through users_default (other users then share it unless listed)
    out.push(with_other(Pl::default().field("users_default", Lv::Int(lvl)).field(field, fv.clone())));
    out.push(with_other(
        Pl::default().user("@zed:s1", Lv::Int(0)).field("users_default", Lv::Str(lvl.to_string())).field(field, fv.clone()),
    ));
    out
}

fn sys_member_join(g: &mut Gen<'_>, v: u32) {
    // prev-events shape x creator x sender/target x current membership x join rule
    for prev in 0..4 {
        for who in [ALICE, CREATOR] {
            for other_target in 0..2 {
                for cm in 0..N_MEMB {
                    for jr in 0..N_JR {
                        for au in 0..12 {
                            let restricted = jr == 3 || jr == 4;
                            if !restricted && au > 1 {
                                continue;
                            }
                            let mut c = Case::base(v);
                            c.set_member(CREATOR, 0);
                            let target = if other_target == 1 { BOB } else { who };
                            c.set_member(target, cm);
                            c.set_jr(jr);
                            let mut content = cobj(json!({"membership": "join"}));
                            // the authorising user
                            match au {
                                0 => {}
                                1 => {
                                    content.insert("join_authorised_via_users_server".into(), cj(json!(DAVE)));
                                    c.set_member(DAVE, 1);
                                }
                                2 => {
                                    content.insert("join_authorised_via_users_server".into(), cj(json!(DAVE)));
                                    c.set_member(DAVE, 3);
                                }
                                3 => {
                                    content.insert("join_authorised_via_users_server".into(), cj(json!(DAVE)));
                                }
                                4 => {
                                    content.insert("join_authorised_via_users_server".into(), cj(json!(DAVE)));
                                    c.set_member(DAVE, 7);
                                }
                                5 => {
                                    content.insert("join_authorised_via_users_server".into(), cj(json!("dave")));
                                    c.set_member("dave", 1);
                                }
                                6 => {
                                    content.insert("join_authorised_via_users_server".into(), cj(json!(null)));
                                }
                                7 => {
                                    content.insert("join_authorised_via_users_server".into(), cj(json!([DAVE])));
                                    c.set_member(DAVE, 1);
                                }
                                // near-miss spellings of the member the rules read: they are unknown members and
                                // change nothing (seed4 C09-2: the American spelling read as an alias)
                                9 => {
                                    content.insert("join_authorized_via_users_server".into(), cj(json!(DAVE)));
                                    c.set_member(DAVE, 1);
                                }
                                10 => {
                                    content.insert("join_authorized_via_users_server".into(), cj(json!(BOB)));
                                    content.insert("join_authorised_via_users_server".into(), cj(json!(DAVE)));
                                    c.set_member(DAVE, 1);
                                }
                                11 => {
                                    content.insert("Join_Authorised_Via_Users_Server".into(), cj(json!(DAVE)));
                                    content.insert("join_authorised_via_users_servers".into(), cj(json!(DAVE)));
                                    c.set_member(DAVE, 1);
                                }
                                _ => {
                                    // the creator authorises (level 100 without a power-levels event)
                                    content.insert("join_authorised_via_users_server".into(), cj(json!(CREATOR)));
                                    c.set_member(CREATOR, 1);
                                }
                            }
                            let mut ev = c.mk("m.room.member", who, Some(target), content);
                            ev.prev = match prev {
                                0 => vec![c.create_id()],
                                1 => vec![OwnedEventId::try_from(eid(v, "prev")).unwrap()],
                                2 => vec![],
                                _ => vec![c.create_id(), OwnedEventId::try_from(eid(v, "prev")).unwrap()],
                            };
                            c.ev = ev;
                            g.emit("sys-join", &c, 5);
                            // levels of the authorising user against the invite level
                            if restricted && (au == 1 || au == 8) && prev == 1 && other_target == 0 && (cm == 0 || cm == 3) {
                                let auth_user = if au == 1 { DAVE } else { CREATOR };
                                for lvl in [49, 50, 51] {
                                    for fv in [Lv::Int(50), Lv::Str("50".into()), Lv::Absent, bad_level(lvl as usize)] {
                                        let base_l = if matches!(fv, Lv::Absent) { lvl - 50 } else { lvl };
                                        for p in pl_variants(auth_user, base_l, "invite", &fv, None) {
                                            let mut c2 = c.clone();
                                            c2.set_pl(Some(p.content()));
                                            g.emit("sys-join-levels", &c2, 3);
                                        }
                                    }
                                }
                                for cs in creator_shapes(&c) {
                                    g.emit("sys-join-creator", &cs, 2);
                                }
                            }
                        }
                    }
                }
            }
        }
    }
}

const PKCS8: &str = "MFECAQEwBQYDK2VwBCIEINjozvdfbsGEt6DD+7Uf4PiJ/YvTNXV2mIPc/tA0T+6tgSEA3TPraTczVkDPTRaX4K+AfUuyx7Mzq1UafTXypnl0t2k";

fn id_server_key() -> ruma_signatures::Ed25519KeyPair {
    let doc = Base64::<Standard>::parse(PKCS8).unwrap();
    ruma_signatures::Ed25519KeyPair::from_der(doc.as_bytes(), "0".into()).unwrap()
}

/// A `signed` object for (mxid, token), really signed by the identity-server key.
fn signed_object(mxid: &str, token: &str) -> CanonicalJsonObject {
    let mut o = cobj(json!({"mxid": mxid, "token": token}));
    ruma_signatures::sign_json("id.s1", &id_server_key(), &mut o).unwrap();
    o
}

fn sys_member_invite_3pid(g: &mut Gen<'_>, v: u32) {
    let pk = Base64::<Standard, _>::new(id_server_key().public_key().to_vec()).encode();
    let pk_urlsafe = pk.replace('+', "-").replace('/', "_");
    let good = signed_object(BOB, "tok");
    let sig = good["signatures"].as_object().unwrap()["id.s1"].as_object().unwrap()["ed25519:0"].as_str().unwrap().to_owned();
    // shapes of the third_party_invite value
    let mut tpis: Vec<(&str, CanonicalJsonValue)> = vec![];
    let wrap = |s: &CanonicalJsonObject| {
        let mut t = cobj(json!({"display_name": "b"}));
        t.insert("signed".into(), CanonicalJsonValue::Object(s.clone()));
        CanonicalJsonValue::Object(t)
    };
    tpis.push(("good", wrap(&good)));
    tpis.push(("null", CanonicalJsonValue::Null));
    tpis.push(("str", cj(json!("x"))));
    tpis.push(("empty", cj(json!({}))));
    tpis.push(("signed-null", cj(json!({"signed": null}))));
    tpis.push(("signed-str", cj(json!({"signed": "x"}))));
    tpis.push(("seq", CanonicalJsonValue::Array(vec![CanonicalJsonValue::Object(good.clone())])));
    tpis.push(("seq2", CanonicalJsonValue::Array(vec![CanonicalJsonValue::Object(good.clone()), cj(json!(1))])));
    tpis.push(("seq0", cj(json!([]))));
    let edit = |f: &dyn Fn(&mut CanonicalJsonObject)| {
        let mut s = good.clone();
        f(&mut s);
        wrap(&s)
    };
    tpis.push(("no-token", edit(&|s| { s.remove("token"); })));
    tpis.push(("token-int", edit(&|s| { s.insert("token".into(), cj(json!(1))); })));
    tpis.push(("no-mxid", edit(&|s| { s.remove("mxid"); })));
    tpis.push(("mxid-int", edit(&|s| { s.insert("mxid".into(), cj(json!(1))); })));
    tpis.push(("mxid-other", wrap(&signed_object(ALICE, "tok"))));
    tpis.push(("token-other", wrap(&signed_object(BOB, "tok2"))));
    tpis.push(("no-sigs", edit(&|s| { s.remove("signatures"); })));
    tpis.push(("sigs-int", edit(&|s| { s.insert("signatures".into(), cj(json!(1))); })));
    tpis.push(("sigs-empty", edit(&|s| { s.insert("signatures".into(), cj(json!({}))); })));
    tpis.push(("tampered", edit(&|s| { s.insert("extra".into(), cj(json!(1))); })));
    tpis.push(("badsig", edit(&|s| { s.insert("signatures".into(), cj(json!({"id.s1": {"ed25519:0": "AAAA"}}))); })));
    tpis.push(("sig-notb64", edit(&|s| { s.insert("signatures".into(), cj(json!({"id.s1": {"ed25519:0": "!!"}}))); })));
    tpis.push(("sig-int", edit(&|s| { s.insert("signatures".into(), cj(json!({"id.s1": {"ed25519:0": 5}}))); })));
    tpis.push(("kid-bad", edit(&|s| { s.insert("signatures".into(), cj(json!({"id.s1": {"ed25519": sig}}))); })));
    tpis.push(("kid-alg", edit(&|s| { s.insert("signatures".into(), cj(json!({"id.s1": {"rsa:0": sig}}))); })));
    tpis.push(("ent-before", edit(&|s| { s.insert("signatures".into(), cj(json!({"a": 1, "id.s1": {"ed25519:0": sig}}))); })));
    tpis.push(("ent-after", edit(&|s| { s.insert("signatures".into(), cj(json!({"z": 1, "id.s1": {"ed25519:0": sig}}))); })));
    tpis.push(("two-ents", edit(&|s| { s.insert("signatures".into(), cj(json!({"a": {"ed25519:0": "AAAA"}, "id.s1": {"ed25519:1": "AAAA", "ed25519:0": sig}}))); })));
    // shapes of the m.room.third_party_invite event in state
    let mut tpes: Vec<(&str, Option<CanonicalJsonObject>)> = vec![];
    tpes.push(("pk", Some(cobj(json!({"public_key": pk, "display_name": "b"})))));
    tpes.push(("pk-urlsafe", Some(cobj(json!({"public_key": pk_urlsafe})))));
    tpes.push(("absent", None));
    tpes.push(("empty", Some(cobj(json!({})))));
    tpes.push(("pk-null", Some(cobj(json!({"public_key": null, "public_keys": [{"public_key": pk}]})))));
    tpes.push(("pk-int", Some(cobj(json!({"public_key": 1})))));
    tpes.push(("pk-other", Some(cobj(json!({"public_key": "AAAA", "public_keys": []})))));
    tpes.push(("pks", Some(cobj(json!({"public_key": "AAAA", "public_keys": [{"public_key": "!!"}, {"public_key": pk, "key_validity_url": "u"}]})))));
    // the signing key only at top level, next to a well-formed list that does not repeat it (seed3 C08-2)
    tpes.push(("pk-with-other-pks", Some(cobj(json!({"public_key": pk, "public_keys": [{"public_key": "AAAA"}]})))));
    tpes.push(("pk-with-other-pks2", Some(cobj(json!({"public_key": pk, "public_keys": [{"public_key": "AAAA"}, {"public_key": "BBBB", "key_validity_url": "u"}]})))));
    tpes.push(("pks-first-of-two", Some(cobj(json!({"public_key": "AAAA", "public_keys": [{"public_key": pk}, {"public_key": "BBBB"}]})))));
    tpes.push(("pk-and-pks-same", Some(cobj(json!({"public_key": pk, "public_keys": [{"public_key": pk}]})))));
    tpes.push(("pks-null", Some(cobj(json!({"public_key": pk, "public_keys": null})))));
    tpes.push(("pks-obj", Some(cobj(json!({"public_key": pk, "public_keys": {}})))));
    tpes.push(("pks-bad-item", Some(cobj(json!({"public_key": pk, "public_keys": [1]})))));
    tpes.push(("pks-item-nokey", Some(cobj(json!({"public_key": pk, "public_keys": [{}]})))));
    tpes.push(("pks-item-null", Some(cobj(json!({"public_key": pk, "public_keys": [{"public_key": null}]})))));
    tpes.push(("pks-seq", Some(cobj(json!({"public_keys": [[pk]]})))));
    tpes.push(("pks-seq-bad", Some(cobj(json!({"public_key": pk, "public_keys": [[1]]})))));
    // the same with the empty token (state key ""), correctly signed, against every state shape
    for (_, tpe) in &tpes {
        for tpe_sender in [ALICE, CREATOR] {
            for at in ["", "tok"] {
                let mut c = Case::base(v);
                c.set_member(ALICE, 1);
                c.set_member(BOB, 0);
                c.set_content("m.room.third_party_invite", at, tpe_sender, tpe.clone());
                let mut content = cobj(json!({"membership": "invite"}));
                content.insert("third_party_invite".into(), wrap(&signed_object(BOB, "")));
                c.ev = c.mk("m.room.member", ALICE, Some(BOB), content);
                g.emit("sys-invite-3pid-empty-token", &c, 1);
            }
        }
    }
    for (_, tpi) in &tpis {
        for (_, tpe) in &tpes {
            for tm in [0usize, 4, 1, 7] {
                for tpe_sender in [ALICE, CREATOR] {
                    for sm in [1usize, 0] {
                        let mut c = Case::base(v);
                        c.set_member(ALICE, sm);
                        c.set_member(BOB, tm);
                        c.set_content("m.room.third_party_invite", "tok", tpe_sender, tpe.clone());
                        let mut content = cobj(json!({"membership": "invite"}));
                        content.insert("third_party_invite".into(), tpi.clone());
                        c.ev = c.mk("m.room.member", ALICE, Some(BOB), content);
                        g.emit("sys-invite-3pid", &c, 12);
                    }
                }
            }
        }
    }
}

/// invite / leave / kick / unban / ban / knock / unknown memberships.
fn sys_member_other(g: &mut Gen<'_>, v: u32) {
    let memberships: Vec<(&str, CanonicalJsonObject)> = vec![
        ("invite", cobj(json!({"membership": "invite"}))),
        ("leave", cobj(json!({"membership": "leave"}))),
        ("ban", cobj(json!({"membership": "ban"}))),
        ("knock", cobj(json!({"membership": "knock"}))),
        ("weird", cobj(json!({"membership": "weird"}))),
        ("caps", cobj(json!({"membership": "Join"}))),
        ("missing", cobj(json!({"Membership": "join"}))),
        ("null", cobj(json!({"membership": null}))),
        ("int", cobj(json!({"membership": 1}))),
    ];
    for (mname, mcontent) in &memberships {
        // who acts on whom, and everybody's current membership, and the join rule
        for (sender, target) in [(ALICE, ALICE), (ALICE, BOB), (CREATOR, BOB), (ALICE, CREATOR)] {
            for sm in 0..N_MEMB {
                for tm in 0..N_MEMB {
                    if sender == target && tm != 0 {
                        continue;
                    }
                    for jr in 0..N_JR {
                        if !matches!(*mname, "knock" | "invite") && jr > 0 {
                            continue;
                        }
                        if *mname == "invite" && jr > 1 {
                            continue;
                        }
                        let mut c = Case::base(v);
                        c.set_jr(jr);
                        c.set_member(sender, sm);
                        if sender != target {
                            c.set_member(target, tm);
                        }
                        c.ev = c.mk("m.room.member", sender, Some(target), mcontent.clone());
                        g.emit("sys-member", &c, 3);
                        // no power-levels event: creator 100, others 0; also with explicit levels
                        if matches!(*mname, "invite" | "leave" | "ban") && sm == 1 && sender == ALICE && target == BOB && jr == 0 {
                            let field: &'static str = match *mname {
                                "invite" => "invite",
                                "leave" => "kick",
                                _ => "ban",
                            };
                            for sl in [49i64, 50, 51] {
                                for tl in [sl - 1, sl, sl + 1] {
                                    for fv in [Lv::Int(50), Lv::Str("+50".into()), Lv::Absent, bad_level((sl + tl) as usize)] {
                                        let shift = if matches!(fv, Lv::Absent) && field == "invite" { 50 } else { 0 };
                                        for p in pl_variants(ALICE, sl - shift, field, &fv, Some((BOB, tl - shift))) {
                                            let mut c2 = c.clone();
                                            c2.set_pl(Some(p.content()));
                                            g.emit("sys-member-levels", &c2, 8);
                                            if *mname == "leave" && tm == 4 {
                                                // unban: the ban level matters as well
                                                for bl in [sl - shift - 1, sl - shift, sl - shift + 1] {
                                                    for bst in [Lv::Int(bl), Lv::Str(bl.to_string()), bad_level(bl as usize)] {
                                                        let mut c3 = c.clone();
                                                        c3.set_pl(Some(p.clone().field("ban", bst).content()));
                                                        g.emit("sys-unban-levels", &c3, 8);
                                                    }
                                                }
                                            }
                                        }
                                    }
                                }
                            }
                            for cs in creator_shapes(&c) {
                                g.emit("sys-member-creator", &cs, 2);
                            }
                        }
                    }
                }
            }
        }
    }
    // state_key shapes of member events
    for skey in [None, Some(""), Some("bob"), Some("@bob"), Some("@bob:"), Some("@bob:s1"), Some("@b\u{0}b:s1"), Some("@bob:s1:x")] {
        for m in ["join", "invite", "leave", "ban", "knock"] {
            let mut c = Case::base(v);
            c.set_jr(if m == "knock" { 2 } else { 0 });
            c.set_member(ALICE, 1);
            c.ev = c.mk("m.room.member", ALICE, skey, cobj(json!({"membership": m})));
            g.emit("sys-member-skey", &c, 1);
        }
    }
}

/// Events gated by the sender's membership and power level.
fn gated_kinds(c: &Case) -> Vec<(&'static str, Ev)> {
    let v = c.v;
    let mut red = c.mk("m.room.redaction", ALICE, None, cobj(json!({"redacts": eid(v, "target")})));
    red.redacts = Some(OwnedEventId::try_from(eid(v, "target")).unwrap());
    vec![
        ("message", c.mk("m.room.message", ALICE, None, cobj(json!({"body": "x"})))),
        ("state", c.mk("m.room.topic", ALICE, Some(""), cobj(json!({"topic": "x"})))),
        ("state-own", c.mk("org.example.x", ALICE, Some(ALICE), cobj(json!({})))),
        ("state-other", c.mk("org.example.x", ALICE, Some(BOB), cobj(json!({})))),
        ("state-at", c.mk("org.example.x", ALICE, Some("@"), cobj(json!({})))),
        ("state-noat", c.mk("org.example.x", ALICE, Some("alice@s1"), cobj(json!({})))),
        ("tpi", c.mk("m.room.third_party_invite", ALICE, Some("tok"), cobj(json!({"public_key": "AAAA"})))),
        ("redaction", red),
        ("aliases", c.mk("m.room.aliases", ALICE, Some("s1"), cobj(json!({"aliases": []})))),
        ("power", c.mk("m.room.power_levels", ALICE, Some(""), cobj(json!({})))),
        ("join-rules", c.mk("m.room.join_rules", ALICE, Some(""), cobj(json!({"join_rule": "public"})))),
    ]
}

fn sys_gated(g: &mut Gen<'_>, v: u32) {
    // sender membership x no power-levels event x creator or not
    for sm in 0..N_MEMB {
        for is_creator in 0..2 {
            let mut c = Case::base(v);
            c.set_member(ALICE, sm);
            if is_creator == 1 {
                let ce = c.create_mut();
                ce.sender = OwnedUserId::try_from(ALICE).unwrap();
                ce.set_content(cobj(json!({"creator": ALICE})));
            }
            for (_, ev) in gated_kinds(&c) {
                let mut c2 = c.clone();
                c2.ev = ev;
                g.emit("sys-gated-nopl", &c2, 1);
                if sm == 1 {
                    for cs in creator_shapes(&c2) {
                        g.emit("sys-gated-creator", &cs, 2);
                    }
                }
            }
        }
    }
    // sender level against the required level, each written in several ways
    let base = {
        let mut c = Case::base(v);
        c.set_member(ALICE, 1);
        c
    };
    for (kind, ev) in gated_kinds(&base) {
        let ty = ev.ty.to_string();
        let is_state = ev.skey.is_some();
        for sl in [49i64, 50, 51] {
            // required level through events[type]
            for req in styles(50).into_iter().chain([bad_level(sl as usize)]) {
                for p in pl_variants(ALICE, sl, "kick", &Lv::Absent, None) {
                    let p = p.event(&ty, req.clone()).event("m.other", Lv::Int(100));
                    let mut c = base.clone();
                    c.ev = ev.clone();
                    c.set_pl(Some(p.content()));
                    g.emit("sys-gated-events", &c, 2);
                }
            }
            // through state_default / events_default / invite (third-party invite) / redact, present or absent
            let field: &'static str = match kind {
                "tpi" => "invite",
                _ if is_state => "state_default",
                _ => "events_default",
            };
            for fv in styles(50).into_iter().chain([Lv::Absent, bad_level(sl as usize + 1)]) {
                let dflt = if field == "state_default" { 50 } else { 0 };
                let shift = if matches!(fv, Lv::Absent) { 50 - dflt } else { 0 };
                for p in pl_variants(ALICE, sl - shift, field, &fv, None) {
                    let mut c = base.clone();
                    c.ev = ev.clone();
                    c.set_pl(Some(p.clone().content()));
                    g.emit("sys-gated-default", &c, 2);
                    // both defaults present, swapped roles, to catch a mix-up of the two fields
                    let other: &'static str = if field == "state_default" { "events_default" } else { "state_default" };
                    let mut c = base.clone();
                    c.ev = ev.clone();
                    c.set_pl(Some(p.field(other, Lv::Int(sl - shift + 1)).content()));
                    g.emit("sys-gated-default2", &c, 3);
                }
            }
        }
    }
    // v1-v2 redaction: redact level and the two event-id servers
    for sl in [49i64, 50, 51] {
        for rl in [Lv::Int(50), Lv::Str("50".into()), Lv::Absent, bad_level(sl as usize)] {
            for (own, red) in [("$ev:s1", Some("$t:s1")), ("$ev:s1", Some("$t:s2")), ("$ev:s1", None), ("$ev:s1", Some("$t")), ("$ev", Some("$t")), ("$ev", None), ("$ev:s1:1", Some("$t:s1")), ("$ev:s1:1", Some("$t:s1:1"))]
            {
                let mut c = base.clone();
                let mut ev = c.mk("m.room.redaction", ALICE, None, cobj(json!({})));
                ev.id = OwnedEventId::try_from(own).unwrap();
                ev.redacts = red.map(|r| OwnedEventId::try_from(r).unwrap());
                c.ev = ev;
                let shift = if matches!(rl, Lv::Absent) { 0 } else { 0 };
                c.set_pl(Some(Pl::default().user(ALICE, Lv::Int(sl - shift)).field("redact", rl.clone()).field("events_default", Lv::Int(0)).content()));
                g.emit("sys-redaction", &c, 1);
            }
        }
    }
    // malformed power-levels events in state, for every gated kind and the member kinds that read levels
    let bad_pls: Vec<serde_json::Value> = vec![
        json!({"users": 1}),
        json!({"users": null}),
        json!({"users": []}),
        json!({"users": {"alice": 50}}),
        json!({"users": {"@alice:s1": 50, "@bad": 1}}),
        json!({"users": {"@alice:s1": true}}),
        json!({"users": {"@alice:s1": "x"}}),
        json!({"users": {"@alice:s1": 50, "@bob:s1": null}}),
        json!({"users": {"@alice:s1": 50}, "users_default": null}),
        json!({"users": {"@bob:s1": 50}, "users_default": "x"}),
        json!({"users": {"@alice:s1": 50}, "events": 1}),
        json!({"users": {"@alice:s1": 50}, "events": null}),
        json!({"users": {"@alice:s1": 50}, "events": {"m.room.message": "x"}}),
        json!({"users": {"@alice:s1": 50}, "events": {"zzz": []}}),
        json!({"users": {"@alice:s1": 50}, "state_default": null}),
        json!({"users": {"@alice:s1": 50}, "events_default": {}}),
        json!({"users": {"@alice:s1": 50}, "ban": []}),
        json!({"users": {"@alice:s1": 50}, "kick": "k"}),
        json!({"users": {"@alice:s1": 50}, "invite": false}),
        json!({"users": {"@alice:s1": 50}, "redact": "r"}),
        json!({"users": {"@alice:s1": 50}, "notifications": 5}),
        json!({"users": {"@alice:s1": 50}, "notifications": {"room": "x"}}),
        json!({"users": {"@alice:s1": "50"}, "state_default": "50", "events": {"m.room.topic": "50"}}),
        json!({"users": {"@alice:s1": 9007199254740991i64}}),
        json!({"users": {"@alice:s1": -9007199254740991i64}, "events_default": -9007199254740991i64}),
    ];
    for bp in &bad_pls {
        let mut c = base.clone();
        c.set_member(BOB, 1);
        c.set_pl(Some(cobj(bp.clone())));
        let mut evs: Vec<Ev> = gated_kinds(&c).into_iter().map(|(_, e)| e).collect();
        for m in ["invite", "leave", "ban"] {
            evs.push(c.mk("m.room.member", ALICE, Some(BOB), cobj(json!({"membership": m}))));
        }
        for ev in evs {
            let mut c2 = c.clone();
            c2.ev = ev;
            g.emit("sys-badpl", &c2, 1);
            // and with the target banned (unban path reads `ban`)
            let mut c3 = c2.clone();
            c3.set_member(BOB, 4);
            g.emit("sys-badpl", &c3, 2);
        }
    }
    // string-typed levels
    for s in LEVEL_STRINGS {
        for k in [-9007199254740991i64, 0, 50, 51, 9007199254740991] {
            let mut c = base.clone();
            c.set_pl(Some(Pl::default().user(ALICE, Lv::Str((*s).to_owned())).field("events_default", Lv::Int(k)).content()));
            g.emit("sys-level-strings", &c, 1);
            let mut c = base.clone();
            c.set_pl(Some(Pl::default().user(ALICE, Lv::Int(k)).field("events_default", Lv::Str((*s).to_owned())).content()));
            g.emit("sys-level-strings", &c, 1);
        }
    }
}

/// m.room.power_levels changes.
fn sys_power_levels(g: &mut Gen<'_>, v: u32) {
    const L: i64 = 50;
    let base = {
        let mut c = Case::base(v);
        c.set_member(ALICE, 1);
        c
    };
    let vals = |with_bad: bool| -> Vec<Lv> {
        let mut x = vec![Lv::Absent, Lv::Int(L - 1), Lv::Int(L), Lv::Int(L + 1), Lv::Str(L.to_string()), Lv::Str((L + 1).to_string())];
        if with_bad {
            x.push(bad_level(0));
            x.push(bad_level(4));
        }
        x
    };
    let current = || Pl::default().user(ALICE, Lv::Int(L)).field("state_default", Lv::Int(L));
    let emit = |g: &mut Gen<'_>, tag: &str, cur: Option<Pl>, new: Pl, one_in: usize| {
        let mut c = base.clone();
        c.set_pl(cur.map(|p| p.content()));
        c.ev = c.mk("m.room.power_levels", ALICE, Some(""), new.content());
        if c.state.iter().all(|((t, _), _)| t != "m.room.power_levels") {
            // without a current event ALICE has level 0: make her the creator so that she may send state
            let ce = c.create_mut();
            ce.sender = OwnedUserId::try_from(ALICE).unwrap();
            ce.set_content(cobj(json!({"creator": ALICE})));
        }
        g.emit(tag, &c, one_in);
    };
    // the seven integer fields
    for f in ["users_default", "events_default", "state_default", "ban", "redact", "kick", "invite"] {
        for cv in vals(true) {
            for nv in vals(true) {
                let (mut cur, mut new) = (current(), current());
                if f == "state_default" {
                    cur.fields.clear();
                    new.fields.clear();
                    // keep the event sendable: required level through events[]
                    cur = cur.event("m.room.power_levels", Lv::Int(L));
                    new = new.event("m.room.power_levels", Lv::Int(L));
                }
                let cur = cur.field(f, cv.clone());
                let new = new.field(f, nv.clone());
                emit(g, "sys-pl-fields", Some(cur), new.clone(), 2);
                emit(g, "sys-pl-initial", None, new, 4);
            }
        }
    }
    // events / notifications / users entries
    for map in ["events", "notifications", "users"] {
        for own in 0..2 {
            let key = match (map, own) {
                ("users", 1) => ALICE,
                ("users", _) => BOB,
                ("events", 1) => "m.room.power_levels",
                ("events", _) => "m.room.topic",
                (_, 1) => "room",
                _ => "x",
            };
            for cv in vals(true) {
                for nv in vals(true) {
                    let put = |p: Pl, val: &Lv| -> Pl {
                        if matches!(val, Lv::Absent) {
                            return p;
                        }
                        match map {
                            "events" => p.event(key, val.clone()),
                            "notifications" => p.notif(key, val.clone()),
                            _ => {
                                let mut p = p;
                                let users = p.users.get_or_insert_with(Vec::new);
                                users.retain(|(u, _)| u != key);
                                users.push((key.to_owned(), val.clone()));
                                p
                            }
                        }
                    };
                    let (mut cur, mut new) = (current(), current());
                    if map == "users" && own == 1 {
                        // changing one's own entry: the sender's level is the current value
                        if !matches!(cv, Lv::Int(_) | Lv::Str(_)) {
                            cur = cur.field("users_default", Lv::Int(L));
                        }
                    }
                    cur = put(cur, &cv);
                    new = put(new, &nv);
                    emit(g, "sys-pl-maps", Some(cur), new.clone(), 2);
                    emit(g, "sys-pl-initial", None, new, 4);
                }
            }
        }
        // the map itself malformed / absent on either side
        for cur_bad in 0..4 {
            for new_bad in 0..4 {
                let shape = |i: usize| -> Option<CanonicalJsonValue> {
                    match i {
                        0 => None,
                        1 => Some(cj(json!({}))),
                        2 => Some(cj(json!([]))),
                        _ => Some(CanonicalJsonValue::Null),
                    }
                };
                let (mut cur, mut new) = (current(), current());
                if map == "users" {
                    cur.users = None;
                    new.users = None;
                    cur = cur.field("users_default", Lv::Int(L));
                    new = new.field("users_default", Lv::Int(L));
                }
                let k: &'static str = match map {
                    "events" => "events",
                    "notifications" => "notifications",
                    _ => "users",
                };
                if let Some(x) = shape(cur_bad) {
                    cur.extra.push((k, x));
                }
                if let Some(x) = shape(new_bad) {
                    new.extra.push((k, x));
                }
                emit(g, "sys-pl-mapshape", Some(cur), new.clone(), 1);
                emit(g, "sys-pl-initial", None, new, 2);
            }
        }
    }
    // user-id keys of the new users map
    for key in ["@x:s1", "x", "@x", "@x:", "@:s1", "@x:s1:99999", "@x:s1:80", "@x\u{0}:s1", "@X Y:s1", "x:s1"] {
        let new = current().user(key, Lv::Int(0));
        emit(g, "sys-pl-userkeys", Some(current()), new.clone(), 1);
        emit(g, "sys-pl-userkeys", None, new, 1);
    }
}

/// ruma's `TimelineEventType` maps this pre-standard name to `m.call.sdp_stream_metadata_changed`
/// (open finding C08-type-alias): `events` entries under the alias apply to the standard type.
pub const TYPE_ALIAS: &str = "org.matrix.call.sdp_stream_metadata_changed";
pub const TYPE_ALIASED: &str = "m.call.sdp_stream_metadata_changed";

fn sys_type_alias(g: &mut Gen<'_>, v: u32) {
    for (key, ty) in [(TYPE_ALIAS, TYPE_ALIASED), (TYPE_ALIASED, TYPE_ALIASED), (TYPE_ALIAS, "m.room.message")] {
        for lvl in [49i64, 50, 51] {
            let mut c = Case::base(v);
            c.set_member(ALICE, 1);
            c.set_pl(Some(Pl::default().user(ALICE, Lv::Int(lvl)).event(key, Lv::Int(50)).content()));
            c.ev = c.mk(ty, ALICE, None, cobj(json!({})));
            g.emit("sys-type-alias", &c, 1);
        }
    }
}

fn sys_misc(g: &mut Gen<'_>, v: u32) {
    // aliases with every sender membership (v6+ falls through to the generic rules)
    for sm in 0..N_MEMB {
        for skey in [None, Some("s1"), Some("s2"), Some(""), Some(ALICE)] {
            let mut c = Case::base(v);
            c.set_member(ALICE, sm);
            c.ev = c.mk("m.room.aliases", ALICE, skey, cobj(json!({"aliases": []})));
            g.emit("sys-aliases", &c, 1);
        }
    }
}

// ---------------------------------------------------------------------------------------------
// Random structured stream: random worlds over the same vocabulary, plus garbage mutations
// ---------------------------------------------------------------------------------------------
fn rand_level(r: &mut Rng) -> Lv {
    match r.below(10) {
        0 => Lv::Absent,
        1..=4 => Lv::Int([0, 49, 50, 51, 100, -1, 99, 101][r.below(8)]),
        5..=6 => Lv::Str((*r.pick(LEVEL_STRINGS)).to_owned()),
        7 => Lv::Str([49, 50, 51, 100][r.below(4)].to_string()),
        8 => bad_level(r.below(7)),
        _ => Lv::Raw(gen_json(r, 1)),
    }
}

fn rand_pl(r: &mut Rng) -> CanonicalJsonObject {
    let mut p = Pl::default();
    for f in ["users_default", "events_default", "state_default", "ban", "redact", "kick", "invite"] {
        if r.chance(1, 3) {
            p = p.field(f, rand_level(r));
        }
    }
    if r.chance(3, 4) {
        for u in [ALICE, BOB, CREATOR, DAVE, EVE, "bad", "@x:s1"] {
            if r.chance(1, 3) {
                p = p.user(u, rand_level(r));
            }
        }
        if p.users.is_none() && r.chance(1, 2) {
            p.users = Some(vec![]);
        }
    }
    if r.chance(1, 2) {
        for t in ["m.room.message", "m.room.topic", "m.room.power_levels", "m.room.member", "org.example.x", "m.room.redaction", "m.room.third_party_invite", "m.room.aliases"] {
            if r.chance(1, 4) {
                p = p.event(t, rand_level(r));
            }
        }
    }
    if r.chance(1, 3) {
        for t in ["room", "x"] {
            if r.chance(1, 2) {
                p = p.notif(t, rand_level(r));
            }
        }
    }
    let mut o = p.content();
    if r.chance(1, 12) {
        let k = *r.pick(&["users", "events", "notifications", "ban", "users_default"]);
        o.insert(k.to_owned(), gen_json(r, 2));
    }
    o
}

fn rand_case(r: &mut Rng) -> Case {
    let v = 1 + r.below(11) as u32;
    let mut c = Case::base(v);
    let users = [ALICE, BOB, CREATOR, DAVE, EVE];
    for u in users {
        let m = if r.chance(1, 2) { 1 } else { r.below(N_MEMB) };
        c.set_member(u, m);
    }
    if r.chance(4, 5) {
        c.set_jr(r.below(N_JR));
    }
    if r.chance(2, 3) {
        c.set_pl(Some(rand_pl(r)));
    }
    // create event variations
    {
        let who = *r.pick(&users);
        let ce = c.create_mut();
        let mut content = ce.content.clone();
        match r.below(10) {
            0 => {
                content.remove("creator");
            }
            1 => {
                content.insert("creator".into(), gen_json(r, 1));
            }
            2..=4 => {
                content.insert("creator".into(), cj(json!(who)));
            }
            _ => {}
        }
        if r.chance(1, 4) {
            content.insert("m.federate".into(), federate_value(r.below(6)).unwrap_or(CanonicalJsonValue::Null));
        }
        if r.chance(1, 4) {
            ce.sender = OwnedUserId::try_from(who).unwrap();
        }
        ce.set_content(content);
    }
    if r.chance(1, 30) {
        c.set("m.room.create", "", None);
    }
    let sender = *r.pick(&users);
    let target = *r.pick(&users);
    let kind = r.below(12);
    let mut ev = match kind {
        0..=4 => {
            let m = *r.pick(&["join", "invite", "leave", "ban", "knock", "weird"]);
            let mut content = cobj(json!({"membership": m}));
            if r.chance(1, 4) {
                content.insert("join_authorised_via_users_server".into(), if r.chance(4, 5) { cj(json!(*r.pick(&users))) } else { gen_json(r, 1) });
            }
            if r.chance(1, 8) {
                // the token is the state key of the m.room.third_party_invite event: also the empty one
                let tok = *r.pick(&["tok", "tok", ""]);
                let s = signed_object(target, tok);
                let mut t = CanonicalJsonObject::new();
                t.insert("signed".into(), CanonicalJsonValue::Object(s));
                content.insert("third_party_invite".into(), if r.chance(3, 4) { CanonicalJsonValue::Object(t) } else { gen_json(r, 2) });
                let pk = Base64::<Standard, _>::new(id_server_key().public_key().to_vec()).encode();
                c.set_content("m.room.third_party_invite", tok, *r.pick(&users), Some(cobj(json!({"public_key": pk}))));
            }
            let who = if r.chance(1, 2) { sender } else { target };
            c.mk("m.room.member", sender, Some(who), content)
        }
        5 => c.mk("m.room.power_levels", sender, Some(""), rand_pl(r)),
        6 => c.mk("m.room.message", sender, None, cobj(json!({"body": "x"}))),
        7 => c.mk("m.room.topic", sender, Some(""), cobj(json!({"topic": "x"}))),
        8 => c.mk("org.example.x", sender, Some(target), cobj(json!({}))),
        9 => c.mk("m.room.third_party_invite", sender, Some("tok"), cobj(json!({"public_key": "AAAA"}))),
        10 => {
            let mut e = c.mk("m.room.redaction", sender, None, cobj(json!({})));
            e.redacts = Some(OwnedEventId::try_from(*r.pick(&["$t:s1", "$t:s2", "$t"])).unwrap());
            e
        }
        _ => c.mk("m.room.aliases", sender, Some(*r.pick(&["s1", "s2", ""])), cobj(json!({}))),
    };
    match r.below(8) {
        0 => ev.prev = vec![c.create_id()],
        1 => ev.prev = vec![],
        _ => {}
    }
    if r.chance(1, 20) {
        ev.auth = vec![];
    }
    c.ev = ev;
    c
}

/// Single-edit mutants: replace one content value somewhere by random JSON.
fn mutate(r: &mut Rng, c: &mut Case) {
    let n = c.state.len();
    let which = r.below(n + 1);
    let e: &mut Ev = if which == n { &mut c.ev } else { &mut c.state[which].1 };
    let mut content = e.content.clone();
    let keys: Vec<String> = content.keys().cloned().collect();
    match r.below(4) {
        0 if !keys.is_empty() => {
            let k = r.pick(&keys).clone();
            content.insert(k, gen_json(r, 2));
        }
        1 if !keys.is_empty() => {
            let k = r.pick(&keys).clone();
            content.remove(&k);
        }
        2 => {
            content.insert(gen_str(r), gen_json(r, 1));
        }
        _ => {
            let k = *r.pick(&["membership", "join_rule", "users", "events", "creator", "m.federate", "third_party_invite", "ban", "users_default"]);
            content.insert(k.to_owned(), gen_json(r, 2));
        }
    }
    e.set_content(content);
}

pub fn generate(tier: &str, seed: u64, sink: &mut dyn FnMut(&str, &Case)) {
    let thorough = tier == "thorough";
    let mut g = Gen { thorough, rng: Rng::new(seed ^ 0xC08), sink, n: 0 };
    for v in 1..=11u32 {
        sys_create(&mut g, v);
        sys_preamble(&mut g, v);
        sys_member_join(&mut g, v);
        sys_member_invite_3pid(&mut g, v);
        sys_member_other(&mut g, v);
        sys_gated(&mut g, v);
        sys_power_levels(&mut g, v);
        sys_misc(&mut g, v);
        sys_type_alias(&mut g, v);
    }
    let n_random = if thorough { 400_000 } else { 12_000 };
    let mut r = Rng::new(seed ^ 0xC08_0001);
    for _ in 0..n_random {
        let c = rand_case(&mut r);
        (g.sink)("random", &c);
    }
    let mut r = Rng::new(seed ^ 0xC08_0002);
    for _ in 0..n_random / 3 {
        let mut c = rand_case(&mut r);
        mutate(&mut r, &mut c);
        if r.chance(1, 3) {
            mutate(&mut r, &mut c);
        }
        (g.sink)("malformed", &c);
    }
}

pub fn run(tier: &str, seed: u64, em: &mut Emitter) {
    let mut sink = |tag: &str, c: &Case| {
        let (out, _) = run_auth(c.v, &c.ev, &c.state);
        em.emit(tag, case_sx(c), out);
    };
    generate(tier, seed, &mut sink);
}

pub fn replay(case: &Sx) -> Option<Sx> {
    let c = sx_to_case(case)?;
    Some(run_auth(c.v, &c.ev, &c.state).0)
}

/// Probe the compiled `TimelineEventType::from` with every string literal of ruma-events'
/// `event_enum!` declaration; record the ones that do not come back as themselves (aliases).
pub fn dump(dir: &str) {
    let src = std::fs::read_to_string("/repo/crates/ruma-events/src/enums.rs").unwrap_or_default();
    let mut lits: Vec<String> = vec![];
    // every quote-delimited segment is a candidate (robust against a stray quote in a comment)
    for lit in src.split('"') {
        if !lit.is_empty() && lit.len() < 100 && lit.bytes().all(|b| b > 32 && b < 127 && b != b'\\') {
            lits.push(lit.to_owned());
        }
    }
    lits.sort();
    lits.dedup();
    let mut out = String::new();
    for l in &lits {
        let back = TimelineEventType::from(l.as_str()).to_string();
        if &back != l {
            out.push_str(&format!("{l}\t{back}\n"));
        }
    }
    std::fs::write(format!("{dir}/type_aliases.txt"), out).unwrap();
}
