//! C19 — string-valued protocol enums: `T::from(s)` / string form / serde / `==` / `cmp`
//! on every enum type listed in `gen_enums.rs` (generated from ruma's source by
//! tools/translators/c19.py, together with coq/Gen/StringEnums.v).
//!
//! Cases  (name = Rust path of the enum type):
//!   ( name N0 S<s> )        one string:  ( idx display [as_ref] debug_ok [ser] (idx display)x3 clone_eq )
//!   ( name N1 S<a> S<b> )   a pair:      ( [eq] [cmp] [eq_sym] [cmp_rev] )
//!   ( name N2 N<i> )        the string form of the i-th declared variant (empty payload) and the
//!                           position of the variant that string converts to
//!   ( name N3 )             shape: number of variants, position of the fallback
//! `idx` = position of the variant in declaration order (compared by `mem::discriminant`
//! against the variants constructed in `gen_enums.rs`).
//! The serde impls are generated glue around `From<&str>` / `as_ref`: they are checked here
//! (JSON text path, owned-string path, serialization), not proved.
use std::{cmp::Ordering, collections::BTreeMap, fmt::Debug, fmt::Display, mem::discriminant};

use serde::{de::DeserializeOwned, Serialize};

use crate::{rng::Rng, sx::Sx, Emitter};

#[path = "gen_enums.rs"]
mod gen_enums;

/// Run `f`, mapping a panic to `Sx::panic()`.
fn g<F: FnOnce() -> Sx>(f: F) -> Sx {
    crate::sx::guarded(std::panic::AssertUnwindSafe(f))
}

pub struct Info<T> {
    pub name: &'static str,
    /// variants in declaration order; `None` marks the fallback variant's position
    pub variants: Vec<Option<T>>,
    /// strings written in the source (`rename`, `alias`, event types) - generator seeds only
    pub literals: Vec<&'static str>,
    pub as_ref: Option<for<'a> fn(&'a T) -> &'a str>,
    pub eq: Option<fn(&T, &T) -> bool>,
    pub cmp: Option<fn(&T, &T) -> Ordering>,
}

pub trait Checker {
    fn name(&self) -> &'static str;
    fn literals(&self) -> &[&'static str];
    fn n_variants(&self) -> usize;
    fn one(&self, s: &str) -> Sx;
    fn pair(&self, a: &str, b: &str) -> Sx;
    fn variant(&self, i: usize) -> Sx;
    fn shape(&self) -> Sx;
    /// string forms of all dedicated variants (the implementation's own spellings)
    fn spellings(&self) -> Vec<String>;
}

pub trait EnumLike: for<'a> From<&'a str> + Display + Debug + Clone + Serialize + DeserializeOwned + 'static {}
impl<T> EnumLike for T where T: for<'a> From<&'a str> + Display + Debug + Clone + Serialize + DeserializeOwned + 'static {}

#[derive(Default)]
pub struct Registry {
    pub items: Vec<Box<dyn Checker>>,
}

impl Registry {
    pub fn add<T: EnumLike>(&mut self, i: Info<T>) {
        self.items.push(Box::new(i));
    }
}

impl<T: EnumLike> Info<T> {
    fn idx(&self, v: &T) -> i128 {
        let d = discriminant(v);
        let mut fallback = self.variants.len();
        for (i, x) in self.variants.iter().enumerate() {
            match x {
                Some(x) if discriminant(x) == d => return i as i128,
                Some(_) => {}
                None => fallback = i,
            }
        }
        fallback as i128
    }
    fn obs(&self, v: &T) -> Sx {
        Sx::L(vec![Sx::N(self.idx(v)), Sx::s(&v.to_string())])
    }
}

fn ord_code(o: Ordering) -> Sx {
    Sx::N(match o {
        Ordering::Less => 0,
        Ordering::Equal => 1,
        Ordering::Greater => 2,
    })
}

impl<T: EnumLike> Checker for Info<T> {
    fn name(&self) -> &'static str {
        self.name
    }
    fn literals(&self) -> &[&'static str] {
        &self.literals
    }
    fn n_variants(&self) -> usize {
        self.variants.len()
    }
    fn one(&self, s: &str) -> Sx {
        let v = T::from(s);
        let display = v.to_string();
        let debug_ok = format!("{v:?}") == format!("{display:?}");
        // Serialize -> the JSON text of a string; read it back as a plain String
        let ser = serde_json::to_string(&v).ok().and_then(|t| serde_json::from_str::<String>(&t).ok());
        // Deserialize from JSON text (borrowed or escaped) and from an owned value
        let text = serde_json::to_string(s).unwrap();
        let de1 = serde_json::from_str::<T>(&text).ok();
        let de2 = serde_json::from_value::<T>(serde_json::Value::String(s.to_owned())).ok();
        let again = T::from(display.as_str());
        let clone_eq = self.eq.map(|eq| eq(&v, &v.clone()));
        Sx::ok(Sx::L(vec![
            Sx::N(self.idx(&v)),
            Sx::s(&display),
            Sx::opt(self.as_ref.map(|f| Sx::s(f(&v)))),
            Sx::b(debug_ok),
            Sx::opt(ser.map(|x| Sx::s(&x))),
            Sx::opt(de1.map(|x| self.obs(&x))),
            Sx::opt(de2.map(|x| self.obs(&x))),
            self.obs(&again),
            Sx::opt(clone_eq.map(Sx::b)),
        ]))
    }
    fn pair(&self, a: &str, b: &str) -> Sx {
        let (x, y) = (T::from(a), T::from(b));
        Sx::ok(Sx::L(vec![
            Sx::opt(self.eq.map(|f| Sx::b(f(&x, &y)))),
            Sx::opt(self.cmp.map(|f| ord_code(f(&x, &y)))),
            Sx::opt(self.eq.map(|f| Sx::b(f(&y, &x)))),
            Sx::opt(self.cmp.map(|f| ord_code(f(&y, &x)))),
        ]))
    }
    fn variant(&self, i: usize) -> Sx {
        match self.variants.get(i) {
            Some(Some(v)) => {
                // the variant's own spelling, and which variant that spelling converts to
                let own = v.to_string();
                let back = T::from(own.as_str());
                Sx::ok(Sx::L(vec![Sx::s(&own), Sx::N(self.idx(&back))]))
            }
            Some(None) => Sx::ok(Sx::L(vec![])),
            None => Sx::err(0),
        }
    }
    fn shape(&self) -> Sx {
        let fb = self.variants.iter().position(|v| v.is_none()).unwrap_or(self.variants.len());
        Sx::ok(Sx::L(vec![Sx::N(self.variants.len() as i128), Sx::N(fb as i128)]))
    }
    fn spellings(&self) -> Vec<String> {
        self.variants.iter().flatten().map(|v| v.to_string()).collect()
    }
}

fn registry() -> Registry {
    let mut reg = Registry::default();
    gen_enums::register(&mut reg);
    reg
}

fn case_one(name: &str, s: &str) -> Sx {
    Sx::L(vec![Sx::s(name), Sx::N(0), Sx::s(s)])
}
fn case_pair(name: &str, a: &str, b: &str) -> Sx {
    Sx::L(vec![Sx::s(name), Sx::N(1), Sx::s(a), Sx::s(b)])
}

/// near-misses of a spelling: case, prefix/suffix, one edit
fn near_misses(s: &str, out: &mut Vec<String>) {
    let chars: Vec<char> = s.chars().collect();
    out.push(s.to_uppercase());
    out.push(s.to_lowercase());
    out.push(s.to_ascii_uppercase());
    if let Some(c) = chars.first() {
        let mut t: String = if c.is_uppercase() { c.to_lowercase().collect() } else { c.to_uppercase().collect() };
        t.extend(&chars[1..]);
        out.push(t);
    }
    out.push(format!("{s}x"));
    out.push(format!("{s}."));
    out.push(format!("{s}.*"));
    out.push(format!("{s}.x"));
    out.push(format!("{s}\u{0}"));
    out.push(format!(" {s}"));
    out.push(format!("{s} "));
    out.push(format!("x{s}"));
    out.push(format!("m.{s}"));
    out.push(format!("M_{s}"));
    out.push(format!("org.matrix.{s}"));
    for p in ["m.", "M_", ".m.rule.", "m.role.", "org.matrix.", "m.room."] {
        if let Some(r) = s.strip_prefix(p) {
            out.push(r.to_owned());
        }
    }
    if !chars.is_empty() {
        out.push(chars[..chars.len() - 1].iter().collect());
        out.push(chars[1..].iter().collect());
        for k in [0, chars.len() / 2, chars.len() - 1] {
            let mut c = chars.clone();
            c[k] = if c[k] == '_' { '-' } else if c[k] == '.' { '_' } else { 'q' };
            out.push(c.iter().collect());
            let mut c = chars.clone();
            c.remove(k);
            out.push(c.iter().collect());
            let mut c = chars.clone();
            c.insert(k, '_');
            out.push(c.iter().collect());
            if k + 1 < chars.len() {
                let mut c = chars.clone();
                c.swap(k, k + 1);
                out.push(c.iter().collect());
            }
        }
    }
    out.push(s.replace('_', "-"));
    out.push(s.replace('_', "."));
    out.push(s.replace('.', "_"));
    out.push(s.replace('-', "_"));
}

const UNICODE: &[&str] = &[
    "", " ", "\u{0}", "\n", "\"", "\\", "\\u0041", "a\"b\\c", "\u{e9}", "\u{1F600}", "\u{2028}", "\u{ffff}", "\u{10000}",
    "\u{10ffff}", "\u{130}", "\u{131}", "\u{17f}", "\u{212a}", "\u{df}", "\u{fb01}", "A", "a", "_", "-", ".", "*", ".*", "m.", "M_",
    "m", "~", "\u{7f}", "\u{80}", "zzzz", "0", "1", "\t", "null", "true", "{}", "[]",
];

fn random_string(r: &mut Rng, pool: &[String]) -> String {
    match r.below(4) {
        0 => crate::jgen::gen_str(r),
        1 => {
            let n = r.below(12);
            (0..n)
                .map(|_| {
                    let c = match r.below(6) {
                        0 => r.below(0x80) as u32,
                        1 => 0x80 + r.below(0x780) as u32,
                        2 => 0x800 + r.below(0xF800) as u32,
                        3 => 0x10000 + r.below(0x100000) as u32,
                        _ => *r.pick(&[b'a', b'm', b'.', b'_', b'-', b'M', b'*', b'r']) as u32,
                    };
                    char::from_u32(c).unwrap_or('\u{fffd}')
                })
                .collect()
        }
        _ => {
            // a mutated known spelling
            if pool.is_empty() {
                return String::new();
            }
            let mut c: Vec<char> = r.pick(pool).chars().collect();
            for _ in 0..1 + r.below(2) {
                let k = r.below(c.len() + 1);
                match r.below(4) {
                    0 if k < c.len() => {
                        c.remove(k);
                    }
                    1 => c.insert(k.min(c.len()), *r.pick(&['.', '_', 'x', 'M', '\u{e9}', '*', 'A', '\u{1F600}'])),
                    2 if k < c.len() => c[k] = if c[k].is_uppercase() { c[k].to_ascii_lowercase() } else { c[k].to_ascii_uppercase() },
                    _ => c.truncate(k),
                }
            }
            c.into_iter().collect()
        }
    }
}

pub fn run(tier: &str, seed: u64, em: &mut Emitter) {
    let reg = registry();
    let thorough = tier == "thorough";
    let mut rng = Rng::new(seed ^ 0xC19);
    // every spelling the implementation itself prints for a dedicated variant, plus every literal of the source
    let mut pool: Vec<String> = vec![];
    for c in &reg.items {
        pool.extend(c.spellings());
        pool.extend(c.literals().iter().map(|s| s.trim_end_matches('*').to_owned()));
    }
    pool.sort();
    pool.dedup();

    for c in &reg.items {
        let name = c.name();
        // --- systematic: shape, every declared variant, every own spelling / literal and its near-misses
        em.emit("systematic-shape", Sx::L(vec![Sx::s(name), Sx::N(3)]), g(|| c.shape()));
        for i in 0..=c.n_variants() {
            em.emit("systematic-variant", Sx::L(vec![Sx::s(name), Sx::N(2), Sx::N(i as i128)]), g(|| c.variant(i)));
        }
        let mut own: Vec<String> = c.spellings();
        own.extend(c.literals().iter().map(|s| s.trim_end_matches('*').to_owned()));
        own.sort();
        own.dedup();
        let mut strings: Vec<String> = own.clone();
        for s in &own {
            near_misses(s, &mut strings);
            // wildcard prefixes with suffixes (harmless for exact spellings: they become unknown strings)
            for suf in ["x", "abc.def", "", "*", "\u{e9}\u{1F600}", "m.room.message", "."] {
                strings.push(format!("{s}{suf}"));
            }
            // a suffix that repeats the spelling itself (a prefix arm must strip its prefix once)
            strings.push(format!("{s}{s}"));
            strings.push(format!("{s}{s}x"));
            strings.push(format!("{s}{s}{s}"));
        }
        strings.extend(UNICODE.iter().map(|s| (*s).to_owned()));
        strings.sort();
        strings.dedup();
        for s in &strings {
            em.emit("systematic-spelling", case_one(name, s), g(|| c.one(s)));
        }
        // --- spellings of all the other enums (an enum must not alter what it does not know)
        let step = if thorough { 1 } else { 3 };
        for (k, s) in pool.iter().enumerate() {
            if k % step == (name.len() % step) {
                em.emit("cross-enum", case_one(name, s), g(|| c.one(s)));
            }
        }
        // --- pairs: == / cmp against the string forms
        let mut ps: Vec<String> = own.clone();
        ps.extend(["", "a", "m", "m.", "zzzz", "~", "M", "\u{e9}"].iter().map(|s| (*s).to_owned()));
        for s in own.iter().take(4) {
            ps.push(format!("{s}x"));
            ps.push(s.to_uppercase());
        }
        ps.sort();
        ps.dedup();
        if ps.len() <= 14 || thorough {
            for a in &ps {
                for b in &ps {
                    em.emit("systematic-pair", case_pair(name, a, b), g(|| c.pair(a, b)));
                }
            }
        } else {
            for _ in 0..200 {
                let (a, b) = (rng.pick(&ps).clone(), rng.pick(&ps).clone());
                em.emit("random-pair", case_pair(name, &a, &b), g(|| c.pair(&a, &b)));
            }
        }
        // --- random Unicode / mutated spellings
        let n = if thorough { 3000 } else { 150 };
        for _ in 0..n {
            let s = random_string(&mut rng, &own);
            em.emit("random-unicode", case_one(name, &s), g(|| c.one(&s)));
            if rng.chance(1, 4) {
                let t = random_string(&mut rng, &own);
                em.emit("random-pair", case_pair(name, &s, &t), g(|| c.pair(&s, &t)));
            }
        }
    }
    // --- malformed: an enum name the model does not know is not a case; nothing to emit here.
}

pub fn replay(case: &Sx) -> Option<Sx> {
    let l = case.as_list()?;
    let name = l.first()?.as_string()?;
    let reg = registry();
    let by: BTreeMap<&str, &Box<dyn Checker>> = reg.items.iter().map(|c| (c.name(), c)).collect();
    let c = by.get(name.as_str())?;
    match (l.get(1)?.as_int()?, &l[2..]) {
        (0, [s]) => {
            let s = s.as_string()?;
            Some(g(|| c.one(&s)))
        }
        (1, [a, b]) => {
            let (a, b) = (a.as_string()?, b.as_string()?);
            Some(g(|| c.pair(&a, &b)))
        }
        (2, [i]) => {
            let i = usize::try_from(i.as_int()?).ok()?;
            Some(g(|| c.variant(i)))
        }
        (3, []) => Some(g(|| c.shape())),
        _ => None,
    }
}

pub fn dump(_dir: &str) {}
