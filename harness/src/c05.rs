//! C05 — content hash / reference hash.  case = ( op version object )
//!   op 0: content_hash -> digest bytes     op 1: reference_hash(rules of version) -> string
//!   op 2: hashes.sha256 written by hash_and_sign_event -> string
use ruma_common::{CanonicalJsonObject, CanonicalJsonValue, RoomVersionId};
use ruma_signatures::{content_hash, hash_and_sign_event, reference_hash, Ed25519KeyPair, Error};

use crate::{
    c04::gen_event,
    jgen::gen_json,
    rng::Rng,
    sx::{guarded, obj_to_sx, Sx},
    Emitter,
};

fn err_code(e: &Error) -> i128 {
    match e {
        Error::PduSize => 1,
        _ => 2,
    }
}

fn keypair() -> Ed25519KeyPair {
    let doc = Ed25519KeyPair::generate().unwrap();
    Ed25519KeyPair::from_der(&doc, "1".into()).unwrap()
}

/// op 3 / 4: Base64<Standard> / Base64<UrlSafe>::parse of an arbitrary string (case = ( op 0 string )).
pub fn run_b64(url: bool, text: &[u8]) -> Sx {
    use ruma_common::serde::{base64::{Standard, UrlSafe}, Base64};
    let text = text.to_vec();
    guarded(move || {
        let r = if url { Base64::<UrlSafe>::parse(&text).map(|b| b.into_inner()) } else { Base64::<Standard>::parse(&text).map(|b| b.into_inner()) };
        match r {
            Ok(b) => Sx::ok(Sx::S(b)),
            Err(_) => Sx::err(0),
        }
    })
}

pub fn run_case(op: u32, version: u32, obj: &CanonicalJsonObject) -> Sx {
    let rules = RoomVersionId::try_from(version.to_string().as_str()).unwrap().rules().unwrap();
    let obj = obj.clone();
    guarded(move || match op {
        0 => match content_hash(&obj) {
            Ok(h) => Sx::ok(Sx::S(h.as_bytes().to_vec())),
            Err(e) => Sx::err(err_code(&e)),
        },
        1 => match reference_hash(&obj, &rules) {
            Ok(s) => Sx::ok(Sx::s(&s)),
            Err(e) => Sx::err(err_code(&e)),
        },
        _ => {
            let mut o = obj;
            // hash_and_sign_event computes the content hash first; later errors (hashes not an
            // object, redaction) are outside this case's scope: report only what was stored.
            match content_hash(&o) {
                Err(e) => Sx::err(err_code(&e)),
                Ok(_) => match hash_and_sign_event("domain", &keypair(), &mut o, &rules.redaction) {
                    Ok(()) => match o.get("hashes").and_then(|h| h.as_object()).and_then(|h| h.get("sha256")) {
                        Some(CanonicalJsonValue::String(s)) => Sx::ok(Sx::s(s)),
                        _ => Sx::L(vec![Sx::N(3)]),
                    },
                    Err(_) => Sx::L(vec![Sx::N(4)]),
                },
            }
        }
    })
}

fn case_sx(op: u32, version: u32, obj: &CanonicalJsonObject) -> Sx {
    Sx::L(vec![Sx::n(op), Sx::n(version), obj_to_sx(obj)])
}

pub fn replay(case: &Sx) -> Option<Sx> {
    let l = case.as_list()?;
    let op = l.first()?.as_int()?;
    if op == 3 || op == 4 {
        return Some(run_b64(op == 4, l.get(2)?.as_bytes()?));
    }
    let obj = crate::sx::sx_to_obj(l.get(2)?)?;
    Some(run_case(l.first()?.as_int()? as u32, l.get(1)?.as_int()? as u32, &obj))
}

pub fn dump(_dir: &str) {}

fn emit(em: &mut Emitter, tag: &str, op: u32, v: u32, obj: &CanonicalJsonObject) {
    let out = run_case(op, v, obj);
    // op 2 outcomes 3/4 mean "hash_and_sign_event failed after hashing": not a C05 case
    if op == 2 {
        if let Sx::L(l) = &out {
            if matches!(l.first(), Some(Sx::N(3)) | Some(Sx::N(4))) {
                return;
            }
        }
    }
    em.emit(tag, case_sx(op, v, obj), out);
}

/// An event whose content-hash preimage has exactly `target` bytes.
fn sized_event(target: usize, with_extras: bool) -> CanonicalJsonObject {
    let mut ev = CanonicalJsonObject::new();
    ev.insert("type".into(), CanonicalJsonValue::String("m.room.message".into()));
    ev.insert("sender".into(), CanonicalJsonValue::String("@a:b.c".into()));
    ev.insert("pad".into(), CanonicalJsonValue::String(String::new()));
    let base = serde_json::to_string(&ev).unwrap().len();
    ev.insert("pad".into(), CanonicalJsonValue::String("x".repeat(target - base)));
    if with_extras {
        let mut u = CanonicalJsonObject::new();
        u.insert("age".into(), CanonicalJsonValue::Integer(1.into()));
        ev.insert("unsigned".into(), CanonicalJsonValue::Object(u));
        ev.insert("signatures".into(), CanonicalJsonValue::Object(CanonicalJsonObject::new()));
    }
    ev
}

pub fn run(tier: &str, seed: u64, em: &mut Emitter) {
    let mut r = Rng::new(seed ^ 0xC05);
    let n = if tier == "thorough" { 20_000 } else { 800 };
    // boundary sizes (content hash preimage; for m.room.message the reference-hash preimage is
    // the redacted event, far smaller, so the reference hash must succeed)
    let sizes: &[usize] = if tier == "thorough" { &[65533, 65534, 65535, 65536, 65537, 70000] } else { &[65535, 65536] };
    for &sz in sizes {
        for extras in [false, true] {
            let ev = sized_event(sz, extras);
            emit(em, "boundary-size", 0, 4, &ev);
            emit(em, "boundary-size", 1, 4, &ev);
        }
    }
    // the limit counts bytes, not characters: multi-byte padding around the boundary
    for (ch, w) in [("\u{e9}", 2usize), ("\u{20ac}", 3), ("\u{1F600}", 4)] {
        for &sz in sizes {
            let mut ev = sized_event(300, false);
            let base = {
                let mut e2 = ev.clone();
                e2.insert("pad".into(), CanonicalJsonValue::String(String::new()));
                serde_json::to_string(&e2).unwrap().len()
            };
            let n = (sz - base) / w;
            let fill = (sz - base) % w;
            ev.insert("pad".into(), CanonicalJsonValue::String(format!("{}{}", ch.repeat(n), "x".repeat(fill))));
            emit(em, "boundary-size-multibyte", 0, 6, &ev);
        }
    }
    // reference-hash size limit: a kept top-level key of boundary size
    for &sz in sizes {
        let mut ev = sized_event(200, false);
        let base = {
            let mut e2 = ev.clone();
            e2.remove("pad");
            e2.insert("room_id".into(), CanonicalJsonValue::String(String::new()));
            // redacted form keeps type, sender, room_id
            serde_json::to_string(&e2).unwrap().len()
        };
        ev.insert("room_id".into(), CanonicalJsonValue::String("r".repeat(sz - base)));
        emit(em, "boundary-size-ref", 1, 9, &ev);
    }
    // Systematic: every (version, type) with all specified keys present (the cells in which the
    // room versions differ), hashed three ways; and events that already carry a `hashes.sha256`.
    for v in 1..=11u32 {
        for ty in crate::c04::TYPES {
            let ev = crate::c04::full_event(ty);
            emit(em, "systematic", 0, v, &ev);
            emit(em, "systematic", 1, v, &ev);
            let mut stale = ev.clone();
            let mut h = CanonicalJsonObject::new();
            h.insert("sha256".into(), CanonicalJsonValue::String("c3RhbGU".into()));
            h.insert("md5".into(), CanonicalJsonValue::String("x".into()));
            stale.insert("hashes".into(), CanonicalJsonValue::Object(h));
            emit(em, "systematic-stale-hash", 1, v, &stale);
            // hash_and_sign_event needs `signatures` to be absent or an object of objects
            stale.remove("signatures");
            emit(em, "systematic-stale-hash", 2, v, &stale);
            let mut set = CanonicalJsonObject::new();
            set.insert("ed25519:0".into(), CanonicalJsonValue::String("AAAA".into()));
            let mut sigs = CanonicalJsonObject::new();
            sigs.insert("other".into(), CanonicalJsonValue::Object(set));
            stale.insert("signatures".into(), CanonicalJsonValue::Object(sigs));
            stale.insert("unsigned".into(), CanonicalJsonValue::Object(CanonicalJsonObject::new()));
            emit(em, "systematic-stale-hash", 2, v, &stale);
        }
    }
    // base64 decoding as ruma configures it (indifferent padding, trailing bits allowed): exhaustive
    // over short strings of a small alphabet, both alphabets
    {
        const ALPHA: &[u8] = b"AQZaz09+/-_= !";
        let max_len = if tier == "thorough" { 5 } else { 3 };
        let mut idx: Vec<usize> = vec![];
        loop {
            let t: Vec<u8> = idx.iter().map(|&k| ALPHA[k]).collect();
            for (op, url) in [(3u32, false), (4u32, true)] {
                em.emit("base64-exhaustive", Sx::L(vec![Sx::n(op), Sx::n(0u32), Sx::S(t.clone())]), run_b64(url, &t));
            }
            let mut i = idx.len();
            loop {
                if i == 0 {
                    idx = vec![0; idx.len() + 1];
                    break;
                }
                i -= 1;
                if idx[i] + 1 < ALPHA.len() {
                    idx[i] += 1;
                    for c in idx.iter_mut().skip(i + 1) {
                        *c = 0;
                    }
                    break;
                }
            }
            if idx.len() > max_len {
                break;
            }
        }
    }
    for _ in 0..n {
        let mut ev = gen_event(&mut r);
        if r.chance(1, 2) {
            ev.insert("hashes".into(), gen_json(&mut r, 2));
        }
        if r.chance(1, 2) {
            ev.insert("signatures".into(), gen_json(&mut r, 2));
        }
        let v = 1 + r.below(11) as u32;
        emit(em, "random", 0, v, &ev);
        emit(em, "random", 1, v, &ev);
        if r.chance(1, 4) {
            emit(em, "random-stored", 2, v, &ev);
        }
        // single-field mutations inside / outside the covered portion: the outcome of the
        // mutated event is compared with the model like any other case
        let keys: Vec<String> = ev.keys().cloned().collect();
        if !keys.is_empty() {
            let k = r.pick(&keys).clone();
            let mut m = ev.clone();
            m.insert(k, gen_json(&mut r, 1));
            emit(em, "mutant", 0, v, &m);
            emit(em, "mutant", 1, v, &m);
        }
        for k in ["unsigned", "signatures", "hashes"] {
            if r.chance(1, 3) {
                let mut m = ev.clone();
                m.insert(k.into(), gen_json(&mut r, 2));
                emit(em, "mutant-uncovered", 0, v, &m);
                emit(em, "mutant-uncovered", 1, v, &m);
            }
        }
    }
}
