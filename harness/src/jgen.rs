//! Random canonical JSON values.
use js_int::Int;
use ruma_common::{CanonicalJsonObject, CanonicalJsonValue};

use crate::rng::Rng;

pub const STRS: &[&str] = &[
    "", "a", "b", "x y", "\u{e9}", "\u{0}", "\n", "\"q\\", "\u{1F600}", "\u{7f}", "\u{2028}", "zz", "m.room.member", "signed",
    "\u{ffff}", "\u{10000}", "A", "_", "~",
];

pub fn gen_str(r: &mut Rng) -> String {
    if r.chance(3, 4) {
        (*r.pick(STRS)).to_owned()
    } else {
        let n = r.below(6);
        (0..n).map(|_| *r.pick(&['a', 'b', '.', '\\', ' ', '\u{e9}', '\u{1F600}', '0', '\u{1}', '"'])).collect()
    }
}

pub fn gen_int(r: &mut Rng) -> Int {
    const B: &[i64] = &[0, 1, -1, 50, 100, 9007199254740991, -9007199254740991, 9007199254740990, 255, 256, 65535];
    if r.chance(2, 3) {
        Int::new(*r.pick(B)).unwrap()
    } else {
        Int::new((r.next() % 2000) as i64 - 1000).unwrap()
    }
}

pub fn gen_json(r: &mut Rng, depth: usize) -> CanonicalJsonValue {
    let k = if depth == 0 { r.below(4) } else { r.below(6) };
    match k {
        0 => CanonicalJsonValue::Null,
        1 => CanonicalJsonValue::Bool(r.chance(1, 2)),
        2 => CanonicalJsonValue::Integer(gen_int(r)),
        3 => CanonicalJsonValue::String(gen_str(r)),
        4 => {
            let n = r.below(4);
            CanonicalJsonValue::Array((0..n).map(|_| gen_json(r, depth - 1)).collect())
        }
        _ => CanonicalJsonValue::Object(gen_obj(r, depth - 1)),
    }
}

pub fn gen_obj(r: &mut Rng, depth: usize) -> CanonicalJsonObject {
    let n = r.below(4);
    let mut o = CanonicalJsonObject::new();
    for _ in 0..n {
        o.insert(gen_str(r), gen_json(r, depth));
    }
    o
}
