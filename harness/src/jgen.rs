//! Random canonical JSON values.
use js_int::Int;
use ruma_common::{CanonicalJsonObject, CanonicalJsonValue};

use crate::rng::Rng;

pub const STRS: &[&str] = &[
    "", "a", "b", "x y", "\u{e9}", "\u{0}", "\n", "\"q\\", "\u{1F600}", "\u{7f}", "\u{2028}", "zz", "m.room.member", "signed",
    "\u{ffff}", "\u{10000}", "A", "_", "~",
];

pub fn gen_str(r: &mut Rng) -> String {
    if r.chance(3, 4) {
        (*r.pick(STRS)).to_owned()
    } else {
        let n = r.below(6);
        (0..n).map(|_| *r.pick(&['a', 'b', '.', '\\', ' ', '\u{e9}', '\u{1F600}', '0', '\u{1}', '"'])).collect()
    }
}

/// Every short string literal of the source files the JSON-level properties are anchored in
/// (read at build time, so the list follows /repo): a member name the code treats specially,
/// today or after a change, must occur as a key of generated objects.
pub fn source_keys() -> &'static [String] {
    static K: std::sync::OnceLock<Vec<String>> = std::sync::OnceLock::new();
    K.get_or_init(|| {
        let srcs = [
            include_str!("/repo/crates/ruma-signatures/src/functions.rs"),
            include_str!("/repo/crates/ruma-common/src/canonical_json.rs"),
            include_str!("/repo/crates/ruma-common/src/canonical_json/value.rs"),
        ];
        let mut out: Vec<String> = vec![];
        for src in srcs {
            for piece in src.split('"').skip(1).step_by(2) {
                let ok = !piece.is_empty()
                    && piece.len() <= 40
                    && piece.chars().all(|c| c.is_ascii_alphanumeric() || matches!(c, '_' | '.' | ':' | '-'));
                if ok && !out.iter().any(|k| k == piece) {
                    out.push(piece.to_owned());
                }
            }
        }
        out.sort();
        out
    })
}

pub fn gen_key(r: &mut Rng) -> String {
    if r.chance(1, 4) {
        r.pick(source_keys()).clone()
    } else {
        gen_str(r)
    }
}

pub fn gen_int(r: &mut Rng) -> Int {
    const B: &[i64] = &[0, 1, -1, 50, 100, 9007199254740991, -9007199254740991, 9007199254740990, 255, 256, 65535];
    if r.chance(2, 3) {
        Int::new(*r.pick(B)).unwrap()
    } else {
        Int::new((r.next() % 2000) as i64 - 1000).unwrap()
    }
}

pub fn gen_json(r: &mut Rng, depth: usize) -> CanonicalJsonValue {
    let k = if depth == 0 { r.below(4) } else { r.below(6) };
    match k {
        0 => CanonicalJsonValue::Null,
        1 => CanonicalJsonValue::Bool(r.chance(1, 2)),
        2 => CanonicalJsonValue::Integer(gen_int(r)),
        3 => CanonicalJsonValue::String(gen_str(r)),
        4 => {
            let n = r.below(4);
            CanonicalJsonValue::Array((0..n).map(|_| gen_json(r, depth - 1)).collect())
        }
        _ => CanonicalJsonValue::Object(gen_obj(r, depth - 1)),
    }
}

pub fn gen_obj(r: &mut Rng, depth: usize) -> CanonicalJsonObject {
    let n = r.below(4);
    let mut o = CanonicalJsonObject::new();
    for _ in 0..n {
        o.insert(gen_key(r), gen_json(r, depth));
    }
    o
}
