//! C18, content clause through the derive model: for every event-content struct whose schema the
//! translator read off ruma's source (gen_schemas.json, regenerated on every run), generate JSON
//! from the schema — members present / absent / null, primary names and aliases, unknown extra
//! members, boundary integers, valid and invalid identifiers, ill-typed mutants — and run the real
//! `Any*EventContent::from_parts` + `serde_json::to_string`.  The Coq side runs the generic derive
//! interpreters (C18.Serde) on the generated schema and must produce the same text.
//!
//! Case   ( N4 S<kind> S<type> <content: json> )
//! Outcome ( N0 S<serialized text> )  |  ( N1 N0 )
use ruma_common::CanonicalJsonValue;
use serde_json::{json, Map, Value};

use crate::{
    rng::Rng,
    sx::{guarded, json_to_sx, sx_to_json, Sx},
    Emitter,
};

const SCHEMAS: &str = include_str!("gen_schemas.json");

const MAXI: i64 = 9007199254740991;

fn ids(class: u64) -> (&'static [&'static str], &'static [&'static str]) {
    match class {
        1 => (&["@alice:example.org", "@b:h", "@a\u{e9}:x.y", "@u:[::1]:80", "@=_-./+:s.t"], &["alice", "@:x", "@a", "", "#a:b", "@a:b:c:d:"]),
        2 => (&["!r:example.org", "!opaque", "!a:b:c", "!x:h.k:8448"], &["r:example.org", "", "#r:x", "!a\u{0}b"]),
        3 => (&["$e:example.org", "$AbCd_-09", "$x"], &["e", "", "!e:x", "$a\u{0}"]),
        4 => (&["#a:example.org", "#\u{e9}:x.y", "#:h"], &["a:example.org", "#a", "", "!a:b"]),
        5 => (&["example.org", "h:8448", "[::1]", "1.2.3.4:80", "a-b.c"], &["", ":80", "a b", "h:port", "[::1", "h:123456"]),
        6 => (&["!r:example.org", "#a:example.org", "!opaque"], &["r", "", "@a:b", "#a"]),
        7 => (&["AAAA", "aGVsbG8", "ab-_"], &["", "a b", "\u{e9}"]),
        8 => (&["secret", "a.b=_-9"], &["", "a b", "\u{e9}"]),
        9 => (&["1", "11", "org.example.v", "x"], &["", "123456789012345678901234567890123"]),
        11 => (&["sess.ion=_-1", "a"], &["", "a b", "\u{e9}", "a/b"]),
        10 => (&["ed25519:1", "ed25519:abc_9", "ed25519:0"], &["ed25519", "ed25519:", ":1", "ed25519:\u{e9}", "ed25519:a b"]),
        _ => (&["x"], &[""]),
    }
}

const STRS: &[&str] = &["", "a", "text/plain", "m.megolm.v1.aes-sha2", "\u{e9}\u{1F600}", "with \"quote\" \\ and \n", "0", "null", "m.ban", "org.matrix.mjolnir.ban", "can_join", "forbidden", "shared", "world_readable"];

fn rand_json(r: &mut Rng, depth: u32) -> Value {
    match r.below(if depth > 2 { 5 } else { 7 }) {
        0 => Value::Null,
        1 => json!(r.chance(1, 2)),
        2 => json!((r.below(2001) as i64) - 1000),
        3 => json!(*r.pick(STRS)),
        4 => json!(MAXI),
        5 => Value::Array((0..r.below(3)).map(|_| rand_json(r, depth + 1)).collect()),
        _ => {
            let mut m = Map::new();
            for _ in 0..r.below(3) {
                m.insert(format!("k{}", r.below(5)), rand_json(r, depth + 1));
            }
            Value::Object(m)
        }
    }
}

fn wrong_type(r: &mut Rng, v: &Value) -> Value {
    // a scalar / container of another JSON type
    loop {
        let c = match r.below(6) {
            0 => Value::Null,
            1 => json!(true),
            2 => json!(7),
            3 => json!("7"),
            4 => json!([]),
            _ => json!({}),
        };
        if std::mem::discriminant(&c) != std::mem::discriminant(v) {
            return c;
        }
    }
}

pub struct Cfg {
    /// probability (out of 100) of an ill-typed / invalid leaf
    pub bad: u64,
    /// probability (out of 100) of an unknown extra member per struct
    pub extra: u64,
}

pub fn gen(r: &mut Rng, t: &Value, cfg: &Cfg) -> Value {
    let a = t.as_array().expect("schema node");
    let v = match a[0].as_str().expect("schema tag") {
        "str" => json!(*r.pick(STRS)),
        "id" => {
            let (good, bad) = ids(a[1].as_u64().unwrap());
            if r.chance(cfg.bad, 100) { json!(*r.pick(bad)) } else { json!(*r.pick(good)) }
        }
        "enum" => {
            let al = a[1].as_array().unwrap();
            if !al.is_empty() && r.chance(1, 3) {
                let p = r.pick(al).as_array().unwrap();
                json!(p[r.below(2)].as_str().unwrap())
            } else {
                json!(*r.pick(STRS))
            }
        }
        "bool" => json!(r.chance(1, 2)),
        "int" => {
            let (lo, hi) = (a[1].as_i64().unwrap_or(i64::MIN).max(-MAXI), a[2].as_i64().unwrap_or(i64::MAX).min(MAXI));
            match r.below(8) {
                0 => json!(lo),
                1 => json!(hi),
                2 if cfg.bad > 0 && lo > -MAXI => json!(lo - 1),
                3 if cfg.bad > 0 && hi < MAXI => json!(hi + 1),
                4 => json!(0.max(lo).min(hi)),
                _ => json!(lo.max(-1000) + (r.below(2000) as i64).min(hi.saturating_sub(lo.max(-1000)))),
            }
        }
        "intlax" => {
            // an integer, or (legacy power levels) a string holding one
            match r.below(10) {
                0 => json!(*r.pick(&["50", "+5", " 7 ", "-3", "0", "\t100\n", "9007199254740991", "-9007199254740991"])),
                1 if cfg.bad > 0 => json!(*r.pick(&["++1", "+", "-", "", " ", "abc", "1.0", "9007199254740992", "+-1", "0x10", "5 0"])),
                2 => json!(50),
                3 => json!(0),
                4 => json!(-1),
                5 => json!(MAXI),
                _ => json!((r.below(201) as i64) - 100),
            }
        }
        "mapenum" => {
            let al = a[1].as_array().unwrap();
            let mut m = Map::new();
            for _ in 0..r.below(4) {
                let k = match r.below(4) {
                    0 if !al.is_empty() => r.pick(al).as_array().unwrap()[r.below(2)].as_str().unwrap().to_owned(),
                    1 => (*r.pick(&["m.room.name", "m.room.power_levels", "m.room.message", "m.reaction"])).to_owned(),
                    _ => (*r.pick(STRS)).to_owned(),
                };
                m.insert(k, gen(r, &a[2], cfg));
            }
            if !al.is_empty() && r.chance(1, 4) {
                // the legacy and the standard name of one type together: one entry survives
                let p = r.pick(al).as_array().unwrap();
                m.insert(p[0].as_str().unwrap().to_owned(), gen(r, &a[2], cfg));
                m.insert(p[1].as_str().unwrap().to_owned(), gen(r, &a[2], cfg));
            }
            Value::Object(m)
        }
        "any" => rand_json(r, 0),
        // the tag member of a tagged struct: not looked at on input, so anything may stand there
        "const" => if r.chance(1, 4) { rand_json(r, 1) } else { a[1].clone() },
        "objany" => {
            let mut m = Map::new();
            for _ in 0..r.below(3) {
                m.insert(format!("k{}", r.below(5)), rand_json(r, 1));
            }
            Value::Object(m)
        }
        "opt" => {
            if r.chance(1, 4) { Value::Null } else { gen(r, &a[1], cfg) }
        }
        "vec" => Value::Array((0..r.below(4)).map(|_| gen(r, &a[1], cfg)).collect()),
        "map" => {
            let class = a[1].as_u64().unwrap();
            let mut m = Map::new();
            for _ in 0..r.below(4) {
                let k = if class == 0 { (*r.pick(STRS)).to_owned() } else {
                    let (good, bad) = ids(class);
                    if r.chance(cfg.bad, 200) { (*r.pick(bad)).to_owned() } else { (*r.pick(good)).to_owned() }
                };
                m.insert(k, gen(r, &a[2], cfg));
            }
            Value::Object(m)
        }
        "struct" => {
            let mut m = Map::new();
            for f in a[2].as_array().unwrap() {
                let required = f["default"][0] == "required" && f["ty"][0] != "opt" || f["default"][0] == "strict";
                let present = required && !r.chance(cfg.bad, 300) || !required && r.chance(3, 5);
                if !present {
                    continue;
                }
                let aliases = f["aliases"].as_array().unwrap();
                let name = if !aliases.is_empty() && r.chance(1, 4) { r.pick(aliases).as_str().unwrap() } else { f["name"].as_str().unwrap() };
                let val = if !required && f["ty"][0] == "opt" && r.chance(1, 6) { Value::Null } else { gen(r, &f["ty"], cfg) };
                m.insert(name.to_owned(), val);
                if !aliases.is_empty() && r.chance(cfg.bad, 400) {
                    // both spellings: serde's `duplicate field`
                    m.insert(f["name"].as_str().unwrap().to_owned(), gen(r, &f["ty"], cfg));
                    m.insert(aliases[0].as_str().unwrap().to_owned(), gen(r, &f["ty"], cfg));
                }
            }
            if r.chance(cfg.extra, 100) {
                m.insert(format!("x.unknown{}", r.below(3)), rand_json(r, 1));
            }
            Value::Object(m)
        }
        other => panic!("schema tag {other}"),
    };
    if r.chance(cfg.bad, 600) {
        let w = wrong_type(r, &v);
        // serde-derive also reads a struct from a JSON array (positionally); that shape is outside the
        // model (props/C18.json, assumptions), so a struct position never gets an array
        if a[0] == "struct" && w.is_array() { json!(7) } else { w }
    } else {
        v
    }
}

pub fn run_impl(kind: &str, ty: &str, content: &Value) -> Sx {
    use ruma_events::{
        AnyEphemeralRoomEventContent, AnyGlobalAccountDataEventContent, AnyMessageLikeEventContent,
        AnyRoomAccountDataEventContent, AnyStateEventContent, AnyToDeviceEventContent, EventContentFromType,
    };
    fn go<C: EventContentFromType + serde::Serialize>(ty: &str, text: String) -> Sx {
        let Ok(raw) = serde_json::value::RawValue::from_string(text) else { return Sx::err(0) };
        match C::from_parts(ty, &raw) {
            Ok(c) => match serde_json::to_string(&c) {
                Ok(s) => Sx::ok(Sx::s(&s)),
                Err(_) => Sx::err(1),
            },
            Err(_) => Sx::err(0),
        }
    }
    // the text fed is the canonical (key-sorted, compact) form, so that members kept as raw JSON
    // come back in the order the model prints them
    let Ok(canon) = CanonicalJsonValue::try_from(content.clone()) else { return Sx::err(8) };
    let text = serde_json::to_string(&canon).unwrap();
    match kind {
        "MessageLike" => go::<AnyMessageLikeEventContent>(ty, text),
        "State" => go::<AnyStateEventContent>(ty, text),
        "ToDevice" => go::<AnyToDeviceEventContent>(ty, text),
        "EphemeralRoom" => go::<AnyEphemeralRoomEventContent>(ty, text),
        "GlobalAccountData" => go::<AnyGlobalAccountDataEventContent>(ty, text),
        "RoomAccountData" => go::<AnyRoomAccountDataEventContent>(ty, text),
        _ => Sx::err(9),
    }
}

fn emit(em: &mut Emitter, tag: &str, kind: &str, ty: &str, content: Value) {
    let Ok(c) = CanonicalJsonValue::try_from(content.clone()) else { return };
    let case = Sx::L(vec![Sx::N(4), Sx::s(kind), Sx::s(ty), json_to_sx(&c)]);
    let (k, t) = (kind.to_owned(), ty.to_owned());
    em.emit(tag, case, guarded(move || run_impl(&k, &t, &content)));
}

pub fn run(tier: &str, seed: u64, em: &mut Emitter) {
    let all: Value = serde_json::from_str(SCHEMAS).expect("gen_schemas.json");
    let contents = all["contents"].as_array().expect("contents");
    let mut r = Rng::new(seed ^ 0xC18_5C);
    let per = if tier == "thorough" { 3000 } else { 160 };
    let clean = Cfg { bad: 0, extra: 30 };
    let dirty = Cfg { bad: 12, extra: 30 };
    for c in contents {
        let (kind, ty, sch) = (c["kind"].as_str().unwrap(), c["type"].as_str().unwrap(), &c["schema"]);
        // systematic: the empty object, and each member alone removed from a full object
        emit(em, "schema-systematic", kind, ty, json!({}));
        let full = gen(&mut r, sch, &Cfg { bad: 0, extra: 0 });
        if let Value::Object(m) = &full {
            for k in m.keys() {
                let mut m2 = m.clone();
                m2.remove(k);
                emit(em, "schema-systematic", kind, ty, Value::Object(m2));
                let mut m3 = m.clone();
                m3.insert(k.clone(), Value::Null);
                emit(em, "schema-systematic", kind, ty, Value::Object(m3));
            }
        }
        for i in 0..per {
            let cfg = if i % 3 == 2 { &dirty } else { &clean };
            let v = gen(&mut r, sch, cfg);
            emit(em, if i % 3 == 2 { "schema-mutant" } else { "schema-valid" }, kind, ty, v);
        }
    }
}

pub fn replay(kind: &Sx, ty: &Sx, content: &Sx) -> Option<Sx> {
    let (kind, ty) = (kind.as_string()?, ty.as_string()?);
    let content = serde_json::to_value(sx_to_json(content)?).ok()?;
    Some(guarded(move || run_impl(&kind, &ty, &content)))
}
