// C17 — the entry points (included by c17.rs).  Every function takes the byte-string parts of a
// case and returns what the real ruma code answered: `ok(repr)` / `er(repr)` (the call returned a
// value / an error; `repr` is a canonical rendering used to compare the fixed probe of the entry
// with its first result) or `effect()` (an error was returned AND the caller-visible state
// changed).  A panic is caught by the caller.  Nothing here may panic on its own account: the
// harness glue uses lossy conversions and `Option`s only.

fn part(p: &[Vec<u8>], i: usize) -> &[u8] {
    p.get(i).map(|v| v.as_slice()).unwrap_or(b"")
}
fn txt(p: &[Vec<u8>], i: usize) -> String {
    String::from_utf8_lossy(part(p, i)).into_owned()
}
fn opt_part(p: &[Vec<u8>], i: usize) -> Option<String> {
    let s = txt(p, i);
    if s.is_empty() {
        None
    } else {
        Some(s.strip_prefix('=').map(str::to_owned).unwrap_or(s))
    }
}

pub struct Ret {
    /// 0 = returned a value, 1 = returned an error, 5 = error with a visible effect
    kind: u8,
    code: i128,
    repr: String,
    payload: Option<Sx>,
}
fn ok<S: Into<String>>(r: S) -> Ret {
    Ret { kind: 0, code: 0, repr: r.into(), payload: None }
}
fn er<S: Into<String>>(r: S) -> Ret {
    Ret { kind: 1, code: 0, repr: r.into(), payload: None }
}
fn effect() -> Ret {
    Ret { kind: 5, code: 0, repr: String::new(), payload: None }
}
fn dbg<T: std::fmt::Debug>(r: Result<T, impl std::fmt::Debug>) -> Ret {
    match r {
        Ok(v) => ok(format!("{v:?}")),
        Err(e) => er(format!("{e:?}")),
    }
}

// ---------------------------------------------------------------------------------------------
// identifiers
// ---------------------------------------------------------------------------------------------
macro_rules! idfn {
    ($name:ident, $T:ty, |$x:ident| $acc:expr) => {
        fn $name(p: &[Vec<u8>]) -> Ret {
            let s = txt(p, 0);
            match <&$T>::try_from(s.as_str()) {
                Ok($x) => {
                    // the owned / boxed / serde forms run the same validator; touch them as well
                    let _ = <$T>::parse(s.as_str());
                    let _ = serde_json::from_value::<Box<$T>>(serde_json::Value::String(s.clone()));
                    ok($acc)
                }
                Err(e) => er(format!("{e:?}")),
            }
        }
    };
}
idfn!(e_user_id, UserId, |x| format!(
    "{} {} {} {} {} {}",
    x.localpart(),
    x.server_name(),
    x.is_historical(),
    x.matrix_to_uri(),
    x.matrix_uri(false),
    x.validate_strict().is_ok()
));
idfn!(e_room_id, RoomId, |x| format!("{:?} {} {}", x.server_name(), x.matrix_to_uri(), x.matrix_uri(true)));
idfn!(e_room_alias_id, RoomAliasId, |x| format!(
    "{} {} {} {}",
    x.alias(),
    x.server_name(),
    x.matrix_to_uri(),
    x.matrix_uri(false)
));
idfn!(e_event_id, EventId, |x| format!("{} {:?}", x.localpart(), x.server_name()));
idfn!(e_room_or_alias_id, RoomOrAliasId, |x| format!(
    "{} {} {:?}",
    x.is_room_id(),
    x.is_room_alias_id(),
    x.server_name()
));
idfn!(e_server_name, ServerName, |x| format!("{} {:?} {}", x.host(), x.port(), x.is_ip_literal()));
idfn!(e_device_key_id, DeviceKeyId, |x| format!("{} {}", x.algorithm(), x.key_name()));
idfn!(e_server_signing_key_id, ServerSigningKeyId, |x| format!("{} {}", x.algorithm(), x.key_name()));
idfn!(e_cross_signing_key_id, CrossSigningKeyId, |x| format!("{} {}", x.algorithm(), x.key_name()));
idfn!(e_one_time_key_id, OneTimeKeyId, |x| format!("{} {}", x.algorithm(), x.key_name()));
idfn!(e_client_secret, ClientSecret, |x| x.as_str().to_owned());
idfn!(e_base64_public_key, Base64PublicKey, |x| x.as_str().to_owned());
idfn!(e_session_id, SessionId, |x| x.as_str().to_owned());
idfn!(e_signing_key_version, ServerSigningKeyVersion, |x| x.as_str().to_owned());

fn e_mxc_uri(p: &[Vec<u8>]) -> Ret {
    let s = txt(p, 0);
    let m = <&MxcUri>::from(s.as_str());
    let valid = m.is_valid();
    let _ = m.server_name();
    let _ = m.media_id();
    match (m.validate(), m.parts()) {
        (Ok(()), Ok((sn, id))) => ok(format!("{valid} {sn} {id}")),
        (Ok(()), Err(e)) | (Err(e), _) => er(format!("{valid} {e:?}")),
    }
}
fn e_room_version_id(p: &[Vec<u8>]) -> Ret {
    let s = txt(p, 0);
    match RoomVersionId::try_from(s.as_str()) {
        Ok(v) => ok(format!("{} {}", v.as_str(), v.rules().is_some())),
        Err(e) => er(format!("{e:?}")),
    }
}
fn e_voip_version_id(p: &[Vec<u8>]) -> Ret {
    let s = txt(p, 0);
    dbg(VoipVersionId::try_from(s.as_str()))
}
fn e_matrix_uri(p: &[Vec<u8>]) -> Ret {
    let s = txt(p, 0);
    match MatrixUri::parse(&s) {
        Ok(u) => ok(format!("{u} {:?} {:?} {:?}", u.id(), u.via(), u.action())),
        Err(e) => er(format!("{e:?}")),
    }
}
fn e_matrix_to_uri(p: &[Vec<u8>]) -> Ret {
    let s = txt(p, 0);
    match MatrixToUri::parse(&s) {
        Ok(u) => ok(format!("{u} {:?} {:?}", u.id(), u.via())),
        Err(e) => er(format!("{e:?}")),
    }
}
fn e_base64_std(p: &[Vec<u8>]) -> Ret {
    match Base64::<Standard>::parse(part(p, 0)) {
        Ok(b) => ok(b.encode()),
        Err(e) => er(format!("{e:?}")),
    }
}
fn e_base64_url(p: &[Vec<u8>]) -> Ret {
    match Base64::<UrlSafe>::parse(part(p, 0)) {
        Ok(b) => ok(b.encode()),
        Err(e) => er(format!("{e:?}")),
    }
}

// ---------------------------------------------------------------------------------------------
// HTTP header values
// ---------------------------------------------------------------------------------------------
/// The one entry point whose full result is compared with the Coq model:
/// Ok ( Stype ( Sfilename )? ) | Err 1 (missing type) | Err 2 (invalid type).
fn e_content_disposition(p: &[Vec<u8>]) -> Ret {
    let b = part(p, 0);
    match ContentDisposition::try_from(b) {
        Ok(cd) => {
            // the `&str` form and Display must not panic either
            let shown = cd.to_string();
            let _ = shown.parse::<ContentDisposition>();
            if let Ok(s) = std::str::from_utf8(b) {
                let _ = s.parse::<ContentDisposition>();
            }
            let payload =
                Sx::L(vec![Sx::s(cd.disposition_type.as_str()), Sx::opt(cd.filename.as_deref().map(Sx::s))]);
            Ret { kind: 0, code: 0, repr: shown, payload: Some(payload) }
        }
        Err(e) => {
            let code = match e {
                ContentDispositionParseError::MissingDispositionType => 1,
                _ => 2,
            };
            Ret { kind: 1, code, repr: format!("{e:?}"), payload: None }
        }
    }
}
fn e_content_disposition_type(p: &[Vec<u8>]) -> Ret {
    match ContentDispositionType::try_from(part(p, 0)) {
        Ok(t) => ok(t.as_str()),
        Err(e) => er(format!("{e:?}")),
    }
}
fn e_token_string(p: &[Vec<u8>]) -> Ret {
    match TokenString::try_from(part(p, 0)) {
        Ok(t) => ok(t.as_str()),
        Err(e) => er(format!("{e:?}")),
    }
}
fn e_xmatrix(p: &[Vec<u8>]) -> Ret {
    let s = txt(p, 0);
    match XMatrix::parse(&s) {
        Ok(x) => {
            let shown = x.to_string();
            let _ = http::HeaderValue::from(&x);
            ok(shown)
        }
        Err(e) => er(format!("{e:?}")),
    }
}
fn e_xmatrix_header(p: &[Vec<u8>]) -> Ret {
    let Ok(hv) = http::HeaderValue::from_bytes(part(p, 0)) else { return er("header-value") };
    match XMatrix::try_from(&hv) {
        Ok(x) => ok(x.to_string()),
        Err(e) => er(format!("{e:?}")),
    }
}

// ---------------------------------------------------------------------------------------------
// JSON: canonical values, events, Raw
// ---------------------------------------------------------------------------------------------
fn e_canonical_json(p: &[Vec<u8>]) -> Ret {
    let b = part(p, 0);
    let direct = serde_json::from_slice::<CanonicalJsonValue>(b);
    // the two-step route: serde_json::Value first, then the conversions
    if let Ok(v) = serde_json::from_slice::<serde_json::Value>(b) {
        let _ = CanonicalJsonValue::try_from(v.clone());
        let _ = ruma_common::canonical_json::to_canonical_value(&v);
        if let serde_json::Value::Object(m) = v {
            let _ = ruma_common::canonical_json::try_from_json_map(m);
        }
    }
    match direct {
        Ok(c) => ok(c.to_string()),
        Err(e) => er(format!("{:?}", e.classify())),
    }
}

macro_rules! evfn {
    ($name:ident, $T:ty) => {
        fn $name(p: &[Vec<u8>]) -> Ret {
            match serde_json::from_slice::<$T>(part(p, 0)) {
                Ok(ev) => ok(format!("{ev:?}")),
                Err(e) => er(format!("{:?}", e.classify())),
            }
        }
    };
}
evfn!(e_any_timeline, AnyTimelineEvent);
evfn!(e_any_sync_timeline, AnySyncTimelineEvent);
evfn!(e_any_state, AnyStateEvent);
evfn!(e_any_sync_state, AnySyncStateEvent);
evfn!(e_any_stripped_state, AnyStrippedStateEvent);
evfn!(e_any_initial_state, AnyInitialStateEvent);
evfn!(e_any_message_like, AnyMessageLikeEvent);
evfn!(e_any_sync_message_like, AnySyncMessageLikeEvent);
evfn!(e_any_to_device, AnyToDeviceEvent);
evfn!(e_any_ephemeral, AnyEphemeralRoomEvent);
evfn!(e_any_sync_ephemeral, AnySyncEphemeralRoomEvent);
evfn!(e_any_global_account_data, AnyGlobalAccountDataEvent);
evfn!(e_any_room_account_data, AnyRoomAccountDataEvent);
evfn!(e_ruleset_json, Ruleset);
evfn!(e_push_condition_json, PushCondition);
evfn!(e_action_json, Vec<Action>);
evfn!(e_power_levels_content, ruma_events::room::power_levels::RoomPowerLevelsEventContent);
evfn!(e_member_content, ruma_events::room::member::RoomMemberEventContent);
evfn!(e_message_content, ruma_events::room::message::RoomMessageEventContent);
evfn!(e_create_content, ruma_events::room::create::RoomCreateEventContent);
evfn!(e_receipt_content, ruma_events::receipt::ReceiptEventContent);

/// `Raw<T>`: parse as raw JSON, then every accessor.
fn e_raw(p: &[Vec<u8>]) -> Ret {
    let field = txt(p, 1);
    let raw = match serde_json::from_slice::<Raw<AnyTimelineEvent>>(part(p, 0)) {
        Ok(r) => r,
        Err(e) => return er(format!("{:?}", e.classify())),
    };
    let a = raw.get_field::<String>(&field).map_err(|e| e.classify());
    let b = raw.get_field::<serde_json::Value>(&field).map(|v| v.map(|v| v.to_string())).map_err(|e| e.classify());
    let c = raw.get_field::<OwnedUserId>("sender").map_err(|e| e.classify());
    let d = raw.get_field::<&str>("type").map(|v| v.map(str::to_owned)).map_err(|e| e.classify());
    let e = raw.get_field::<CanonicalJsonValue>("content").is_ok();
    let f = raw.deserialize().is_ok();
    let g = raw.deserialize_as::<AnySyncTimelineEvent>().is_ok();
    let h = raw.deserialize_as::<CanonicalJsonObject>().is_ok();
    let i = Raw::<AnyTimelineEvent>::from_json_string(raw.json().get().to_owned()).is_ok();
    ok(format!("{a:?} {b:?} {c:?} {d:?} {e} {f} {g} {h} {i}"))
}

/// `EventContentFromType::from_parts` for every content enum.
fn e_content_from_type(p: &[Vec<u8>]) -> Ret {
    let ty = txt(p, 0);
    let Ok(raw) = serde_json::from_slice::<Box<serde_json::value::RawValue>>(part(p, 1)) else { return er("raw") };
    let a = AnyMessageLikeEventContent::from_parts(&ty, &raw).map(|c| format!("{c:?}")).map_err(|e| e.classify());
    let b = AnyStateEventContent::from_parts(&ty, &raw).map(|c| format!("{c:?}")).map_err(|e| e.classify());
    let c = AnyToDeviceEventContent::from_parts(&ty, &raw).is_ok();
    let d = AnyEphemeralRoomEventContent::from_parts(&ty, &raw).is_ok();
    let e = AnyGlobalAccountDataEventContent::from_parts(&ty, &raw).is_ok();
    let f = AnyRoomAccountDataEventContent::from_parts(&ty, &raw).is_ok();
    let any_ok = a.is_ok() || b.is_ok() || c || d || e || f;
    let r = format!("{a:?} {b:?} {c} {d} {e} {f}");
    if any_ok {
        ok(r)
    } else {
        er(r)
    }
}

// ---------------------------------------------------------------------------------------------
// push rules
// ---------------------------------------------------------------------------------------------
const USER: &str = "@jolly_jumper:server.name";

fn ruleset_of(b: &[u8]) -> Option<Ruleset> {
    match b {
        b"default" => Some(Ruleset::server_default(<&UserId>::try_from(USER).ok()?)),
        b"empty" => Some(Ruleset::new()),
        _ => serde_json::from_slice::<Ruleset>(b).ok(),
    }
}

fn ctx_of(b: &[u8]) -> Option<PushConditionRoomCtx> {
    let v: serde_json::Value = serde_json::from_slice(b).unwrap_or(serde_json::Value::Null);
    let s = |k: &str, d: &str| v.get(k).and_then(|x| x.as_str()).unwrap_or(d).to_owned();
    let n = |k: &str, d: i64| v.get(k).and_then(|x| x.as_i64()).unwrap_or(d);
    let power_levels = if v.get("no_pl").is_some() {
        None
    } else {
        let mut users = BTreeMap::new();
        if let Some(m) = v.get("users").and_then(|x| x.as_object()) {
            for (k, lv) in m {
                if let (Ok(u), Some(l)) = (OwnedUserId::try_from(k.as_str()), lv.as_i64().and_then(js_int::Int::new)) {
                    users.insert(u, l);
                }
            }
        }
        let mut notifications = NotificationPowerLevels::new();
        notifications.room = js_int::Int::new(n("room", 50))?;
        Some(PushConditionPowerLevelsCtx { users, users_default: js_int::Int::new(n("users_default", 0))?, notifications })
    };
    Some(PushConditionRoomCtx {
        room_id: OwnedRoomId::try_from(s("room_id", "!room:server.name")).ok()?,
        member_count: js_int::UInt::new(n("member_count", 3).max(0) as u64)?,
        user_id: OwnedUserId::try_from(s("user_id", USER)).ok()?,
        user_display_name: s("display_name", "Jolly Jumper"),
        power_levels,
    })
}

fn e_get_match(p: &[Vec<u8>]) -> Ret {
    let Some(rs) = ruleset_of(part(p, 0)) else { return er("ruleset") };
    let Ok(raw) = serde_json::from_slice::<Raw<serde_json::Value>>(part(p, 1)) else { return er("event") };
    let Some(cx) = ctx_of(part(p, 2)) else { return er("ctx") };
    let m = rs.get_match(&raw, &cx).map(|r| r.rule_id().to_owned());
    let a = rs.get_actions(&raw, &cx).len();
    ok(format!("{m:?} {a}"))
}
fn e_cond_applies(p: &[Vec<u8>]) -> Ret {
    let Ok(cd) = serde_json::from_slice::<PushCondition>(part(p, 0)) else { return er("condition") };
    let Ok(raw) = serde_json::from_slice::<Raw<serde_json::Value>>(part(p, 1)) else { return er("event") };
    let Some(cx) = ctx_of(part(p, 2)) else { return er("ctx") };
    let f = FlattenedJson::from_raw(&raw);
    ok(format!("{}", cd.applies(&f, &cx)))
}
fn e_flattened(p: &[Vec<u8>]) -> Ret {
    let Ok(raw) = serde_json::from_slice::<Raw<serde_json::Value>>(part(p, 0)) else { return er("event") };
    let f = FlattenedJson::from_raw(&raw);
    let path = txt(p, 1);
    ok(format!("{:?} {}", f.get(&path), f.contains_mentions()))
}
fn rule_kind_of(s: &str) -> RuleKind {
    RuleKind::from(s)
}
fn new_rule_of(kind: &str, b: &[u8]) -> Option<NewPushRule> {
    Some(match kind {
        "override" => NewPushRule::Override(serde_json::from_slice(b).ok()?),
        "underride" => NewPushRule::Underride(serde_json::from_slice(b).ok()?),
        "content" => NewPushRule::Content(serde_json::from_slice(b).ok()?),
        "room" => NewPushRule::Room(serde_json::from_slice(b).ok()?),
        "sender" => NewPushRule::Sender(serde_json::from_slice(b).ok()?),
        _ => return None,
    })
}
fn rs_text(rs: &Ruleset) -> String {
    serde_json::to_string(rs).unwrap_or_default()
}
fn e_ruleset_insert(p: &[Vec<u8>]) -> Ret {
    let Some(mut rs) = ruleset_of(part(p, 0)) else { return er("ruleset") };
    let Some(rule) = new_rule_of(&txt(p, 1), part(p, 2)) else { return er("rule") };
    let (after, before) = (opt_part(p, 3), opt_part(p, 4));
    let before_text = rs_text(&rs);
    match rs.insert(rule, after.as_deref(), before.as_deref()) {
        Ok(()) => ok(rs_text(&rs)),
        Err(e) => {
            if rs_text(&rs) != before_text {
                effect()
            } else {
                er(format!("{e:?}"))
            }
        }
    }
}
fn e_ruleset_edit(p: &[Vec<u8>]) -> Ret {
    let Some(mut rs) = ruleset_of(part(p, 0)) else { return er("ruleset") };
    let kind = rule_kind_of(&txt(p, 2));
    let id = txt(p, 3);
    let before_text = rs_text(&rs);
    let r: Result<(), String> = match txt(p, 1).as_str() {
        "remove" => rs.remove(kind, &id).map_err(|e| format!("{e:?}")),
        "enable" => rs.set_enabled(kind, &id, true).map_err(|e| format!("{e:?}")),
        "disable" => rs.set_enabled(kind, &id, false).map_err(|e| format!("{e:?}")),
        "actions" => {
            let Ok(a) = serde_json::from_slice::<Vec<Action>>(part(p, 4)) else { return er("actions") };
            rs.set_actions(kind, &id, a).map_err(|e| format!("{e:?}"))
        }
        "get" => return ok(format!("{:?}", rs.get(kind, &id).map(|r| r.rule_id().to_owned()))),
        _ => return er("op"),
    };
    match r {
        Ok(()) => ok(rs_text(&rs)),
        Err(e) => {
            if rs_text(&rs) != before_text {
                effect()
            } else {
                er(e)
            }
        }
    }
}

// ---------------------------------------------------------------------------------------------
// signatures, hashes, keys
// ---------------------------------------------------------------------------------------------
fn fixed_keypair(version: &str) -> Ed25519KeyPair {
    crate::c02::keypair(0, version)
}
fn obj_of(b: &[u8]) -> Option<CanonicalJsonObject> {
    serde_json::from_slice::<CanonicalJsonObject>(b).ok()
}
fn obj_text(o: &CanonicalJsonObject) -> String {
    serde_json::to_string(o).unwrap_or_default()
}
fn pkm_of(b: &[u8]) -> Option<PublicKeyMap> {
    serde_json::from_slice::<PublicKeyMap>(b).ok()
}
fn rules_of(b: &[u8]) -> Option<ruma_common::room_version_rules::RoomVersionRules> {
    RoomVersionId::try_from(String::from_utf8_lossy(b).as_ref()).ok()?.rules()
}
fn e_sign_json(p: &[Vec<u8>]) -> Ret {
    let Some(mut o) = obj_of(part(p, 2)) else { return er("object") };
    let before = obj_text(&o);
    match sign_json(&txt(p, 0), &fixed_keypair(&txt(p, 1)), &mut o) {
        Ok(()) => ok(obj_text(&o)),
        Err(e) => {
            if obj_text(&o) != before {
                effect()
            } else {
                er(format!("{e:?}"))
            }
        }
    }
}
fn e_verify_json(p: &[Vec<u8>]) -> Ret {
    let Some(pkm) = pkm_of(part(p, 0)) else { return er("keys") };
    let Some(o) = obj_of(part(p, 1)) else { return er("object") };
    let _ = ruma_signatures::canonical_json(&o);
    dbg(verify_json(&pkm, &o))
}
fn e_verify_event(p: &[Vec<u8>]) -> Ret {
    let Some(pkm) = pkm_of(part(p, 0)) else { return er("keys") };
    let Some(o) = obj_of(part(p, 1)) else { return er("object") };
    let Some(rules) = rules_of(part(p, 2)) else { return er("version") };
    match verify_event(&pkm, &o, &rules) {
        Ok(v) => ok(format!("{}", matches!(v, ruma_signatures::Verified::All))),
        Err(e) => er(format!("{e:?}")),
    }
}
fn e_hash_and_sign(p: &[Vec<u8>]) -> Ret {
    let Some(mut o) = obj_of(part(p, 2)) else { return er("object") };
    let Some(rules) = rules_of(part(p, 3)) else { return er("version") };
    match hash_and_sign_event(&txt(p, 0), &fixed_keypair(&txt(p, 1)), &mut o, &rules.redaction) {
        Ok(()) => ok(obj_text(&o)),
        Err(e) => er(format!("{e:?}")),
    }
}
fn e_hashes(p: &[Vec<u8>]) -> Ret {
    let Some(o) = obj_of(part(p, 0)) else { return er("object") };
    let Some(rules) = rules_of(part(p, 1)) else { return er("version") };
    let c = content_hash(&o).map(|h| h.encode()).map_err(|e| format!("{e:?}"));
    let r = reference_hash(&o, &rules).map_err(|e| format!("{e:?}"));
    let j = ruma_signatures::canonical_json(&o).map_err(|e| format!("{e:?}"));
    let t = format!("{c:?} {r:?} {j:?}");
    if c.is_ok() && r.is_ok() {
        ok(t)
    } else {
        er(t)
    }
}
fn e_redact(p: &[Vec<u8>]) -> Ret {
    let Some(o) = obj_of(part(p, 0)) else { return er("object") };
    let Some(rules) = rules_of(part(p, 1)) else { return er("version") };
    match ruma_common::canonical_json::redact(o, &rules.redaction, None) {
        Ok(r) => ok(obj_text(&r)),
        Err(e) => er(format!("{e:?}")),
    }
}
/// public content sub-structures that derive Deserialize and can be read from a text on their own
/// (not only through the enum that buffers the value first)
fn e_content_parts(p: &[Vec<u8>]) -> Ret {
    let s = txt(p, 0);
    let which = part(p, 1).first().copied().unwrap_or(b'0');
    fn go<T: serde::de::DeserializeOwned + std::fmt::Debug>(s: &str) -> Ret {
        match serde_json::from_str::<T>(s) {
            Ok(v) => ok(format!("{v:?}")),
            Err(e) => er(format!("{e}")),
        }
    }
    match which {
        b'0' => go::<ruma_events::room::join_rules::Restricted>(&s),
        b'1' => go::<ruma_events::room::join_rules::AllowRule>(&s),
        b'2' => go::<ruma_events::room::join_rules::JoinRule>(&s),
        b'3' => go::<ruma_events::room::power_levels::RoomPowerLevelsEventContent>(&s),
        b'4' => go::<ruma_events::room::member::RoomMemberEventContent>(&s),
        _ => go::<ruma_events::room::join_rules::RoomJoinRulesEventContent>(&s),
    }
}

fn e_from_der(p: &[Vec<u8>]) -> Ret {
    match Ed25519KeyPair::from_der(part(p, 0), txt(p, 1)) {
        Ok(k) => {
            let s = k.sign(b"probe");
            ok(format!("{:?} {}", k.public_key(), s.id()))
        }
        Err(e) => er(format!("{e:?}")),
    }
}

// ---------------------------------------------------------------------------------------------
// HTML
// ---------------------------------------------------------------------------------------------
fn e_sanitize_html(p: &[Vec<u8>]) -> Ret {
    let s = txt(p, 0);
    let mode = part(p, 1).first().copied().unwrap_or(b'0');
    let out = match mode {
        b'0' => ruma_html::sanitize_html(&s, HtmlSanitizerMode::Strict, RemoveReplyFallback::No),
        b'1' => ruma_html::sanitize_html(&s, HtmlSanitizerMode::Strict, RemoveReplyFallback::Yes),
        b'2' => ruma_html::sanitize_html(&s, HtmlSanitizerMode::Compat, RemoveReplyFallback::Yes),
        b'3' => ruma_html::remove_html_reply_fallback(&s),
        _ => {
            let h = Html::parse(&s);
            // walk the tree the way a client rendering the message would, before and after sanitizing
            let mut n = 0usize;
            for pass in 0..2 {
                if pass == 1 {
                    h.sanitize();
                }
                let mut stack: Vec<_> = h.children().collect();
                while let Some(node) = stack.pop() {
                    n += 1;
                    if let Some(el) = node.as_element() {
                        n += el.attrs.borrow().len();
                        // the typed view of the element and its attributes (ruma-html feature `matrix`)
                        n += format!("{:?}", el.to_matrix()).len() & 1;
                    }
                    stack.extend(node.children());
                }
            }
            format!("{n} {h}")
        }
    };
    ok(out)
}

// ---------------------------------------------------------------------------------------------
// HTTP messages into every endpoint of the five API crates
// ---------------------------------------------------------------------------------------------
fn headers_of(text: &[u8], h: &mut http::HeaderMap) {
    for line in text.split(|b| *b == b'\n') {
        let Some(i) = line.iter().position(|b| *b == b':') else { continue };
        let (k, v) = (&line[..i], &line[i + 1..]);
        let v = v.strip_prefix(b" ").unwrap_or(v);
        if let (Ok(k), Ok(v)) = (http::header::HeaderName::from_bytes(k), http::HeaderValue::from_bytes(v)) {
            h.append(k, v);
        }
    }
}

macro_rules! dispatch_tables {
    ($( $($seg:ident)::+ ),* $(,)?) => {
        #[allow(deprecated)]
        fn endpoint_names() -> Vec<String> {
            vec![ $( stringify!($($seg)::+).split_whitespace().collect::<String>() ),* ]
        }
        #[allow(deprecated)]
        fn dispatch_request(idx: usize, req: http::Request<Vec<u8>>, args: &[String]) -> Ret {
            let fs: &[fn(http::Request<Vec<u8>>, &[String]) -> Ret] = &[
                $( |req, args| match <$($seg)::+::Request as IncomingRequest>::try_from_http_request(req, args) {
                    Ok(r) => ok(format!("{r:?}")),
                    Err(e) => er(format!("{e:?}")),
                } ),*
            ];
            match fs.get(idx) { Some(f) => f(req, args), None => er("endpoint") }
        }
        #[allow(deprecated)]
        fn dispatch_response(idx: usize, resp: http::Response<Vec<u8>>) -> Ret {
            let fs: &[fn(http::Response<Vec<u8>>) -> Ret] = &[
                $( |resp| match <$($seg)::+::Response as IncomingResponse>::try_from_http_response(resp) {
                    Ok(r) => ok(format!("{r:?}")),
                    Err(e) => er(format!("{e:?}")),
                } ),*
            ];
            match fs.get(idx) { Some(f) => f(resp), None => er("endpoint") }
        }
    };
}
for_each_endpoint!(dispatch_tables);

fn endpoint_index(p: &[u8]) -> usize {
    let names = endpoint_names();
    let s = String::from_utf8_lossy(p);
    match s.parse::<usize>() {
        Ok(i) => i % names.len(),
        Err(_) => names.iter().position(|n| n.ends_with(s.as_ref())).unwrap_or(0),
    }
}

/// parts: endpoint, method, uri, header lines, path arguments (one per line), body
fn e_http_request(p: &[Vec<u8>]) -> Ret {
    let idx = endpoint_index(part(p, 0));
    let Ok(method) = http::Method::from_bytes(part(p, 1)) else { return er("method") };
    let Ok(uri) = http::Uri::try_from(part(p, 2)) else { return er("uri") };
    let Ok(mut req) = http::Request::builder().method(method).uri(uri).body(part(p, 5).to_vec()) else {
        return er("request");
    };
    headers_of(part(p, 3), req.headers_mut());
    let args: Vec<String> = if part(p, 4).is_empty() {
        vec![]
    } else {
        txt(p, 4).split('\n').map(str::to_owned).collect()
    };
    dispatch_request(idx, req, &args)
}
/// parts: endpoint, status, header lines, body
fn e_http_response(p: &[Vec<u8>]) -> Ret {
    let idx = endpoint_index(part(p, 0));
    let status = txt(p, 1).parse::<u16>().ok().and_then(|s| http::StatusCode::from_u16(s).ok());
    let Some(status) = status else { return er("status") };
    let Ok(mut resp) = http::Response::builder().status(status).body(part(p, 3).to_vec()) else {
        return er("response");
    };
    headers_of(part(p, 2), resp.headers_mut());
    dispatch_response(idx, resp)
}
