//! C10 — identifier parsing: cases and implementation outcomes.
//!
//! case = ( kind S<input> )                      parse kinds 0..16
//!      | ( N20 S<id> S<server_name> )           UserId::parse_with_server_name{,_rc,_arc}
//!      | ( N21 S<algorithm> S<device id> )      DeviceKeyId::from_parts
//!      | ( N22 S<algorithm> S<key version> )    ServerSigningKeyId::from_parts
//!      | ( N23 N<which> S<server_name> )        UserId::new / RoomId::new / EventId::new
//!      | ( N24 S<id> )                          RoomOrAliasId <-> RoomId / RoomAliasId conversions
//!
//! Every parse case drives ALL forms of the identifier type (borrowed `<&T>::try_from`, `T::parse`,
//! `parse_box`, `parse_rc`, `parse_arc`, `FromStr`, `TryFrom<String>`, `Box<T>::try_from`, and the
//! two serde forms) and requires them to agree; disagreement is the outcome `( N3 <form> )`, which
//! the model never produces.  (Form agreement is testing, not proof: the `IdZst` derive is not
//! modelled.)  The outcome of an accepted identifier carries the stored bytes and every accessor.
use std::panic::AssertUnwindSafe;

use ruma_common::{
    Base64PublicKey, ClientSecret, CrossSigningKeyId, DeviceId, DeviceKeyAlgorithm, DeviceKeyId, EventId,
    IdParseError, MxcUri, MxcUriError, OneTimeKeyId, OwnedBase64PublicKey, OwnedClientSecret, OwnedCrossSigningKeyId,
    OwnedDeviceKeyId, OwnedEventId, OwnedMxcUri, OwnedOneTimeKeyId, OwnedRoomAliasId, OwnedRoomId,
    OwnedRoomOrAliasId, OwnedServerName, OwnedServerSigningKeyId, OwnedServerSigningKeyVersion, OwnedUserId,
    RoomAliasId, RoomId, RoomOrAliasId, RoomVersionId, ServerName, ServerSigningKeyId, ServerSigningKeyVersion,
    SigningKeyAlgorithm, UserId,
};

use crate::{
    rng::Rng,
    sx::{guarded, Sx},
    Emitter,
};

// ---------------------------------------------------------------------------------------------
// outcome encoding
// ---------------------------------------------------------------------------------------------
fn code(e: &IdParseError) -> i128 {
    match e {
        IdParseError::Empty => 1,
        IdParseError::InvalidCharacters => 2,
        IdParseError::InvalidServerName => 3,
        IdParseError::MaximumLengthExceeded => 4,
        IdParseError::MissingColon => 5,
        IdParseError::MissingLeadingSigil => 6,
        IdParseError::InvalidMxcUri(m) => mxc_code(m),
        _ => 9,
    }
}

fn mxc_code(e: &MxcUriError) -> i128 {
    match e {
        MxcUriError::WrongSchema => 11,
        MxcUriError::MissingSlash => 12,
        MxcUriError::MediaIdMalformed => 13,
        MxcUriError::ServerNameMalformed => 14,
        _ => 19,
    }
}

fn res(r: Result<Sx, IdParseError>) -> Sx {
    match r {
        Ok(v) => Sx::ok(v),
        Err(e) => Sx::err(code(&e)),
    }
}

/// serde forms lose the error kind (it becomes a message): error code 0 = "some error".
fn resj(r: Result<Sx, serde_json::Error>) -> Sx {
    match r {
        Ok(v) => Sx::ok(v),
        Err(_) => Sx::err(0),
    }
}

fn is_err(x: &Sx) -> bool {
    matches!(x.as_list().and_then(|l| l.first()), Some(Sx::N(1)))
}

/// All forms must agree (serde forms only on Ok-payload / Err-ness).
fn combine(v: Vec<(bool, Sx)>) -> Sx {
    let first = v[0].1.clone();
    for (i, (typed, o)) in v.iter().enumerate().skip(1) {
        let same = if *typed { *o == first } else { *o == first || (is_err(o) && is_err(&first)) };
        if !same {
            return Sx::L(vec![Sx::N(3), Sx::N(i as i128)]);
        }
    }
    first
}

macro_rules! all_forms {
    ($T:ty, $O:ty, $s:expr, $acc:expr) => {{
        let s: &str = $s;
        let acc = $acc;
        let js = serde_json::to_string(s).unwrap();
        let mut v: Vec<(bool, Sx)> = Vec::new();
        v.push((
            true,
            guarded(AssertUnwindSafe(|| {
                res(<&$T>::try_from(s).map(|x| {
                    // stored byte for byte; Display, AsRef, Serialize agree with it
                    let a = acc(x);
                    let same = x.as_str() == s
                        && x.to_string() == s
                        && x.as_bytes() == s.as_bytes()
                        && serde_json::to_string(x).map(|j| j == js).unwrap_or(false);
                    if same {
                        a
                    } else {
                        Sx::L(vec![Sx::N(-7)])
                    }
                }))
            })),
        ));
        v.push((true, guarded(AssertUnwindSafe(|| res(<$T>::parse(s).map(|x| acc(&x)))))));
        v.push((true, guarded(AssertUnwindSafe(|| res(<$T>::parse_box(s).map(|x| acc(&x)))))));
        v.push((true, guarded(AssertUnwindSafe(|| res(<$T>::parse_rc(s).map(|x| acc(&x)))))));
        v.push((true, guarded(AssertUnwindSafe(|| res(<$T>::parse_arc(s).map(|x| acc(&x)))))));
        v.push((true, guarded(AssertUnwindSafe(|| res(s.parse::<$O>().map(|x| acc(&x)))))));
        v.push((true, guarded(AssertUnwindSafe(|| res(<$O>::try_from(s.to_owned()).map(|x| acc(&x)))))));
        v.push((true, guarded(AssertUnwindSafe(|| res(<Box<$T>>::try_from(s).map(|x| acc(&x)))))));
        v.push((false, guarded(AssertUnwindSafe(|| resj(serde_json::from_str::<$O>(&js).map(|x| acc(&x)))))));
        v.push((false, guarded(AssertUnwindSafe(|| resj(serde_json::from_str::<Box<$T>>(&js).map(|x| acc(&x)))))));
        combine(v)
    }};
}

fn sn_opt(x: Option<&ServerName>) -> Sx {
    Sx::opt(x.map(|n| Sx::s(n.as_str())))
}

fn rc(r: Result<(), IdParseError>) -> Sx {
    match r {
        Ok(()) => Sx::N(0),
        Err(e) => Sx::N(code(&e)),
    }
}

fn acc_user(x: &UserId) -> Sx {
    Sx::L(vec![
        Sx::s(x.as_str()),
        Sx::s(x.localpart()),
        Sx::s(x.server_name().as_str()),
        Sx::b(x.is_historical()),
        rc(x.validate_historical()),
        rc(x.validate_strict()),
    ])
}
fn acc_room(x: &RoomId) -> Sx {
    Sx::L(vec![Sx::s(x.as_str()), sn_opt(x.server_name())])
}
fn acc_alias(x: &RoomAliasId) -> Sx {
    Sx::L(vec![Sx::s(x.as_str()), Sx::s(x.alias()), Sx::s(x.server_name().as_str())])
}
fn acc_event(x: &EventId) -> Sx {
    Sx::L(vec![Sx::s(x.as_str()), Sx::s(x.localpart()), sn_opt(x.server_name())])
}
fn acc_roa(x: &RoomOrAliasId) -> Sx {
    Sx::L(vec![Sx::s(x.as_str()), Sx::b(x.is_room_id()), Sx::b(x.is_room_alias_id()), sn_opt(x.server_name())])
}
fn acc_server(x: &ServerName) -> Sx {
    Sx::L(vec![
        Sx::s(x.as_str()),
        Sx::s(x.host()),
        Sx::opt(x.port().map(|p| Sx::N(p as i128))),
        Sx::b(x.is_ip_literal()),
    ])
}
fn acc_dk(x: &DeviceKeyId) -> Sx {
    Sx::L(vec![Sx::s(x.as_str()), Sx::s(x.algorithm().as_ref()), Sx::s(x.key_name().as_str())])
}
fn acc_sk(x: &ServerSigningKeyId) -> Sx {
    Sx::L(vec![Sx::s(x.as_str()), Sx::s(x.algorithm().as_ref()), Sx::s(x.key_name().as_str())])
}
fn acc_ck(x: &CrossSigningKeyId) -> Sx {
    Sx::L(vec![Sx::s(x.as_str()), Sx::s(x.algorithm().as_ref()), Sx::s(x.key_name().as_str())])
}
fn acc_ok(x: &OneTimeKeyId) -> Sx {
    Sx::L(vec![Sx::s(x.as_str()), Sx::s(x.algorithm().as_ref()), Sx::s(x.key_name().as_str())])
}
fn acc_cs(x: &ClientSecret) -> Sx {
    Sx::L(vec![Sx::s(x.as_str())])
}
fn acc_b64(x: &Base64PublicKey) -> Sx {
    Sx::L(vec![Sx::s(x.as_str())])
}
fn acc_skv(x: &ServerSigningKeyVersion) -> Sx {
    Sx::L(vec![Sx::s(x.as_str())])
}

fn mxc_case(s: &str) -> Sx {
    // MxcUri is an unchecked identifier: every string converts; validity is a method.
    let js = serde_json::to_string(s).unwrap();
    let one = |m: &MxcUri| -> Sx {
        let v = m.validate();
        let p = m.parts();
        let consistent = m.as_str() == s
            && m.is_valid() == v.is_ok()
            && v.is_ok() == p.is_ok()
            && m.media_id().ok() == p.as_ref().ok().map(|x| x.1)
            && m.server_name().ok().map(|x| x.as_str()) == p.as_ref().ok().map(|x| x.0.as_str())
            && v.as_ref().err() == p.as_ref().err();
        if !consistent {
            return Sx::L(vec![Sx::N(-7)]);
        }
        match p {
            Ok((sn, media)) => Sx::ok(Sx::L(vec![Sx::s(m.as_str()), Sx::s(sn.as_str()), Sx::s(media)])),
            Err(e) => Sx::err(mxc_code(&e)),
        }
    };
    let v = vec![
        (true, guarded(AssertUnwindSafe(|| one(<&MxcUri>::from(s))))),
        (true, guarded(AssertUnwindSafe(|| one(&OwnedMxcUri::from(s))))),
        (true, guarded(AssertUnwindSafe(|| one(&Box::<MxcUri>::from(s))))),
        (true, guarded(AssertUnwindSafe(|| one(&std::sync::Arc::<MxcUri>::from(Box::<MxcUri>::from(s)))))),
        (true, guarded(AssertUnwindSafe(|| one(&std::rc::Rc::<MxcUri>::from(Box::<MxcUri>::from(s)))))),
        (
            true,
            guarded(AssertUnwindSafe(|| match serde_json::from_str::<OwnedMxcUri>(&js) {
                Ok(m) => one(&m),
                Err(_) => Sx::L(vec![Sx::N(-8)]),
            })),
        ),
    ];
    combine(v)
}

fn room_version_case(s: &str) -> Sx {
    let js = serde_json::to_string(s).unwrap();
    let acc = |x: &RoomVersionId| Sx::L(vec![Sx::s(x.as_str())]);
    let v = vec![
        (true, guarded(AssertUnwindSafe(|| res(RoomVersionId::try_from(s).map(|x| acc(&x)))))),
        (true, guarded(AssertUnwindSafe(|| res(RoomVersionId::try_from(s.to_owned()).map(|x| acc(&x)))))),
        (true, guarded(AssertUnwindSafe(|| res(s.parse::<RoomVersionId>().map(|x| acc(&x)))))),
        (false, guarded(AssertUnwindSafe(|| resj(serde_json::from_str::<RoomVersionId>(&js).map(|x| acc(&x)))))),
    ];
    combine(v)
}

pub const PARSE_KINDS: &[i128] = &[0, 1, 2, 3, 4, 5, 6, 7, 8, 9, 10, 11, 12, 13, 14, 15, 16];

fn run_parse(kind: i128, s: &str) -> Option<Sx> {
    Some(match kind {
        0 => all_forms!(UserId, OwnedUserId, s, acc_user),
        1 => all_forms!(RoomId, OwnedRoomId, s, acc_room),
        2 => all_forms!(RoomAliasId, OwnedRoomAliasId, s, acc_alias),
        3 => all_forms!(EventId, OwnedEventId, s, acc_event),
        4 => all_forms!(RoomOrAliasId, OwnedRoomOrAliasId, s, acc_roa),
        5 => all_forms!(ServerName, OwnedServerName, s, acc_server),
        6 => all_forms!(DeviceKeyId, OwnedDeviceKeyId, s, acc_dk),
        7 => all_forms!(ServerSigningKeyId, OwnedServerSigningKeyId, s, acc_sk),
        8 => all_forms!(CrossSigningKeyId, OwnedCrossSigningKeyId, s, acc_ck),
        9 => all_forms!(OneTimeKeyId, OwnedOneTimeKeyId, s, acc_ok),
        10 => mxc_case(s),
        11 => room_version_case(s),
        12 => all_forms!(ClientSecret, OwnedClientSecret, s, acc_cs),
        13 => all_forms!(Base64PublicKey, OwnedBase64PublicKey, s, acc_b64),
        14 => all_forms!(ServerSigningKeyVersion, OwnedServerSigningKeyVersion, s, acc_skv),
        15 => guarded(AssertUnwindSafe(|| {
            res(ruma_identifiers_validation::user_id::validate_strict(s).map(|()| Sx::L(vec![])))
        })),
        16 => guarded(AssertUnwindSafe(|| {
            res(ruma_identifiers_validation::user_id::localpart_is_fully_conforming(s).map(Sx::b))
        })),
        _ => return None,
    })
}

fn reparse<T>(r: Result<T, IdParseError>) -> Sx {
    match r {
        Ok(_) => Sx::N(0),
        Err(e) => Sx::N(code(&e)),
    }
}

fn run_pwsn(id: &str, sn: &str) -> Option<Sx> {
    let server = <&ServerName>::try_from(sn).ok()?;
    let fin = |r: Result<String, IdParseError>| -> Sx {
        res(r.map(|built| {
            let rp = reparse(UserId::parse(&built));
            Sx::L(vec![Sx::s(&built), rp])
        }))
    };
    let v = vec![
        (
            true,
            guarded(AssertUnwindSafe(|| fin(UserId::parse_with_server_name(id, server).map(|x| x.as_str().to_owned())))),
        ),
        (
            true,
            guarded(AssertUnwindSafe(|| {
                fin(UserId::parse_with_server_name_rc(id, server).map(|x| x.as_str().to_owned()))
            })),
        ),
        (
            true,
            guarded(AssertUnwindSafe(|| {
                fin(UserId::parse_with_server_name_arc(id, server).map(|x| x.as_str().to_owned()))
            })),
        ),
    ];
    Some(combine(v))
}

fn run_dk_from_parts(alg: &str, name: &str) -> Sx {
    guarded(AssertUnwindSafe(|| {
        let built = DeviceKeyId::from_parts(DeviceKeyAlgorithm::from(alg), <&DeviceId>::from(name));
        let rp = reparse(DeviceKeyId::parse(built.as_str()));
        Sx::ok(Sx::L(vec![Sx::s(built.as_str()), rp]))
    }))
}

fn run_sk_from_parts(alg: &str, ver: &str) -> Option<Sx> {
    let version = <&ServerSigningKeyVersion>::try_from(ver).ok()?;
    Some(guarded(AssertUnwindSafe(|| {
        let built = ServerSigningKeyId::from_parts(SigningKeyAlgorithm::from(alg), version);
        let rp = reparse(ServerSigningKeyId::parse(built.as_str()));
        Sx::ok(Sx::L(vec![Sx::s(built.as_str()), rp]))
    })))
}

/// `new` draws a random localpart: the outcome records only what the model can predict — total
/// length, whether the parser accepts the result, and whether it has the documented shape
/// (sigil, n ASCII alphanumerics, ':', server name).
fn run_new(which: i128, sn: &str) -> Option<Sx> {
    let server = <&ServerName>::try_from(sn).ok()?;
    Some(guarded(AssertUnwindSafe(|| {
        let (built, sigil, n, rp): (String, char, usize, Sx) = match which {
            0 => {
                let x = UserId::new(server);
                (x.as_str().to_owned(), '@', 12, reparse(UserId::parse(x.as_str())))
            }
            1 => {
                let x = RoomId::new(server);
                (x.as_str().to_owned(), '!', 18, reparse(RoomId::parse(x.as_str())))
            }
            _ => {
                let x = EventId::new(server);
                (x.as_str().to_owned(), '$', 18, reparse(EventId::parse(x.as_str())))
            }
        };
        let b = built.as_bytes();
        let shape = b.len() == 1 + n + 1 + sn.len()
            && b[0] == sigil as u8
            && b[1..1 + n].iter().all(|c| c.is_ascii_alphanumeric() && (which != 0 || !c.is_ascii_uppercase()))
            && b[1 + n] == b':'
            && &b[2 + n..] == sn.as_bytes();
        Sx::ok(Sx::L(vec![Sx::N(b.len() as i128), rp, Sx::b(shape)]))
    })))
}

fn run_conv(s: &str) -> Sx {
    guarded(AssertUnwindSafe(|| {
        res(<&RoomOrAliasId>::try_from(s).map(|x| {
            let (is_room, back, rp): (bool, String, Sx) = match <&RoomId>::try_from(x) {
                Ok(r) => {
                    let b: &RoomOrAliasId = r.into();
                    let o: OwnedRoomOrAliasId = r.to_owned().into();
                    assert!(o.as_str() == b.as_str());
                    (true, b.as_str().to_owned(), reparse(RoomId::parse(r.as_str())))
                }
                Err(a) => {
                    let b: &RoomOrAliasId = a.into();
                    let o: OwnedRoomOrAliasId = a.to_owned().into();
                    assert!(o.as_str() == b.as_str());
                    (false, b.as_str().to_owned(), reparse(RoomAliasId::parse(a.as_str())))
                }
            };
            Sx::L(vec![Sx::b(is_room), Sx::s(&back), rp])
        }))
    }))
}

fn run_case(case: &Sx) -> Option<Sx> {
    let l = case.as_list()?;
    let kind = l.first()?.as_int()?;
    match (kind, &l[1..]) {
        (0..=16, [s]) => run_parse(kind, &s.as_string()?),
        (20, [id, sn]) => run_pwsn(&id.as_string()?, &sn.as_string()?),
        (21, [a, n]) => Some(run_dk_from_parts(&a.as_string()?, &n.as_string()?)),
        (22, [a, n]) => run_sk_from_parts(&a.as_string()?, &n.as_string()?),
        (23, [w, sn]) => run_new(w.as_int()?, &sn.as_string()?),
        (24, [s]) => Some(run_conv(&s.as_string()?)),
        _ => None,
    }
}

pub fn replay(case: &Sx) -> Option<Sx> {
    run_case(case)
}

pub fn dump(_dir: &str) {}

// ---------------------------------------------------------------------------------------------
// generators
// ---------------------------------------------------------------------------------------------
/// The alphabet of the exhaustive stream (DESIGN section 6, C10).
const ALPHA: &[&str] = &["@", "!", "#", "$", ":", "[", "]", "a", "0", ".", "-", "+", "\u{e9}", "\0"];
/// Characters used for single-edit mutants: the alphabet above plus a few class representatives.
const MUT: &[&str] = &[
    "@", "!", "#", "$", ":", "[", "]", "a", "0", ".", "-", "+", "\u{e9}", "\0", "/", "A", "_", "=", " ", "9", "f", "g",
    "\u{20ac}", "\u{1f600}", "~", "\u{7f}", "%",
];
const PORTS: &[&str] = &[
    "", "0", "00080", "000080", "+80", "-1", "65535", "65536", "99999", "8448", "443", "1", "100000", "080", "+", "8 0",
    "\u{664}", "0x50", "65535 ", "655350", "00000", "000000", "+65535", "+0",
];
const HOSTS: &[&str] = &[
    "example.com",
    "a",
    "matrix.org",
    "EXAMPLE.Com",
    "a-b.c-d",
    "localhost",
    "1.2.3.4",
    "127.0.0.1",
    "255.255.255.255",
    "256.1.1.1",
    "01.2.3.4",
    "1.2.3",
    "1.2.3.4.5",
    "[::1]",
    "[::]",
    "[1234:5678::abcd]",
    "[1:2:3:4:5:6:7:8]",
    "[1:2:3:4:5:6:1.2.3.4]",
    "[::ffff:1.2.3.4]",
    "[1::2:3.4.5.6]",
    "[1:2:3:4:5:6:7::]",
    "[::2:3:4:5:6:7:8]",
    "[fe80::1]",
    "[FE80::A]",
    "-",
    ".",
    "..",
    "a..b",
    "xn--nxasmq6b.example",
];
const BAD_HOSTS: &[&str] = &[
    "",
    "[",
    "]",
    "[]",
    "[::1",
    "::1",
    "[:::]",
    "[1:2:3:4:5:6:7:8:9]",
    "[1:2:3:4:5:6:7:8::]",
    "[12345::]",
    "[1.2.3.4::]",
    "[::1.2.3.256]",
    "[::1.2.3]",
    "[::01.2.3.4]",
    "[1:2:3:4:5:6:7:1.2.3.4]",
    "[::g]",
    "[::1]]",
    "[[::1]",
    "[::1%eth0]",
    "ex ample",
    "ex_ample",
    "ex/ample",
    "\u{e9}.com",
    "a\0b",
    "[::1]a",
];
const LOCALS: &[&str] = &[
    "carl",
    "a",
    "",
    "a.b-c_d=e/f+g",
    "0123456789",
    "CARL",
    "a%b[irc]",
    "~tilde!",
    "\u{3c4}",
    "\u{e9}t\u{e9}",
    "\u{20ac}uro",
    "\u{1f600}",
    "sp ace",
    "ta\tb",
    "nu\0l",
    "del\u{7f}",
    "!#$@",
];

fn hexgroup(r: &mut Rng) -> String {
    let n = 1 + r.below(4);
    (0..n).map(|_| *r.pick(&["0", "1", "9", "a", "f", "A", "F", "c"])).collect()
}
fn octet(r: &mut Rng) -> String {
    (*r.pick(&["0", "1", "9", "10", "99", "100", "199", "249", "255", "25", "127"])).to_string()
}
fn gen_ipv4(r: &mut Rng) -> String {
    format!("{}.{}.{}.{}", octet(r), octet(r), octet(r), octet(r))
}
/// Grammar-derived IPv6 literal (without brackets): full form, compressed form, embedded IPv4.
fn gen_ipv6(r: &mut Rng) -> String {
    let v4 = r.chance(1, 4);
    let total = if v4 { 6 } else { 8 };
    if r.chance(1, 3) {
        let mut g: Vec<String> = (0..total).map(|_| hexgroup(r)).collect();
        if v4 {
            g.push(gen_ipv4(r));
        }
        g.join(":")
    } else {
        let present = r.below(total); // groups written, < total
        let head = r.below(present + 1);
        let h: Vec<String> = (0..head).map(|_| hexgroup(r)).collect();
        let mut t: Vec<String> = (0..present - head).map(|_| hexgroup(r)).collect();
        if v4 {
            t.push(gen_ipv4(r));
        }
        format!("{}::{}", h.join(":"), t.join(":"))
    }
}
fn gen_dns(r: &mut Rng) -> String {
    let labels = 1 + r.below(4);
    let mut out = String::new();
    for i in 0..labels {
        if i > 0 {
            out.push('.');
        }
        let n = 1 + r.below(8);
        for _ in 0..n {
            out.push_str(*r.pick(&["a", "b", "z", "0", "9", "-", "x", "m", "A", "Q"]));
        }
    }
    out
}
fn gen_host(r: &mut Rng) -> String {
    match r.below(10) {
        0..=2 => (*r.pick(HOSTS)).to_owned(),
        3..=5 => gen_dns(r),
        6 => gen_ipv4(r),
        7 | 8 => format!("[{}]", gen_ipv6(r)),
        _ => (*r.pick(BAD_HOSTS)).to_owned(),
    }
}
fn gen_port(r: &mut Rng) -> String {
    if r.chance(1, 2) {
        (*r.pick(PORTS)).to_owned()
    } else {
        let n = 1 + r.below(5);
        (0..n).map(|_| *r.pick(&["0", "1", "5", "6", "9"])).collect()
    }
}
fn gen_server(r: &mut Rng) -> String {
    let h = gen_host(r);
    if r.chance(1, 3) {
        format!("{h}:{}", gen_port(r))
    } else {
        h
    }
}
fn gen_local(r: &mut Rng) -> String {
    if r.chance(1, 2) {
        (*r.pick(LOCALS)).to_owned()
    } else {
        let n = r.below(12);
        let strict = r.chance(2, 3);
        (0..n)
            .map(|_| {
                if strict {
                    *r.pick(&["a", "z", "0", "9", "-", ".", "=", "_", "/", "+"])
                } else {
                    *r.pick(&["A", "~", "!", "%", "[", "]", "\u{e9}", "\u{20ac}", "a", " ", "@", "#", "$"])
                }
            })
            .collect()
    }
}
const ALGS: &[&str] = &["ed25519", "curve25519", "signed_curve25519", "a", "", "x:y", "\u{e9}", "ED25519"];
const KEYNAMES: &[&str] =
    &["MYDEVICE", "1", "a_b", "", "abc+/=", "AAAA", "a:b", "\u{e9}", "\u{664}", "a b", "a-b", "\u{b2}", "\u{d7}", "JLAFKJWSCS"];
fn gen_b64(r: &mut Rng) -> String {
    let n = 1 + r.below(44);
    (0..n).map(|_| *r.pick(&["A", "z", "0", "9", "+", "/", "="])).collect()
}

/// A grammar-derived identifier of the given kind (mostly valid).
fn gen_valid(kind: i128, r: &mut Rng) -> String {
    match kind {
        0 | 15 => format!("@{}:{}", gen_local(r), gen_server(r)),
        1 => {
            if r.chance(1, 3) {
                format!("!{}", gen_b64(r).replace(['+', '/', '='], "_"))
            } else {
                format!("!{}:{}", gen_local(r), gen_server(r))
            }
        }
        2 => format!("#{}:{}", gen_local(r), gen_server(r)),
        3 => {
            if r.chance(1, 2) {
                format!("${}", gen_b64(r))
            } else {
                format!("${}:{}", gen_local(r), gen_server(r))
            }
        }
        4 => {
            if r.chance(1, 2) {
                gen_valid(1, r)
            } else {
                gen_valid(2, r)
            }
        }
        5 => gen_server(r),
        6 | 9 => format!("{}:{}", r.pick(ALGS), r.pick(KEYNAMES)),
        7 => format!("{}:{}", r.pick(ALGS), r.pick(KEYNAMES)),
        8 => format!("{}:{}", r.pick(ALGS), if r.chance(1, 2) { gen_b64(r) } else { (*r.pick(KEYNAMES)).to_owned() }),
        10 => {
            let media: String = {
                let n = r.below(12);
                (0..n).map(|_| *r.pick(&["a", "Z", "0", "9", "-", "_"])).collect()
            };
            format!("mxc://{}/{}", gen_server(r), media)
        }
        11 => (*r.pick(&["1", "2", "10", "11", "12", "org.matrix.msc1234", "a-b.c", "A", "x", "3.1"])).to_owned(),
        12 => {
            let n = 1 + r.below(20);
            (0..n).map(|_| *r.pick(&["a", "Z", "0", ".", "=", "_", "-"])).collect()
        }
        13 => gen_b64(r),
        14 => {
            let n = 1 + r.below(10);
            (0..n).map(|_| *r.pick(&["a", "Z", "0", "_", "9"])).collect()
        }
        _ => gen_local(r),
    }
}

/// Every single-edit mutant of `s` over the mutation alphabet (on characters, so the result is a `&str`).
fn mutants(s: &str, alphabet: &[&str], out: &mut Vec<String>) {
    let chars: Vec<char> = s.chars().collect();
    for i in 0..chars.len() {
        let mut d: String = chars[..i].iter().collect();
        d.extend(chars[i + 1..].iter());
        out.push(d);
    }
    for i in 0..=chars.len() {
        for a in alphabet {
            let mut d: String = chars[..i].iter().collect();
            d.push_str(a);
            d.extend(chars[i..].iter());
            out.push(d);
        }
    }
    for i in 0..chars.len() {
        for a in alphabet {
            let mut d: String = chars[..i].iter().collect();
            d.push_str(a);
            d.extend(chars[i + 1..].iter());
            out.push(d);
        }
    }
}

/// All strings of length <= n over `alphabet` (as symbol sequences).
fn exhaustive(alphabet: &[&str], n: usize, f: &mut dyn FnMut(&str)) {
    let mut idx: Vec<usize> = vec![];
    loop {
        let s: String = idx.iter().map(|&i| alphabet[i]).collect();
        f(&s);
        // increment
        let mut k = idx.len();
        loop {
            if k == 0 {
                if idx.len() == n {
                    return;
                }
                idx = vec![0; idx.len() + 1];
                break;
            }
            k -= 1;
            if idx[k] + 1 < alphabet.len() {
                idx[k] += 1;
                for j in k + 1..idx.len() {
                    idx[j] = 0;
                }
                break;
            }
        }
    }
}

fn pad(c: &str, bytes: usize) -> String {
    c.repeat(bytes / c.len())
}

/// Identifiers of total byte length `len` for the boundary stream: the padding goes into the
/// localpart / algorithm / host / media id, with an optional two-byte character placed at byte
/// offset `eoff` so that a wrapped (`as u8`) index lands inside it.
fn boundary_ids(kind: i128, len: usize, out: &mut Vec<String>) {
    let fill = |n: usize, eoff: Option<usize>| -> String {
        match eoff {
            Some(o) if o + 2 <= n => format!("{}\u{e9}{}", pad("a", o), pad("a", n - o - 2)),
            _ => pad("a", n),
        }
    };
    let eoffs: [Option<usize>; 7] = [None, Some(0), Some(1), Some(2), Some(3), Some(5), Some(6)];
    for e in eoffs {
        match kind {
            0 | 2 | 15 => {
                let sig = if kind == 2 { "#" } else { "@" };
                if len >= 5 {
                    out.push(format!("{sig}{}:a.b", fill(len - 5, e)));
                    if e.is_none() {
                        out.push(format!("{sig}a:{}", fill(len - 3, None)));
                        if len >= 9 {
                            out.push(format!("{sig}a:{}:8448", fill(len - 8, None)));
                        }
                    }
                }
            }
            1 => {
                out.push(format!("!{}", fill(len - 1, e)));
                if len >= 5 {
                    out.push(format!("!{}:a.b", fill(len - 5, e)));
                }
            }
            3 => {
                out.push(format!("${}", fill(len - 1, e)));
                if len >= 5 {
                    out.push(format!("${}:a.b", fill(len - 5, e)));
                }
            }
            4 => {
                out.push(format!("!{}", fill(len - 1, e)));
                if len >= 5 {
                    out.push(format!("#{}:a.b", fill(len - 5, e)));
                }
            }
            5 => {
                if e.is_none() {
                    out.push(fill(len, None));
                    if len >= 4 {
                        out.push(format!("{}:80", fill(len - 3, None)));
                    }
                }
            }
            6 | 7 | 8 | 9 => {
                // colon at index len-2 (algorithm padded) and at index 1 (key name padded)
                if len >= 2 {
                    out.push(format!("{}:x", fill(len - 2, e)));
                    out.push(format!("a:{}", fill(len - 2, e)));
                }
            }
            10 => {
                if len >= 8 && e.is_none() {
                    out.push(format!("mxc://{}/x", fill(len - 8, None)));
                    out.push(format!("mxc://a/{}", fill(len - 8, None)));
                    if len >= 12 {
                        out.push(format!("mxc://{}:443/x", fill(len - 12, None)));
                    }
                }
            }
            11 | 12 | 13 | 14 | 16 => {
                out.push(fill(len, e));
            }
            _ => {}
        }
    }
}

fn emit_parse(em: &mut Emitter, tag: &str, kind: i128, s: &str) {
    if let Some(o) = run_parse(kind, s) {
        em.emit(tag, Sx::L(vec![Sx::N(kind), Sx::s(s)]), o);
    }
}

fn sigil_prefixes(kind: i128) -> &'static [&'static str] {
    match kind {
        0 | 15 => &["@"],
        1 => &["!"],
        2 => &["#"],
        3 => &["$"],
        4 => &["!", "#"],
        6 | 7 | 8 | 9 => &["a", "a:"],
        10 => &["mxc://", "mxc://a"],
        _ => &[""],
    }
}

pub fn run(tier: &str, seed: u64, em: &mut Emitter) {
    let thorough = tier == "thorough";
    let mut r = Rng::new(seed ^ 0xC10);

    // ---- systematic 1: the port list on every server-name-bearing kind --------------------
    for host in ["example.com", "1.2.3.4", "[::1]", ""] {
        for p in PORTS {
            let sn = format!("{host}:{p}");
            emit_parse(em, "systematic-ports", 5, &sn);
            emit_parse(em, "systematic-ports", 0, &format!("@a:{sn}"));
            emit_parse(em, "systematic-ports", 2, &format!("#a:{sn}"));
            emit_parse(em, "systematic-ports", 1, &format!("!a:{sn}"));
            emit_parse(em, "systematic-ports", 3, &format!("$a:{sn}"));
            emit_parse(em, "systematic-ports", 4, &format!("#a:{sn}"));
            emit_parse(em, "systematic-ports", 10, &format!("mxc://{sn}/m"));
            emit_parse(em, "systematic-ports", 15, &format!("@a:{sn}"));
        }
    }
    for h in HOSTS.iter().chain(BAD_HOSTS) {
        emit_parse(em, "systematic-hosts", 5, h);
        emit_parse(em, "systematic-hosts", 0, &format!("@a:{h}"));
        emit_parse(em, "systematic-hosts", 10, &format!("mxc://{h}/m"));
        emit_parse(em, "systematic-hosts", 5, &format!("{h}:8448"));
    }

    // ---- systematic 2: boundary lengths (multiples of 256 +- 6) for every kind ------------
    let mut lens: Vec<usize> = vec![];
    for base in [250usize, 506, 762] {
        lens.extend(base..=base + 10);
    }
    lens.extend([1usize, 2, 3, 31, 32, 33, 34]);
    for &kind in PARSE_KINDS {
        for &len in &lens {
            let mut ids = vec![];
            boundary_ids(kind, len, &mut ids);
            for id in ids {
                emit_parse(em, "systematic-boundary", kind, &id);
            }
        }
    }

    // ---- systematic 3: exhaustive short strings over the 14-symbol alphabet ---------------
    // after each kind's sigil / prefix; without prefix up to a shorter length.
    let (n_pref, n_raw) = if thorough { (5, 4) } else { (3, 2) };
    for &kind in PARSE_KINDS {
        for pre in sigil_prefixes(kind) {
            let n = if kind == 5 || kind >= 11 { n_pref } else { n_pref };
            exhaustive(ALPHA, n, &mut |w| {
                let s = format!("{pre}{w}");
                emit_parse(em, "systematic-exhaustive", kind, &s);
            });
        }
        if !sigil_prefixes(kind).contains(&"") {
            exhaustive(ALPHA, n_raw, &mut |w| emit_parse(em, "systematic-exhaustive", kind, w));
        }
    }
    // IP literals: exhaustive over a digit/colon/dot alphabet inside brackets and bare.
    let n6 = if thorough { 7 } else { 5 };
    exhaustive(&["0", "1", "f", "g", ":", "."], n6, &mut |w| {
        emit_parse(em, "systematic-ip", 5, &format!("[{w}]"));
    });
    let n4 = if thorough { 8 } else { 5 };
    exhaustive(&["0", "1", "2", "5", ".", "a"], n4, &mut |w| {
        emit_parse(em, "systematic-ip", 5, w);
    });
    exhaustive(&["0", "1", "6", "+", "-", "a"], if thorough { 7 } else { 5 }, &mut |w| {
        emit_parse(em, "systematic-ip", 5, &format!("h:{w}"));
    });

    // ---- random structured: grammar-derived ids and every single-edit mutant --------------
    let bases = if thorough { 40 } else { 3 };
    for &kind in PARSE_KINDS {
        for _ in 0..bases {
            let id = gen_valid(kind, &mut r);
            emit_parse(em, "random-valid", kind, &id);
            let mut ms = vec![];
            mutants(&id, MUT, &mut ms);
            for m in ms {
                emit_parse(em, "random-mutant", kind, &m);
            }
        }
        let extra = if thorough { 4000 } else { 400 };
        for _ in 0..extra {
            let id = gen_valid(kind, &mut r);
            emit_parse(em, "random-valid", kind, &id);
        }
    }
    // IPv6 literals get their own stream (the std parser model is the delicate part)
    let n_ip = if thorough { 60000 } else { 3000 };
    for i in 0..n_ip {
        let lit = gen_ipv6(&mut r);
        let s = format!("[{lit}]");
        emit_parse(em, "random-valid", 5, &s);
        if i % 10 == 0 {
            let mut ms = vec![];
            mutants(&lit, &[":", ".", "0", "1", "f", "g", "::", "255", "256"], &mut ms);
            for m in ms {
                emit_parse(em, "random-mutant", 5, &format!("[{m}]"));
            }
        }
    }

    // ---- constructors -----------------------------------------------------------------------
    let servers: Vec<String> = {
        let mut v: Vec<String> = HOSTS.iter().map(|s| (*s).to_owned()).collect();
        v.push("example.com:8448".into());
        v.push("[::1]:443".into());
        for n in [230usize, 236, 237, 238, 240, 241, 242, 243, 250, 251, 252, 253, 254, 255, 256, 300] {
            v.push(pad("a", n));
        }
        v
    };
    for sn in &servers {
        for l in LOCALS {
            if let Some(o) = run_pwsn(l, sn) {
                em.emit("constructors", Sx::L(vec![Sx::N(20), Sx::s(l), Sx::s(sn)]), o);
            }
            let full = format!("@{l}:{sn}");
            if let Some(o) = run_pwsn(&full, sn) {
                em.emit("constructors", Sx::L(vec![Sx::N(20), Sx::s(&full), Sx::s(sn)]), o);
            }
        }
        for n in [0usize, 1, 200, 240, 248, 249, 250, 251, 252, 253, 254, 255, 256, 300, 600] {
            let l = pad("x", n);
            if let Some(o) = run_pwsn(&l, sn) {
                em.emit("constructors", Sx::L(vec![Sx::N(20), Sx::s(&l), Sx::s(sn)]), o);
            }
        }
        for which in 0..3 {
            if let Some(o) = run_new(which, sn) {
                em.emit("constructors", Sx::L(vec![Sx::N(23), Sx::N(which), Sx::s(sn)]), o);
            }
        }
    }
    let mut algs: Vec<String> = ALGS.iter().map(|s| (*s).to_owned()).collect();
    for n in [250usize, 254, 255, 256, 257, 300, 511, 512, 513] {
        algs.push(pad("a", n));
        algs.push(format!("a\u{e9}{}", pad("a", n)));
    }
    for a in &algs {
        for k in KEYNAMES {
            em.emit("constructors", Sx::L(vec![Sx::N(21), Sx::s(a), Sx::s(k)]), run_dk_from_parts(a, k));
            if let Some(o) = run_sk_from_parts(a, k) {
                em.emit("constructors", Sx::L(vec![Sx::N(22), Sx::s(a), Sx::s(k)]), o);
            }
        }
    }
    let n_conv = if thorough { 4000 } else { 400 };
    for _ in 0..n_conv {
        let s = gen_valid(4, &mut r);
        em.emit("constructors", Sx::L(vec![Sx::N(24), Sx::s(&s)]), run_conv(&s));
    }

    // ---- malformed: unstructured random strings on every kind --------------------------------
    let n_mal = if thorough { 6000 } else { 600 };
    for &kind in PARSE_KINDS {
        for _ in 0..n_mal {
            let n = r.below(24);
            let mut s = String::new();
            if r.chance(1, 2) {
                s.push_str(sigil_prefixes(kind)[0]);
            }
            for _ in 0..n {
                if r.chance(1, 8) {
                    s.push_str(*r.pick(&["\u{e9}", "\u{20ac}", "\u{1f600}", "\0", "\u{7f}", "\u{80}", "\u{664}", "\u{b2}", "\u{d7}"]));
                } else {
                    s.push((0x20 + r.below(0x5f)) as u8 as char);
                }
            }
            emit_parse(em, "malformed", kind, &s);
        }
    }
}
