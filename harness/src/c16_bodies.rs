//! C16, JSON bodies through the derive model: for every endpoint whose Request / Response body the
//! translator could read off ruma's source as a plain serde-derive schema (gen_bodies.json,
//! regenerated on every run), generate a JSON body from the schema and send it through the REAL
//! generated conversions: `IncomingResponse::try_from_http_response` then
//! `OutgoingResponse::try_into_http_response` (and the request counterparts, with path arguments
//! made up from the path fields' types).  The body that comes out is compared with what the generic
//! derive interpreters of C18.Serde print for the same schema.
//!
//! case    ( N13 S<endpoint module> S<Request|Response> <body: json> )
//! outcome ( N0 S<re-encoded body> ) | ( N1 N0 ) rejected | ( N1 N1 ) accepted but not re-encodable
//!
//! Typed query strings likewise (requests without body members whose query members are leaves,
//! Option<leaf> or Vec<leaf>): the pairs are form-encoded into the URI, the request goes through
//! `IncomingRequest::try_from_http_request` and `OutgoingRequest::try_into_http_request`, and the query
//! string that comes out is decoded into pairs again.
//! case    ( N14 S<endpoint module> ((Sk Sv)..) )
//! outcome ( N0 ((Sk Sv)..) ) | ( N1 N0 ) | ( N1 N1 )
use ruma_common::{
    api::{IncomingRequest, IncomingResponse, MatrixVersion, OutgoingRequest, OutgoingResponse, SendAccessToken},
    CanonicalJsonValue,
};
use serde_json::Value;

use crate::{
    c18_schema::{gen, Cfg},
    rng::Rng,
    sx::{guarded, json_to_sx, sx_to_json, Sx},
    Emitter,
};

include!("c16_endpoints.rs");

const BODIES: &str = include_str!("gen_bodies.json");

type Ret = Sx;

fn path_arg(ty: &str) -> &'static str {
    match ty.trim_start_matches('&') {
        "OwnedRoomId" | "RoomId" => "!r:example.org",
        "OwnedUserId" | "UserId" => "@u:example.org",
        "OwnedEventId" | "EventId" => "$e:example.org",
        "OwnedRoomAliasId" | "RoomAliasId" => "#a:example.org",
        "OwnedRoomOrAliasId" | "RoomOrAliasId" => "!r:example.org",
        "OwnedServerName" | "ServerName" => "example.org",
        "OwnedMxcUri" => "mxc://example.org/m",
        "UInt" | "u64" | "u32" | "u16" => "1",
        "RoomVersionId" => "6",
        _ => "x",
    }
}

macro_rules! body_tables {
    ($( $($seg:ident)::+ ),* $(,)?) => {
        #[allow(deprecated)]
        fn names() -> Vec<String> {
            vec![ $( stringify!($($seg)::+).split_whitespace().collect::<String>() ),* ]
        }
        #[allow(deprecated)]
        fn response_roundtrip(idx: usize, body: Vec<u8>) -> Ret {
            let fs: &[fn(Vec<u8>) -> Ret] = &[
                $( |body| {
                    let resp = http::Response::builder().status(200).header("content-type", "application/json").body(body).unwrap();
                    match <$($seg)::+::Response as IncomingResponse>::try_from_http_response(resp) {
                        Ok(r) => match r.try_into_http_response::<Vec<u8>>() {
                            Ok(out) => Sx::ok(Sx::S(out.into_body())),
                            Err(_) => Sx::err(1),
                        },
                        Err(_) => Sx::err(0),
                    }
                } ),*
            ];
            match fs.get(idx) { Some(f) => f(body), None => Sx::err(9) }
        }
        #[allow(deprecated)]
        fn request_roundtrip(idx: usize, body: Vec<u8>, args: &[String]) -> Ret {
            let fs: &[fn(Vec<u8>, &[String]) -> Ret] = &[
                $( |body, args| {
                    let method = <$($seg)::+::Request as OutgoingRequest>::METADATA.method;
                    let req = http::Request::builder().method(method).uri("https://h.example/").header("content-type", "application/json").body(body).unwrap();
                    match <$($seg)::+::Request as IncomingRequest>::try_from_http_request(req, args) {
                        Ok(r) => {
                            let tok = SendAccessToken::Always("t");
                            let out = r.clone().try_into_http_request::<Vec<u8>>("https://h.example", tok, &[MatrixVersion::V1_11])
                                .or_else(|_| r.try_into_http_request::<Vec<u8>>("https://h.example", tok, &[MatrixVersion::V1_1]));
                            match out {
                                Ok(out) => Sx::ok(Sx::S(out.into_body())),
                                Err(_) => Sx::err(1),
                            }
                        }
                        Err(_) => Sx::err(0),
                    }
                } ),*
            ];
            match fs.get(idx) { Some(f) => f(body, args), None => Sx::err(9) }
        }
        #[allow(deprecated)]
        fn query_roundtrip(idx: usize, query: String, args: &[String]) -> Ret {
            let fs: &[fn(String, &[String]) -> Ret] = &[
                $( |query, args| {
                    use ruma_common::exports::serde_html_form;
                    let method = <$($seg)::+::Request as OutgoingRequest>::METADATA.method;
                    let uri = if query.is_empty() { "https://h.example/".to_owned() } else { format!("https://h.example/?{query}") };
                    let Ok(req) = http::Request::builder().method(method).uri(uri).body(Vec::<u8>::new()) else { return Sx::err(7) };
                    match <$($seg)::+::Request as IncomingRequest>::try_from_http_request(req, args) {
                        Ok(r) => {
                            let tok = SendAccessToken::Always("t");
                            let out = r.clone().try_into_http_request::<Vec<u8>>("https://h.example", tok, &[MatrixVersion::V1_11])
                                .or_else(|_| r.try_into_http_request::<Vec<u8>>("https://h.example", tok, &[MatrixVersion::V1_1]));
                            match out {
                                Ok(out) => match serde_html_form::from_str::<Vec<(String, String)>>(out.uri().query().unwrap_or("")) {
                                    Ok(pairs) => Sx::ok(Sx::L(pairs.iter().map(|(k, v)| Sx::L(vec![Sx::s(k), Sx::s(v)])).collect())),
                                    Err(_) => Sx::err(2),
                                },
                                Err(_) => Sx::err(1),
                            }
                        }
                        Err(_) => Sx::err(0),
                    }
                } ),*
            ];
            match fs.get(idx) { Some(f) => f(query, args), None => Sx::err(9) }
        }
    };
}
for_each_endpoint!(body_tables);

pub fn run_query(endpoint: &str, pairs: &[(String, String)], path_tys: &[String]) -> Sx {
    use ruma_common::exports::serde_html_form;
    let Some(idx) = names().iter().position(|n| n == endpoint) else { return Sx::err(9) };
    let Ok(q) = serde_html_form::to_string(pairs) else { return Sx::err(8) };
    let args: Vec<String> = path_tys.iter().map(|t| path_arg(t).to_owned()).collect();
    query_roundtrip(idx, q, &args)
}

fn leaf_text(r: &mut Rng, t: &Value, bad: u64) -> String {
    let a = t.as_array().unwrap();
    match a[0].as_str().unwrap() {
        "bool" => {
            let pool: &[&str] = if r.chance(bad, 100) { &["1", "True", "", "yes"] } else { &["true", "false"] };
            (*r.pick(pool)).to_owned()
        }
        "int" => {
            let lo = a[1].as_i64().unwrap_or(i64::MIN);
            if r.chance(bad, 100) {
                (*r.pick(&["-1", "1.0", "1e3", "", "x", "18446744073709551616", "9007199254740992", " 5", "0x10"])).to_owned()
            } else {
                match r.below(6) {
                    0 => "0".to_owned(),
                    1 => "+7".to_owned(),
                    2 => "007".to_owned(),
                    3 => "9007199254740991".to_owned(),
                    4 if lo < 0 => format!("-{}", r.below(1000)),
                    _ => format!("{}", r.below(100000)),
                }
            }
        }
        _ => match gen(r, t, &Cfg { bad, extra: 0 }) {
            Value::String(s) => s,
            other => other.to_string(),
        },
    }
}

fn gen_query(r: &mut Rng, sch: &Value, bad: u64) -> Vec<(String, String)> {
    let mut out = vec![];
    for f in sch[2].as_array().unwrap() {
        let name = f["name"].as_str().unwrap().to_owned();
        let ty = &f["ty"];
        let required = f["default"][0] == "required" && ty[0] != "opt" || f["default"][0] == "strict";
        let present = required && !r.chance(bad, 300) || !required && r.chance(3, 5);
        if !present {
            continue;
        }
        match ty[0].as_str().unwrap() {
            "vec" => {
                for _ in 0..r.below(4) {
                    out.push((name.clone(), leaf_text(r, &ty[1], bad)));
                }
            }
            "opt" => out.push((name, if r.chance(1, 6) { String::new() } else { leaf_text(r, &ty[1], bad) })),
            _ => out.push((name, leaf_text(r, ty, bad))),
        }
    }
    if r.chance(1, 4) {
        out.push((format!("x_unknown{}", r.below(3)), "v".to_owned()));
    }
    // the order of the pairs is the caller's
    if r.chance(1, 3) {
        out.reverse();
    }
    out
}

pub fn run_impl(endpoint: &str, which: &str, content: &Value, path_tys: &[String]) -> Sx {
    let Some(idx) = names().iter().position(|n| n == endpoint) else { return Sx::err(9) };
    // the body text is the canonical (key-sorted, compact) form
    let Ok(canon) = CanonicalJsonValue::try_from(content.clone()) else { return Sx::err(8) };
    let body = serde_json::to_vec(&canon).unwrap();
    if which == "Response" {
        response_roundtrip(idx, body)
    } else {
        let args: Vec<String> = path_tys.iter().map(|t| path_arg(t).to_owned()).collect();
        request_roundtrip(idx, body, &args)
    }
}

fn path_tys_of(b: &Value) -> Vec<String> {
    b["other"]["path"].as_array().map(|a| a.iter().map(|x| x.as_str().unwrap_or("").to_owned()).collect()).unwrap_or_default()
}

pub fn run(tier: &str, seed: u64, em: &mut Emitter) {
    let all: Value = serde_json::from_str(BODIES).expect("gen_bodies.json");
    let mut r = Rng::new(seed ^ 0xC16_B0D1);
    let per = if tier == "thorough" { 600 } else { 40 };
    let clean = Cfg { bad: 0, extra: 25 };
    let dirty = Cfg { bad: 10, extra: 25 };
    for b in all["bodies"].as_array().expect("bodies") {
        let (ep, which, shape) = (b["endpoint"].as_str().unwrap(), b["which"].as_str().unwrap(), b["shape"].as_str().unwrap());
        if shape == "empty" || b["other"]["headers"] == true || (which == "Request" && b["other"]["query"] == true) {
            continue;
        }
        let tys = path_tys_of(b);
        for i in 0..per {
            let cfg = if i % 4 == 3 { &dirty } else { &clean };
            let v = gen(&mut r, &b["schema"], cfg);
            let Ok(c) = CanonicalJsonValue::try_from(v.clone()) else { continue };
            let case = Sx::L(vec![Sx::N(13), Sx::s(ep), Sx::s(which), json_to_sx(&c)]);
            let (e, w, t) = (ep.to_owned(), which.to_owned(), tys.clone());
            em.emit(if i % 4 == 3 { "body-mutant" } else { "body-valid" }, case, guarded(move || run_impl(&e, &w, &v, &t)));
        }
    }
    let perq = if tier == "thorough" { 1500 } else { 120 };
    for q in all["queries"].as_array().expect("queries") {
        if q["shape"] != "empty" {
            continue;
        }
        let ep = q["endpoint"].as_str().unwrap();
        let tys: Vec<String> = q["path"].as_array().map(|a| a.iter().map(|x| x.as_str().unwrap_or("").to_owned()).collect()).unwrap_or_default();
        for i in 0..perq {
            let pairs = gen_query(&mut r, &q["schema"], if i % 4 == 3 { 12 } else { 0 });
            let case = Sx::L(vec![Sx::N(14), Sx::s(ep), Sx::L(pairs.iter().map(|(k, v)| Sx::L(vec![Sx::s(k), Sx::s(v)])).collect())]);
            let (e, t) = (ep.to_owned(), tys.clone());
            em.emit(if i % 4 == 3 { "query-mutant" } else { "query-valid" }, case, guarded(move || run_query(&e, &pairs, &t)));
        }
    }
}

fn pairs_of(x: &Sx) -> Option<Vec<(String, String)>> {
    x.as_list()?.iter().map(|p| { let p = p.as_list()?; Some((p.first()?.as_string()?, p.get(1)?.as_string()?)) }).collect()
}

pub fn replay_query(endpoint: &Sx, pairs: &Sx) -> Option<Sx> {
    let endpoint = endpoint.as_string()?;
    let pairs = pairs_of(pairs)?;
    let all: Value = serde_json::from_str(BODIES).ok()?;
    let tys = all["queries"].as_array()?.iter().find(|b| b["endpoint"] == endpoint.as_str()).map(|b| {
        b["path"].as_array().map(|a| a.iter().map(|x| x.as_str().unwrap_or("").to_owned()).collect::<Vec<_>>()).unwrap_or_default()
    }).unwrap_or_default();
    Some(guarded(move || run_query(&endpoint, &pairs, &tys)))
}

pub fn replay(endpoint: &Sx, which: &Sx, content: &Sx) -> Option<Sx> {
    let (endpoint, which) = (endpoint.as_string()?, which.as_string()?);
    let content = serde_json::to_value(sx_to_json(content)?).ok()?;
    let all: Value = serde_json::from_str(BODIES).ok()?;
    let tys = all["bodies"]
        .as_array()?
        .iter()
        .find(|b| b["endpoint"] == endpoint.as_str() && b["which"] == which.as_str())
        .map(path_tys_of)
        .unwrap_or_default();
    Some(guarded(move || run_impl(&endpoint, &which, &content, &tys)))
}
