//! C09 — auth-event selection and non-interference.
//!
//! case    = ( version event state oracle ( perturbed-state .. ) )     (event/state/oracle as in c08.rs)
//!   perturbed-state = ( ( type key event? ) .. )  overrides of the base state; no event = key removed
//! outcome = (0 ( selection? ( read .. ) verdict ( verdict .. ) ))
//!   selection? = ( ) if `auth_types_for_event` failed, ( ( (type key) .. ) ) otherwise (the Vec, in order)
//!   read       = the (type, state_key) pairs `auth_check` asked `fetch_state` for, in call order
//!   verdict    = 0 accepted, 1 rejected, 2 panicked; base state first, then one per perturbed state
use ruma_common::CanonicalJsonObject;
use ruma_state_res::auth_types_for_event;
use serde_json::json;

use crate::{
    c08::{self, case_sx, cobj, mk_ev, run_auth, rules_of, Case, Ev, State, ALICE, BOB, CREATOR, DAVE, EVE, ROOM},
    sx::Sx,
    Emitter,
};

type Key = (String, String);
type Overrides = Vec<(Key, Option<Ev>)>;

fn key_sx(k: &Key) -> Sx {
    Sx::L(vec![Sx::s(&k.0), Sx::s(&k.1)])
}

fn selection(c: &Case) -> Option<Vec<Key>> {
    let rules = rules_of(c.v);
    auth_types_for_event(&c.ev.ty, &c.ev.sender, c.ev.skey.as_deref(), &c.ev.raw, &rules)
        .ok()
        .map(|v| v.into_iter().map(|(t, k)| (t.to_string(), k)).collect())
}

fn apply(base: &State, ov: &Overrides) -> State {
    let mut st: State = vec![];
    for (k, e) in ov {
        if st.iter().any(|(k2, _)| k2 == k) {
            continue;
        }
        if let Some(e) = e {
            st.push((k.clone(), e.clone()));
        }
    }
    for (k, e) in base {
        if ov.iter().any(|(k2, _)| k2 == k) || st.iter().any(|(k2, _)| k2 == k) {
            continue;
        }
        st.push((k.clone(), e.clone()));
    }
    st
}

fn hostile_content(ty: &str, current: Option<&Ev>, variant: usize) -> CanonicalJsonObject {
    let cur_str = |f: &str| -> Option<String> {
        current.and_then(|e| e.content.get(f)).and_then(|v| v.as_str()).map(str::to_owned)
    };
    match ty {
        "m.room.member" => {
            let m = match (cur_str("membership").as_deref(), variant) {
                (Some("join"), 0) => "ban",
                (Some("ban"), 0) => "join",
                (_, 0) => "join",
                (Some("invite"), _) => "leave",
                _ => "invite",
            };
            cobj(json!({"membership": m}))
        }
        "m.room.join_rules" => {
            let j = match (cur_str("join_rule").as_deref(), variant) {
                (Some("public"), _) => "invite",
                (_, 0) => "public",
                _ => "knock",
            };
            cobj(json!({"join_rule": j}))
        }
        "m.room.power_levels" => {
            if variant == 0 {
                cobj(json!({"users_default": 100, "invite": 100, "kick": 100, "ban": 100, "redact": 100,
                            "state_default": 100, "events_default": 100}))
            } else {
                cobj(json!({"users_default": 100, "invite": 0, "kick": 0, "ban": 0, "redact": 0,
                            "state_default": 0, "events_default": 0, "users": {}}))
            }
        }
        "m.room.create" => cobj(json!({"creator": EVE, "m.federate": false})),
        _ => cobj(json!({"public_key": "AAAA", "public_keys": 5})),
    }
}

fn candidates() -> Vec<Key> {
    let mut out = vec![];
    for u in [ALICE, BOB, CREATOR, DAVE, EVE, "@zed:s1"] {
        out.push(("m.room.member".to_owned(), u.to_owned()));
    }
    for t in ["m.room.join_rules", "m.room.power_levels", "m.room.create"] {
        out.push((t.to_owned(), String::new()));
        out.push((t.to_owned(), "x".to_owned()));
    }
    for k in ["tok", "tok2", ""] {
        out.push(("m.room.third_party_invite".to_owned(), k.to_owned()));
    }
    out.push(("m.room.topic".to_owned(), String::new()));
    out
}

/// Perturbations of the state outside `protect`: remove everything else; add or replace with
/// entries chosen to flip a verdict that looked at them (two variants); make everything else malformed.
fn perturbations(c: &Case, protect: &[Key]) -> Vec<Overrides> {
    let is_protected = |k: &Key| protect.contains(k);
    let mut remove: Overrides = vec![];
    let mut garble: Overrides = vec![];
    for (k, e) in &c.state {
        if !is_protected(k) && !remove.iter().any(|(k2, _)| k2 == k) {
            remove.push((k.clone(), None));
            let mut g = e.clone();
            g.set_content(cobj(json!({"membership": 5, "join_rule": 5, "users": 5, "creator": 5, "m.federate": 5,
                                      "public_key": 5, "events": 5, "ban": "x"})));
            garble.push((k.clone(), Some(g)));
        }
    }
    let mut hostile = vec![vec![], vec![]];
    for (variant, h) in hostile.iter_mut().enumerate() {
        for k in candidates() {
            if is_protected(&k) {
                continue;
            }
            let cur = c08::state_get(&c.state, &k.0, &k.1);
            let sender = if k.0 == "m.room.member" && k.1.starts_with('@') { k.1.clone() } else { EVE.to_owned() };
            let e = mk_ev(&c08::eid(c.v, &format!("p{}{}", variant, h.len())), ROOM, &sender, &k.0, Some(&k.1),
                          hostile_content(&k.0, cur, variant));
            h.push((k, Some(e)));
        }
    }
    let mut out = vec![remove];
    out.append(&mut hostile);
    out.push(garble);
    out
}

fn overrides_sx(ov: &Overrides) -> Sx {
    Sx::L(ov.iter().map(|((t, k), e)| Sx::L(vec![Sx::s(t), Sx::s(k), Sx::opt(e.as_ref().map(c08::ev_to_sx))])).collect())
}

fn verdict(out: &Sx) -> Sx {
    match out {
        Sx::L(l) => l.first().cloned().unwrap_or(Sx::N(2)),
        _ => Sx::N(2),
    }
}

/// Run one case with the given perturbations.
fn run_one(c: &Case, pert: &[Overrides]) -> (Sx, Sx) {
    let sel = selection(c);
    let (out, reads) = run_auth(c.v, &c.ev, &c.state);
    let mut pv = vec![];
    let mut states: Vec<State> = vec![];
    for ov in pert {
        let st = apply(&c.state, ov);
        pv.push(verdict(&run_auth(c.v, &c.ev, &st).0));
        states.push(st);
    }
    // the signature oracle must cover the third-party-invite events of every state
    let mut all: State = c.state.clone();
    for st in &states {
        for (k, e) in st {
            if k.0 == "m.room.third_party_invite" {
                all.push((k.clone(), e.clone()));
            }
        }
    }
    let mut case = match case_sx(c) {
        Sx::L(l) => l,
        _ => unreachable!(),
    };
    case[3] = c08::oracle(&c.ev, &all);
    case.push(Sx::L(pert.iter().map(overrides_sx).collect()));
    let outcome = Sx::ok(Sx::L(vec![
        Sx::opt(sel.as_ref().map(|s| Sx::L(s.iter().map(key_sx).collect()))),
        Sx::L(reads.iter().map(key_sx).collect()),
        verdict(&out),
        Sx::L(pv),
    ]));
    (Sx::L(case), outcome)
}

pub fn run(tier: &str, seed: u64, em: &mut Emitter) {
    let mut n: u64 = 0;
    let thorough = tier == "thorough";
    let mut sink = |tag: &str, c: &Case| {
        if tag == "sys-type-alias" {
            // open finding C08-type-alias (event-type alias in `events` keys) belongs to C08
            return;
        }
        n += 1;
        // the quick tier takes every other case of C08's stream
        if !thorough && n % 2 == 0 {
            return;
        }
        let protect: Vec<Key> = match selection(c) {
            Some(s) => s,
            None => {
                // selection undefined: keep what the check itself looked at
                let (_, reads) = run_auth(c.v, &c.ev, &c.state);
                reads
            }
        };
        let pert = perturbations(c, &protect);
        let (case, out) = run_one(c, &pert);
        let accepted = matches!(&out, Sx::L(l) if matches!(l.get(1), Some(Sx::L(m)) if m.get(2) == Some(&Sx::N(0))));
        em.emit(&format!("{tag}/{}", if accepted { "accepted" } else { "rejected" }), case, out);
    };
    c08::generate(tier, seed ^ 0xC09, &mut sink);
}

fn sx_to_overrides(x: &Sx) -> Option<Overrides> {
    let mut out = vec![];
    for it in x.as_list()? {
        let l = it.as_list()?;
        let e = match l.get(2)?.as_opt()? {
            None => None,
            Some(e) => Some(c08::sx_to_ev(e)?),
        };
        out.push(((l.first()?.as_string()?, l.get(1)?.as_string()?), e));
    }
    Some(out)
}

pub fn replay(case: &Sx) -> Option<Sx> {
    let c = c08::sx_to_case(case)?;
    let l = case.as_list()?;
    let mut pert = vec![];
    for p in l.get(4)?.as_list()? {
        pert.push(sx_to_overrides(p)?);
    }
    Some(run_one(&c, &pert).1)
}

pub fn dump(_dir: &str) {}
