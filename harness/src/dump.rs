//! Dumps of compiled constants for the translator (tools/translate.py).
use ruma_common::RoomVersionId;

pub fn dump(dir: &str) {
    std::fs::create_dir_all(dir).unwrap();
    // Room version rules through the real id -> rules mapping and the real struct-update chains.
    let mut s = String::new();
    for v in 1..=11 {
        let id = RoomVersionId::try_from(v.to_string().as_str()).unwrap();
        let rules = id.rules().expect("known room version has rules");
        s.push_str(&format!("{v} = {rules:?}\n"));
    }
    // What the id -> rules mapping does outside 1..11 (must be None).
    for other in ["0", "12", "org.example.custom", "01"] {
        let id = RoomVersionId::try_from(other).unwrap();
        s.push_str(&format!("other {other} = {}\n", id.rules().is_some()));
    }
    std::fs::write(format!("{dir}/room_rules.txt"), s).unwrap();
    crate::dump_all(dir);
}
