//! C12 — push rule evaluation: cases and implementation outcomes.
//!
//! case (see coq/C12/Run.v):
//!   ( 0 ruleset event ctx aux )        Ruleset::get_match      -> Ok ( ) | Ok ( kind id n_actions )
//!   ( 1 ruleset event ctx aux )        Ruleset::get_actions    -> Ok n_actions
//!   ( 2 word pat val lpat lval fits )  PushCondition::EventMatch on content.body / content.x -> Ok b
//!   ( 3 event ( path ... ) )           FlattenedJson::get per path, then contains_mentions
//!   ( 4 cond event ctx aux )           PushCondition::applies  -> Ok b
//! event: JSON value as serde_json reads the text handed to ruma ( 0 ) ( 1 b ) ( 2 i64 ) ( 3 s )
//!   ( 4 v.. ) ( 5 (k v).. ) ( 6 literal ) = a number that is not an i64, ( 7 literal ) = a number
//!   serde_json refuses (the implementation gets the text, the model this classification).
//! aux = ( ( (s lowercase(s)) .. ) ( valid user ids .. ) ( lowercased patterns whose regex does not fit .. ) )
use std::collections::BTreeMap;

use js_int::{Int, UInt};
use ruma_common::{
    power_levels::NotificationPowerLevels,
    push::{
        Action, AnyPushRuleRef, ComparisonOperator, ConditionalPushRule, ConditionalPushRuleInit, FlattenedJson,
        FlattenedJsonValue, PatternedPushRule, PatternedPushRuleInit, PredefinedContentRuleId,
        PredefinedOverrideRuleId, PushCondition, PushConditionPowerLevelsCtx, PushConditionRoomCtx, RoomMemberCountIs,
        Ruleset, ScalarJsonValue, SimplePushRule, SimplePushRuleInit,
    },
    serde::Raw,
    OwnedRoomId, OwnedUserId, RoomId, UserId,
};
use serde_json::Value as JsonValue;

use crate::{
    rng::Rng,
    sx::{guarded, Sx},
    Emitter,
};

// ---------------------------------------------------------------------------------------------
// JSON trees whose numbers are literals
// ---------------------------------------------------------------------------------------------
#[derive(Clone, Debug, PartialEq)]
enum J {
    Null,
    Bool(bool),
    Num(String),
    Str(String),
    Arr(Vec<J>),
    Obj(BTreeMap<String, J>),
}

enum NumClass {
    I64(i64),
    Other,
    Bad,
}

fn classify(lit: &str) -> NumClass {
    match serde_json::from_str::<JsonValue>(lit) {
        Err(_) => NumClass::Bad,
        Ok(JsonValue::Number(n)) => match n.as_i64() {
            Some(i) => NumClass::I64(i),
            None => NumClass::Other,
        },
        Ok(_) => panic!("not a number literal: {lit}"),
    }
}

impl J {
    fn text(&self, out: &mut String) {
        match self {
            J::Null => out.push_str("null"),
            J::Bool(b) => out.push_str(if *b { "true" } else { "false" }),
            J::Num(l) => out.push_str(l),
            J::Str(s) => out.push_str(&serde_json::to_string(s).unwrap()),
            J::Arr(a) => {
                out.push('[');
                for (i, x) in a.iter().enumerate() {
                    if i > 0 {
                        out.push(',');
                    }
                    x.text(out);
                }
                out.push(']');
            }
            J::Obj(o) => {
                out.push('{');
                for (i, (k, x)) in o.iter().enumerate() {
                    if i > 0 {
                        out.push(',');
                    }
                    out.push_str(&serde_json::to_string(k).unwrap());
                    out.push(':');
                    x.text(out);
                }
                out.push('}');
            }
        }
    }
    fn to_text(&self) -> String {
        let mut s = String::new();
        self.text(&mut s);
        s
    }
    fn sx(&self) -> Sx {
        match self {
            J::Null => Sx::L(vec![Sx::N(0)]),
            J::Bool(b) => Sx::L(vec![Sx::N(1), Sx::b(*b)]),
            J::Num(l) => match classify(l) {
                NumClass::I64(i) => Sx::L(vec![Sx::N(2), Sx::N(i as i128)]),
                NumClass::Other => Sx::L(vec![Sx::N(6), Sx::s(l)]),
                NumClass::Bad => Sx::L(vec![Sx::N(7), Sx::s(l)]),
            },
            J::Str(s) => Sx::L(vec![Sx::N(3), Sx::s(s)]),
            J::Arr(a) => {
                let mut l = vec![Sx::N(4)];
                l.extend(a.iter().map(J::sx));
                Sx::L(l)
            }
            J::Obj(o) => {
                let mut l = vec![Sx::N(5)];
                for (k, v) in o {
                    l.push(Sx::L(vec![Sx::s(k), v.sx()]));
                }
                Sx::L(l)
            }
        }
    }
    fn from_sx(x: &Sx) -> Option<J> {
        let l = x.as_list()?;
        match (l.first()?.as_int()?, &l[1..]) {
            (0, []) => Some(J::Null),
            (1, [b]) => Some(J::Bool(b.as_int()? != 0)),
            (2, [n]) => Some(J::Num(n.as_int()?.to_string())),
            (3, [s]) => Some(J::Str(s.as_string()?)),
            (4, items) => items.iter().map(J::from_sx).collect::<Option<Vec<_>>>().map(J::Arr),
            (5, items) => {
                let mut o = BTreeMap::new();
                for it in items {
                    let kv = it.as_list()?;
                    o.insert(kv.first()?.as_string()?, J::from_sx(kv.get(1)?)?);
                }
                Some(J::Obj(o))
            }
            (6, [s]) | (7, [s]) => Some(J::Num(s.as_string()?)),
            _ => None,
        }
    }
    fn strings(&self, out: &mut Vec<String>) {
        match self {
            J::Str(s) => out.push(s.clone()),
            J::Arr(a) => a.iter().for_each(|x| x.strings(out)),
            J::Obj(o) => o.values().for_each(|x| x.strings(out)),
            _ => {}
        }
    }
    fn raw(&self) -> Raw<JsonValue> {
        serde_json::from_str::<Raw<JsonValue>>(&self.to_text()).expect("generated event text is valid JSON")
    }
}

fn obj(items: Vec<(&str, J)>) -> J {
    J::Obj(items.into_iter().map(|(k, v)| (k.to_owned(), v)).collect())
}
fn js(s: &str) -> J {
    J::Str(s.to_owned())
}

// ---------------------------------------------------------------------------------------------
// Descriptions of conditions, rules, contexts (what goes on the wire) and the real values
// ---------------------------------------------------------------------------------------------
#[derive(Clone, Debug)]
enum Sc {
    Null,
    Bool(bool),
    Int(i64),
    Str(String),
}

#[derive(Clone, Debug)]
enum Cd {
    Match(String, String),
    Dn,
    Count(u8, u64),
    Perm(String),
    Is(String, Sc),
    Contains(String, Sc),
    Custom,
}

#[derive(Clone, Debug)]
struct CR {
    id: String,
    en: bool,
    conds: Vec<Cd>,
    act: usize,
}
#[derive(Clone, Debug)]
struct PR {
    id: String,
    en: bool,
    pat: String,
    act: usize,
}
#[derive(Clone, Debug)]
struct SR {
    id: String,
    en: bool,
    act: usize,
}
#[derive(Clone, Debug, Default)]
struct RS {
    o: Vec<CR>,
    c: Vec<PR>,
    r: Vec<SR>,
    s: Vec<SR>,
    u: Vec<CR>,
}
#[derive(Clone, Debug)]
struct Cx {
    room: String,
    members: u64,
    user: String,
    dn: String,
    pl: Option<(Vec<(String, i64)>, i64, i64)>,
}

impl Sc {
    fn sx(&self) -> Sx {
        match self {
            Sc::Null => Sx::L(vec![Sx::N(0)]),
            Sc::Bool(b) => Sx::L(vec![Sx::N(1), Sx::b(*b)]),
            Sc::Int(i) => Sx::L(vec![Sx::N(2), Sx::N(*i as i128)]),
            Sc::Str(s) => Sx::L(vec![Sx::N(3), Sx::s(s)]),
        }
    }
    fn from_sx(x: &Sx) -> Option<Sc> {
        let l = x.as_list()?;
        match (l.first()?.as_int()?, &l[1..]) {
            (0, []) => Some(Sc::Null),
            (1, [b]) => Some(Sc::Bool(b.as_int()? != 0)),
            (2, [n]) => Some(Sc::Int(i64::try_from(n.as_int()?).ok()?)),
            (3, [s]) => Some(Sc::Str(s.as_string()?)),
            _ => None,
        }
    }
    fn real(&self) -> ScalarJsonValue {
        match self {
            Sc::Null => ScalarJsonValue::Null,
            Sc::Bool(b) => ScalarJsonValue::Bool(*b),
            Sc::Int(i) => ScalarJsonValue::Integer(Int::new(*i).expect("generated integers fit js_int::Int")),
            Sc::Str(s) => ScalarJsonValue::String(s.clone()),
        }
    }
    fn of_real(v: &ScalarJsonValue) -> Sc {
        match v {
            ScalarJsonValue::Null => Sc::Null,
            ScalarJsonValue::Bool(b) => Sc::Bool(*b),
            ScalarJsonValue::Integer(i) => Sc::Int(i64::from(*i)),
            ScalarJsonValue::String(s) => Sc::Str(s.clone()),
        }
    }
}

fn op_real(op: u8) -> ComparisonOperator {
    match op {
        0 => ComparisonOperator::Eq,
        1 => ComparisonOperator::Lt,
        2 => ComparisonOperator::Gt,
        3 => ComparisonOperator::Ge,
        _ => ComparisonOperator::Le,
    }
}
fn op_code(op: ComparisonOperator) -> u8 {
    match op {
        ComparisonOperator::Eq => 0,
        ComparisonOperator::Lt => 1,
        ComparisonOperator::Gt => 2,
        ComparisonOperator::Ge => 3,
        ComparisonOperator::Le => 4,
    }
}

impl Cd {
    fn sx(&self) -> Sx {
        match self {
            Cd::Match(k, p) => Sx::L(vec![Sx::N(0), Sx::s(k), Sx::s(p)]),
            Cd::Dn => Sx::L(vec![Sx::N(1)]),
            Cd::Count(op, n) => Sx::L(vec![Sx::N(2), Sx::N(*op as i128), Sx::N(*n as i128)]),
            Cd::Perm(k) => Sx::L(vec![Sx::N(3), Sx::s(k)]),
            Cd::Is(k, v) => Sx::L(vec![Sx::N(4), Sx::s(k), v.sx()]),
            Cd::Contains(k, v) => Sx::L(vec![Sx::N(5), Sx::s(k), v.sx()]),
            Cd::Custom => Sx::L(vec![Sx::N(6)]),
        }
    }
    fn from_sx(x: &Sx) -> Option<Cd> {
        let l = x.as_list()?;
        match (l.first()?.as_int()?, &l[1..]) {
            (0, [k, p]) => Some(Cd::Match(k.as_string()?, p.as_string()?)),
            (1, []) => Some(Cd::Dn),
            (2, [o, n]) => Some(Cd::Count(u8::try_from(o.as_int()?).ok()?, u64::try_from(n.as_int()?).ok()?)),
            (3, [k]) => Some(Cd::Perm(k.as_string()?)),
            (4, [k, v]) => Some(Cd::Is(k.as_string()?, Sc::from_sx(v)?)),
            (5, [k, v]) => Some(Cd::Contains(k.as_string()?, Sc::from_sx(v)?)),
            (6, []) => Some(Cd::Custom),
            _ => None,
        }
    }
    fn real(&self) -> PushCondition {
        match self {
            Cd::Match(k, p) => PushCondition::EventMatch { key: k.clone(), pattern: p.clone() },
            Cd::Dn => PushCondition::ContainsDisplayName,
            Cd::Count(op, n) => PushCondition::RoomMemberCount {
                is: RoomMemberCountIs { prefix: op_real(*op), count: UInt::new(*n).expect("count fits UInt") },
            },
            Cd::Perm(k) => PushCondition::SenderNotificationPermission { key: k.clone() },
            Cd::Is(k, v) => PushCondition::EventPropertyIs { key: k.clone(), value: v.real() },
            Cd::Contains(k, v) => PushCondition::EventPropertyContains { key: k.clone(), value: v.real() },
            Cd::Custom => serde_json::from_value(serde_json::json!({"kind": "org.example.custom", "x": 1}))
                .expect("unknown condition kinds deserialize to _Custom"),
        }
    }
    fn of_real(c: &PushCondition) -> Cd {
        match c {
            PushCondition::EventMatch { key, pattern } => Cd::Match(key.clone(), pattern.clone()),
            PushCondition::ContainsDisplayName => Cd::Dn,
            PushCondition::RoomMemberCount { is } => Cd::Count(op_code(is.prefix), u64::from(is.count)),
            PushCondition::SenderNotificationPermission { key } => Cd::Perm(key.clone()),
            PushCondition::EventPropertyIs { key, value } => Cd::Is(key.clone(), Sc::of_real(value)),
            PushCondition::EventPropertyContains { key, value } => Cd::Contains(key.clone(), Sc::of_real(value)),
            _ => Cd::Custom,
        }
    }
    /// (pattern, word mode) pairs this condition may hand to `matches_pattern`.
    fn patterns(&self, dn: &str, out: &mut Vec<(String, bool)>) {
        match self {
            Cd::Match(k, p) => out.push((p.clone(), k == "content.body")),
            Cd::Dn => out.push((dn.to_owned(), true)),
            _ => {}
        }
    }
}

fn actions(n: usize) -> Vec<Action> {
    vec![Action::Notify; n]
}

impl CR {
    fn sx(&self) -> Sx {
        Sx::L(vec![
            Sx::s(&self.id),
            Sx::b(self.en),
            Sx::L(self.conds.iter().map(Cd::sx).collect()),
            Sx::N(self.act as i128),
        ])
    }
    fn from_sx(x: &Sx) -> Option<CR> {
        let l = x.as_list()?;
        Some(CR {
            id: l.first()?.as_string()?,
            en: l.get(1)?.as_int()? != 0,
            conds: l.get(2)?.as_list()?.iter().map(Cd::from_sx).collect::<Option<Vec<_>>>()?,
            act: usize::try_from(l.get(3)?.as_int()?).ok()?,
        })
    }
    fn real(&self) -> ConditionalPushRule {
        ConditionalPushRuleInit {
            actions: actions(self.act),
            default: self.id.starts_with('.'),
            enabled: self.en,
            rule_id: self.id.clone(),
            conditions: self.conds.iter().map(Cd::real).collect(),
        }
        .into()
    }
    fn of_real(r: &ConditionalPushRule) -> CR {
        CR {
            id: r.rule_id.clone(),
            en: r.enabled,
            conds: r.conditions.iter().map(Cd::of_real).collect(),
            act: r.actions.len(),
        }
    }
}
impl PR {
    fn sx(&self) -> Sx {
        Sx::L(vec![Sx::s(&self.id), Sx::b(self.en), Sx::s(&self.pat), Sx::N(self.act as i128)])
    }
    fn from_sx(x: &Sx) -> Option<PR> {
        let l = x.as_list()?;
        Some(PR {
            id: l.first()?.as_string()?,
            en: l.get(1)?.as_int()? != 0,
            pat: l.get(2)?.as_string()?,
            act: usize::try_from(l.get(3)?.as_int()?).ok()?,
        })
    }
    fn real(&self) -> PatternedPushRule {
        PatternedPushRuleInit {
            actions: actions(self.act),
            default: self.id.starts_with('.'),
            enabled: self.en,
            rule_id: self.id.clone(),
            pattern: self.pat.clone(),
        }
        .into()
    }
}
impl SR {
    fn sx(&self) -> Sx {
        Sx::L(vec![Sx::s(&self.id), Sx::b(self.en), Sx::N(self.act as i128)])
    }
    fn from_sx(x: &Sx) -> Option<SR> {
        let l = x.as_list()?;
        Some(SR {
            id: l.first()?.as_string()?,
            en: l.get(1)?.as_int()? != 0,
            act: usize::try_from(l.get(2)?.as_int()?).ok()?,
        })
    }
}

impl RS {
    fn sx(&self) -> Sx {
        Sx::L(vec![
            Sx::L(self.o.iter().map(CR::sx).collect()),
            Sx::L(self.c.iter().map(PR::sx).collect()),
            Sx::L(self.r.iter().map(SR::sx).collect()),
            Sx::L(self.s.iter().map(SR::sx).collect()),
            Sx::L(self.u.iter().map(CR::sx).collect()),
        ])
    }
    fn from_sx(x: &Sx) -> Option<RS> {
        let l = x.as_list()?;
        if l.len() != 5 {
            return None;
        }
        Some(RS {
            o: l[0].as_list()?.iter().map(CR::from_sx).collect::<Option<Vec<_>>>()?,
            c: l[1].as_list()?.iter().map(PR::from_sx).collect::<Option<Vec<_>>>()?,
            r: l[2].as_list()?.iter().map(SR::from_sx).collect::<Option<Vec<_>>>()?,
            s: l[3].as_list()?.iter().map(SR::from_sx).collect::<Option<Vec<_>>>()?,
            u: l[4].as_list()?.iter().map(CR::from_sx).collect::<Option<Vec<_>>>()?,
        })
    }
    /// The real ruleset.  `None` if an id is not a valid room / user id or occurs twice in its kind
    /// (the IndexSet would then not be the list on the wire).
    fn real(&self) -> Option<Ruleset> {
        let mut rs = Ruleset::new();
        for r in &self.o {
            if !rs.override_.insert(r.real()) {
                return None;
            }
        }
        for r in &self.c {
            if !rs.content.insert(r.real()) {
                return None;
            }
        }
        for r in &self.r {
            let rule_id: OwnedRoomId = RoomId::parse(&r.id).ok()?;
            let rule: SimplePushRule<OwnedRoomId> =
                SimplePushRuleInit { actions: actions(r.act), default: false, enabled: r.en, rule_id }.into();
            if !rs.room.insert(rule) {
                return None;
            }
        }
        for r in &self.s {
            let rule_id: OwnedUserId = UserId::parse(&r.id).ok()?;
            let rule: SimplePushRule<OwnedUserId> =
                SimplePushRuleInit { actions: actions(r.act), default: false, enabled: r.en, rule_id }.into();
            if !rs.sender.insert(rule) {
                return None;
            }
        }
        for r in &self.u {
            if !rs.underride.insert(r.real()) {
                return None;
            }
        }
        Some(rs)
    }
    fn of_real(rs: &Ruleset) -> RS {
        RS {
            o: rs.override_.iter().map(CR::of_real).collect(),
            c: rs
                .content
                .iter()
                .map(|r| PR { id: r.rule_id.clone(), en: r.enabled, pat: r.pattern.clone(), act: r.actions.len() })
                .collect(),
            r: rs
                .room
                .iter()
                .map(|r| SR { id: r.rule_id.to_string(), en: r.enabled, act: r.actions.len() })
                .collect(),
            s: rs
                .sender
                .iter()
                .map(|r| SR { id: r.rule_id.to_string(), en: r.enabled, act: r.actions.len() })
                .collect(),
            u: rs.underride.iter().map(CR::of_real).collect(),
        }
    }
    fn patterns(&self, dn: &str) -> Vec<(String, bool)> {
        let mut out = vec![];
        for r in self.o.iter().chain(self.u.iter()) {
            for c in &r.conds {
                c.patterns(dn, &mut out);
            }
        }
        for r in &self.c {
            out.push((r.pat.clone(), true));
        }
        for r in self.r.iter().chain(self.s.iter()) {
            out.push((r.id.clone(), false));
        }
        out
    }
}

impl Cx {
    fn sx(&self) -> Sx {
        Sx::L(vec![
            Sx::s(&self.room),
            Sx::N(self.members as i128),
            Sx::s(&self.user),
            Sx::s(&self.dn),
            Sx::opt(self.pl.as_ref().map(|(us, d, r)| {
                Sx::L(vec![
                    Sx::L(us.iter().map(|(u, l)| Sx::L(vec![Sx::s(u), Sx::N(*l as i128)])).collect()),
                    Sx::N(*d as i128),
                    Sx::N(*r as i128),
                ])
            })),
        ])
    }
    fn from_sx(x: &Sx) -> Option<Cx> {
        let l = x.as_list()?;
        let pl = match l.get(4)?.as_opt()? {
            None => None,
            Some(p) => {
                let p = p.as_list()?;
                let mut us = vec![];
                for u in p.first()?.as_list()? {
                    let u = u.as_list()?;
                    us.push((u.first()?.as_string()?, i64::try_from(u.get(1)?.as_int()?).ok()?));
                }
                Some((us, i64::try_from(p.get(1)?.as_int()?).ok()?, i64::try_from(p.get(2)?.as_int()?).ok()?))
            }
        };
        Some(Cx {
            room: l.first()?.as_string()?,
            members: u64::try_from(l.get(1)?.as_int()?).ok()?,
            user: l.get(2)?.as_string()?,
            dn: l.get(3)?.as_string()?,
            pl,
        })
    }
    fn real(&self) -> Option<PushConditionRoomCtx> {
        let power_levels = match &self.pl {
            None => None,
            Some((us, d, r)) => {
                let mut users = BTreeMap::new();
                for (u, l) in us {
                    users.insert(UserId::parse(u).ok()?, Int::new(*l)?);
                }
                if users.len() != us.len() || !us.windows(2).all(|w| w[0].0 < w[1].0) {
                    return None;
                }
                let mut notifications = NotificationPowerLevels::new();
                notifications.room = Int::new(*r)?;
                Some(PushConditionPowerLevelsCtx { users, users_default: Int::new(*d)?, notifications })
            }
        };
        Some(PushConditionRoomCtx {
            room_id: RoomId::parse(&self.room).ok()?,
            member_count: UInt::new(self.members)?,
            user_id: UserId::parse(&self.user).ok()?,
            user_display_name: self.dn.clone(),
            power_levels,
        })
    }
}

// ---------------------------------------------------------------------------------------------
// aux: what Rust computes for the model's external functions
// ---------------------------------------------------------------------------------------------
/// Patterns with at most this many '?' are known to compile; `HUGE_QM` and above are known not to.
const SMALL_QM: usize = 2_000;
const HUGE_QM: usize = 50_000;

fn regex_fits(lowered_pattern: &str) -> bool {
    let n = lowered_pattern.bytes().filter(|b| *b == b'?').count();
    if n <= SMALL_QM {
        true
    } else if n >= HUGE_QM {
        false
    } else {
        panic!("pattern with {n} question marks: not classified")
    }
}

fn aux(ev: &J, patterns: &[(String, bool)], extra: &[&str]) -> Sx {
    let mut strings = vec![];
    ev.strings(&mut strings);
    strings.extend(patterns.iter().map(|(p, _)| p.clone()));
    strings.extend(extra.iter().map(|s| (*s).to_owned()));
    strings.sort();
    strings.dedup();
    let lower: Vec<Sx> = strings
        .iter()
        .filter_map(|s| {
            let l = s.to_lowercase();
            (l != *s).then(|| Sx::L(vec![Sx::s(s), Sx::s(&l)]))
        })
        .collect();
    let mut valid = vec![];
    if let J::Obj(o) = ev {
        if let Some(J::Str(s)) = o.get("sender") {
            if <&UserId>::try_from(s.as_str()).is_ok() {
                valid.push(Sx::s(s));
            }
        }
    }
    let mut nofit: Vec<String> =
        patterns.iter().filter(|(_, w)| *w).map(|(p, _)| p.to_lowercase()).filter(|p| !regex_fits(p)).collect();
    nofit.sort();
    nofit.dedup();
    Sx::L(vec![Sx::L(lower), Sx::L(valid), Sx::L(nofit.iter().map(|p| Sx::s(p)).collect())])
}

// ---------------------------------------------------------------------------------------------
// Running the implementation
// ---------------------------------------------------------------------------------------------
fn kind_code(r: &AnyPushRuleRef<'_>) -> i128 {
    match r {
        AnyPushRuleRef::Override(_) => 0,
        AnyPushRuleRef::Content(_) => 1,
        AnyPushRuleRef::Room(_) => 2,
        AnyPushRuleRef::Sender(_) => 3,
        AnyPushRuleRef::Underride(_) => 4,
        _ => 9,
    }
}

fn run_get_match(rs: &Ruleset, ev: &J, cx: &PushConditionRoomCtx) -> Sx {
    let raw = ev.raw();
    let (rs, cx) = (rs.clone(), cx.clone());
    guarded(move || {
        Sx::ok(match rs.get_match(&raw, &cx) {
            None => Sx::L(vec![]),
            Some(r) => Sx::L(vec![Sx::N(kind_code(&r)), Sx::s(r.rule_id()), Sx::N(r.actions().len() as i128)]),
        })
    })
}

fn run_get_actions(rs: &Ruleset, ev: &J, cx: &PushConditionRoomCtx) -> Sx {
    let raw = ev.raw();
    let (rs, cx) = (rs.clone(), cx.clone());
    guarded(move || Sx::ok(Sx::N(rs.get_actions(&raw, &cx).len() as i128)))
}

fn run_cond(cd: &PushCondition, ev: &J, cx: &PushConditionRoomCtx) -> Sx {
    let raw = ev.raw();
    let (cd, cx) = (cd.clone(), cx.clone());
    guarded(move || {
        let f = FlattenedJson::from_raw(&raw);
        Sx::ok(Sx::b(cd.applies(&f, &cx)))
    })
}

fn scalar_sx(v: &ScalarJsonValue) -> Sx {
    Sc::of_real(v).sx()
}

fn fval_sx(v: Option<&FlattenedJsonValue>) -> Sx {
    match v {
        None => Sx::L(vec![]),
        Some(FlattenedJsonValue::Null) => Sx::L(vec![Sc::Null.sx()]),
        Some(FlattenedJsonValue::Bool(b)) => Sx::L(vec![Sc::Bool(*b).sx()]),
        Some(FlattenedJsonValue::Integer(i)) => Sx::L(vec![Sc::Int(i64::from(*i)).sx()]),
        Some(FlattenedJsonValue::String(s)) => Sx::L(vec![Sc::Str(s.clone()).sx()]),
        Some(FlattenedJsonValue::Array(a)) => {
            let mut l = vec![Sx::N(4)];
            l.extend(a.iter().map(scalar_sx));
            Sx::L(vec![Sx::L(l)])
        }
        Some(FlattenedJsonValue::EmptyObject) => Sx::L(vec![Sx::L(vec![Sx::N(5)])]),
    }
}

fn run_flatten(ev: &J, paths: &[String]) -> Sx {
    let raw = ev.raw();
    let paths = paths.to_vec();
    guarded(move || {
        let f = FlattenedJson::from_raw(&raw);
        let mut l: Vec<Sx> = paths.iter().map(|p| fval_sx(f.get(p))).collect();
        l.push(Sx::b(f.contains_mentions()));
        Sx::ok(Sx::L(l))
    })
}

thread_local! {
    static MATCH_CTX: PushConditionRoomCtx = Cx {
        room: "!r:x.y".into(), members: 2, user: "@me:x.y".into(), dn: "me".into(), pl: None,
    }.real().unwrap();
}

/// `pattern` against `value` through the public API: an `event_match` condition on `content.body`
/// (word matching) or on `content.x` (whole-value matching).
fn run_match(word: bool, pat: &str, val: &str) -> Sx {
    let field = if word { "body" } else { "x" };
    let ev = obj(vec![("content", obj(vec![(field, js(val))]))]);
    let raw = ev.raw();
    let cd = PushCondition::EventMatch { key: format!("content.{field}"), pattern: pat.to_owned() };
    guarded(move || {
        let f = FlattenedJson::from_raw(&raw);
        MATCH_CTX.with(|cx| Sx::ok(Sx::b(cd.applies(&f, cx))))
    })
}

fn match_case(word: bool, pat: &str, val: &str) -> Sx {
    let lp = pat.to_lowercase();
    let fits = !word || regex_fits(&lp);
    Sx::L(vec![Sx::N(2), Sx::b(word), Sx::s(pat), Sx::s(val), Sx::s(&lp), Sx::s(&val.to_lowercase()), Sx::b(fits)])
}

fn emit_match(em: &mut Emitter, tag: &str, word: bool, pat: &str, val: &str) {
    em.emit(tag, match_case(word, pat, val), run_match(word, pat, val));
}

fn rules_case(op: i128, rs: &RS, ev: &J, cx: &Cx) -> Sx {
    let pats = rs.patterns(&cx.dn);
    Sx::L(vec![Sx::N(op), rs.sx(), ev.sx(), cx.sx(), aux(ev, &pats, &[&cx.room, &cx.dn])])
}

fn emit_rules(em: &mut Emitter, tag: &str, rs: &RS, ev: &J, cx: &Cx) {
    let (Some(real), Some(rcx)) = (rs.real(), cx.real()) else {
        panic!("generator produced an invalid ruleset or context: {rs:?} {cx:?}");
    };
    em.emit(tag, rules_case(0, rs, ev, cx), run_get_match(&real, ev, &rcx));
    em.emit(tag, rules_case(1, rs, ev, cx), run_get_actions(&real, ev, &rcx));
}

fn cond_case(cd: &Cd, ev: &J, cx: &Cx) -> Sx {
    let mut pats = vec![];
    cd.patterns(&cx.dn, &mut pats);
    Sx::L(vec![Sx::N(4), cd.sx(), ev.sx(), cx.sx(), aux(ev, &pats, &[&cx.room, &cx.dn])])
}

fn emit_cond(em: &mut Emitter, tag: &str, cd: &Cd, ev: &J, cx: &Cx) {
    let rcx = cx.real().expect("generated context is valid");
    em.emit(tag, cond_case(cd, ev, cx), run_cond(&cd.real(), ev, &rcx));
}

fn emit_flatten(em: &mut Emitter, tag: &str, ev: &J, paths: &[String]) {
    let case = Sx::L(vec![Sx::N(3), ev.sx(), Sx::L(paths.iter().map(|p| Sx::s(p)).collect())]);
    em.emit(tag, case, run_flatten(ev, paths));
}

pub fn replay(case: &Sx) -> Option<Sx> {
    let l = case.as_list()?;
    match l.first()?.as_int()? {
        op @ (0 | 1) => {
            let rs = RS::from_sx(l.get(1)?)?.real()?;
            let ev = J::from_sx(l.get(2)?)?;
            let cx = Cx::from_sx(l.get(3)?)?.real()?;
            Some(if op == 0 { run_get_match(&rs, &ev, &cx) } else { run_get_actions(&rs, &ev, &cx) })
        }
        2 => Some(run_match(l.get(1)?.as_int()? != 0, &l.get(2)?.as_string()?, &l.get(3)?.as_string()?)),
        3 => {
            let ev = J::from_sx(l.get(1)?)?;
            let paths = l.get(2)?.as_list()?.iter().map(Sx::as_string).collect::<Option<Vec<_>>>()?;
            Some(run_flatten(&ev, &paths))
        }
        4 => {
            let cd = Cd::from_sx(l.get(1)?)?;
            let ev = J::from_sx(l.get(2)?)?;
            let cx = Cx::from_sx(l.get(3)?)?.real()?;
            Some(run_cond(&cd.real(), &ev, &cx))
        }
        _ => None,
    }
}

#[allow(deprecated)]
pub fn dump(dir: &str) {
    let s = format!(
        "roomnotif = {}\ncontains_display_name = {}\ncontains_user_name = {}\n",
        PredefinedOverrideRuleId::RoomNotif.as_ref(),
        PredefinedOverrideRuleId::ContainsDisplayName.as_ref(),
        PredefinedContentRuleId::ContainsUserName.as_ref(),
    );
    std::fs::write(format!("{dir}/push_legacy_ids.txt"), s).unwrap();
}

// ---------------------------------------------------------------------------------------------
// Generators
// ---------------------------------------------------------------------------------------------
/// All strings over `alphabet` of length <= `max`, shortest first.
fn all_strings(alphabet: &[char], max: usize) -> Vec<String> {
    let mut out = vec![String::new()];
    let mut level = vec![String::new()];
    for _ in 0..max {
        let mut next = Vec::with_capacity(level.len() * alphabet.len());
        for s in &level {
            for c in alphabet {
                let mut t = s.clone();
                t.push(*c);
                next.push(t);
            }
        }
        out.extend(next.iter().cloned());
        level = next;
    }
    out
}

const PAT_ALPHA: &[char] = &['a', 'b', '_', ' ', '-', '*', '?', '\n', '\u{e9}'];
const TXT_ALPHA: &[char] = &['a', 'b', '_', ' ', '-', '\n', '\u{e9}'];

fn systematic_matches(tier: &str, em: &mut Emitter) {
    let thorough = tier == "thorough";
    // word-boundary matching
    let pats = all_strings(PAT_ALPHA, if thorough { 3 } else { 2 });
    let txts = all_strings(TXT_ALPHA, if thorough { 4 } else { 3 });
    for p in &pats {
        for t in &txts {
            emit_match(em, "systematic-word", true, p, t);
        }
    }
    // whole-value matching
    let txts_w = all_strings(TXT_ALPHA, 3);
    for p in &pats {
        for t in &txts_w {
            emit_match(em, "systematic-whole", false, p, t);
        }
    }
    // longer patterns over a smaller alphabet; texts may hold the wildcard characters themselves
    let pats4 = all_strings(&['a', ' ', '*', '?'], if thorough { 4 } else { 3 });
    let txts4 = all_strings(&['a', ' ', '\n', '\u{e9}', '?', '*'], if thorough { 4 } else { 3 });
    for p in pats4.iter().filter(|p| p.chars().count() >= 3) {
        for t in &txts4 {
            emit_match(em, "systematic-word-long", true, p, t);
            if thorough || t.len() <= 3 {
                emit_match(em, "systematic-whole-long", false, p, t);
            }
        }
    }
}

const RND_CHARS: &[char] = &[
    'a', 'b', 'c', 'A', 'B', '_', '0', '9', ' ', ' ', '-', '.', '!', '@', '\n', '\t', '\u{e9}', '\u{c9}', '\u{130}', '\u{3a3}',
    '\u{df}', '\u{1F600}', '\u{26a1}', '\u{fe0f}', '\u{e04}', '\u{915}', '\u{800}', '\u{7ff}', '\u{fff}', '\u{1000}', '\u{d7ff}', '\u{e000}', '\u{ffff}', '\u{10000}', '\\', '[', ']', '(', ')', '+', '^', '$', '|', '{', '}', '#', '&', '~',
];

fn rnd_string(r: &mut Rng, max: usize, wild: bool) -> String {
    let n = r.below(max + 1);
    (0..n)
        .map(|_| {
            if wild && r.chance(1, 4) {
                *r.pick(&['*', '?'])
            } else if r.chance(1, 2) {
                *r.pick(&['a', 'b', ' ', '_'])
            } else {
                *r.pick(RND_CHARS)
            }
        })
        .collect()
}

/// A text made from the pattern: wildcards instantiated, optionally embedded in a context.
fn instance_of(r: &mut Rng, pat: &str) -> String {
    let mut s = String::new();
    s.push_str(*r.pick(&["", "", " ", "a", "\u{e9}", "\n", "-", "a ", "b_", "x\u{e9} ", "\u{e04}\u{e38}\u{e13}", "\u{928}\u{92e}", "\u{800}", "\u{fff}", "\u{7ff}", "\u{1000}", "\u{10000}"]));
    for c in pat.chars() {
        match c {
            '*' => s.push_str(&rnd_string(r, 3, false)),
            '?' => s.push(*r.pick(RND_CHARS)),
            c => {
                // sometimes change the case, rarely the character
                if r.chance(1, 6) {
                    s.extend(c.to_uppercase());
                } else if r.chance(1, 40) {
                    s.push('z');
                } else {
                    s.push(c);
                }
            }
        }
    }
    s.push_str(*r.pick(&["", "", " ", "a", "\u{e9}", "\n", "-", " a", "_b", " \u{e9}x", "\u{e04}\u{e38}\u{e13}", "\u{928}\u{92e}", "\u{800}", "\u{fff}", "\u{7ff}", "\u{1000}", "\u{10000}"]));
    s
}

fn random_matches(tier: &str, r: &mut Rng, em: &mut Emitter) {
    let n = if tier == "thorough" { 150_000 } else { 6_000 };
    for _ in 0..n {
        let pat = rnd_string(r, 10, true);
        let val = match r.below(4) {
            0 => rnd_string(r, 20, true),
            1 => {
                // two partial occurrences then a full one: exercises the restart of the scanner
                let a = instance_of(r, &pat);
                let b = instance_of(r, &pat);
                format!("{a}{}{b}", r.pick(&["", " ", "x", "-", "\n"]))
            }
            _ => instance_of(r, &pat),
        };
        let word = r.chance(2, 3);
        emit_match(em, "random-match", word, &pat, &val);
    }
}

const KEYS: &[&str] = &[
    "", "a", "b", ".", "\\", "a.b", "a\\b", "a\\.b", "content", "body", "m.mentions", "sender", "room_id", "x.", ".x", "\u{e9}",
    "type", "user_ids", "room", "\\\\", "..",
];
const STRS: &[&str] = &[
    "", "a", "b", "a b", "@me:x.y", "@other:x.y", "@room", "Me", "hello me!", "m.text", "m.room.message", "!r:x.y", "\u{c9}A",
    "x\ny", "true", "1",
];
const NUMS: &[&str] = &[
    "0", "1", "-1", "50", "100", "9007199254740991", "9007199254740992", "-9007199254740991", "-9007199254740992",
    "9223372036854775807", "9223372036854775808", "-9223372036854775808", "18446744073709551615", "18446744073709551616", "1.5",
    "1.0", "1e2", "-0", "0.0", "1E-400",
];
const BAD_NUMS: &[&str] = &["1e999", "-1e999", "1E400", "123456789e999"];

fn gen_value(r: &mut Rng, depth: usize) -> J {
    let k = if depth == 0 { r.below(5) } else { r.below(8) };
    match k {
        0 => J::Null,
        1 => J::Bool(r.chance(1, 2)),
        2 => J::Num(if r.chance(2, 3) { (*r.pick(NUMS)).to_owned() } else { (r.below(200) as i64 - 100).to_string() }),
        3 | 4 => J::Str((*r.pick(STRS)).to_owned()),
        5 => J::Arr((0..r.below(4)).map(|_| gen_value(r, depth - 1)).collect()),
        _ => gen_object(r, depth - 1),
    }
}

fn gen_object(r: &mut Rng, depth: usize) -> J {
    let n = r.below(4);
    let mut o = BTreeMap::new();
    for _ in 0..n {
        o.insert((*r.pick(KEYS)).to_owned(), gen_value(r, depth));
    }
    J::Obj(o)
}

fn escape_seg(k: &str) -> String {
    k.replace('\\', "\\\\").replace('.', "\\.")
}

/// Paths to probe: every node's escaped path, the same joined without escaping, and variations.
fn probe_paths(r: &mut Rng, ev: &J) -> Vec<String> {
    fn walk(v: &J, esc: &mut Vec<String>, raw: &mut Vec<String>, out: &mut Vec<String>) {
        if !esc.is_empty() {
            out.push(esc.join("."));
            out.push(raw.join("."));
        }
        if let J::Obj(o) = v {
            for (k, x) in o {
                esc.push(escape_seg(k));
                raw.push(k.clone());
                walk(x, esc, raw, out);
                esc.pop();
                raw.pop();
            }
        }
    }
    let mut out = vec![String::new(), ".".to_owned(), "content.m\\.mentions".to_owned(), "a\\".to_owned(), "\\a".to_owned()];
    walk(ev, &mut vec![], &mut vec![], &mut out);
    let n = out.len();
    for _ in 0..4 {
        let mut p = out[r.below(n)].clone();
        match r.below(4) {
            0 => p.push('.'),
            1 => p.insert(0, '.'),
            2 => p.push_str(".a"),
            _ => p = p.replace("\\.", "."),
        }
        out.push(p);
    }
    out.sort();
    out.dedup();
    out
}

fn flatten_stream(tier: &str, r: &mut Rng, em: &mut Emitter) {
    // fixed shapes first
    let fixed: Vec<J> = vec![
        J::Obj(BTreeMap::new()),
        obj(vec![("", obj(vec![("b", js("one"))])), ("b", js("two"))]),
        obj(vec![("", obj(vec![("", js("x"))]))]),
        obj(vec![("a", obj(vec![("", js("x"))]))]),
        obj(vec![("a.b", js("dot")), ("a", obj(vec![("b", js("nested"))])), ("a\\", obj(vec![("b", js("bs"))]))]),
        obj(vec![("content", obj(vec![("m.mentions", obj(vec![]))]))]),
        obj(vec![("content", obj(vec![("m.mentions", obj(vec![("user_ids", J::Arr(vec![js("@me:x.y")]))]))]))]),
        obj(vec![("content", obj(vec![("m.mentionsx", J::Bool(true)), ("m", obj(vec![("mentions", J::Bool(true))]))]))]),
        obj(vec![("content.m", obj(vec![("mentions", J::Bool(true))]))]),
        obj(vec![("n", J::Arr(vec![J::Num("1".into()), J::Num("1.5".into()), js("s"), J::Arr(vec![]), obj(vec![]), J::Null]))]),
    ];
    for ev in &fixed {
        let paths = probe_paths(r, ev);
        emit_flatten(em, "flatten-fixed", ev, &paths);
    }
    let n = if tier == "thorough" { 60_000 } else { 3_000 };
    for _ in 0..n {
        let mut ev = gen_object(r, 3);
        if r.chance(1, 4) {
            if let J::Obj(o) = &mut ev {
                let mut c = BTreeMap::new();
                c.insert("body".to_owned(), js("hi"));
                if r.chance(1, 2) {
                    c.insert("m.mentions".to_owned(), gen_value(r, 2));
                }
                o.insert("content".to_owned(), J::Obj(c));
            }
        }
        let paths = probe_paths(r, &ev);
        emit_flatten(em, "flatten-random", &ev, &paths);
    }
}

const USERS: &[&str] = &["@me:x.y", "@other:x.y", "@Admin:x.y", "@bot:z.w"];
const ROOMS: &[&str] = &["!r:x.y", "!R:x.y", "!other:x.y", "!a*:x.y"];
const BODIES: &[&str] = &[
    "hello", "hello me", "Hello Me!", "@room look", "me", "meme", "me-too", "some\u{e9}me", "a\nme\nb", "\u{e04}\u{e38}\u{e13}me", "me\u{928}\u{92e}", "\u{800}me\u{fff}", "\u{7ff}me\u{1000}", "@other:x.y: ping", "other",
    "", "x", "MY NAME", "my name", "my  name", "surname",
];

fn gen_ctx(r: &mut Rng) -> Cx {
    let pl = if r.chance(4, 5) {
        let mut us: Vec<(String, i64)> = vec![];
        for u in USERS {
            if r.chance(1, 3) {
                us.push(((*u).to_owned(), *r.pick(&[0i64, 25, 50, 51, 100, -1])));
            }
        }
        us.sort();
        Some((us, *r.pick(&[0i64, 0, 50, 100]), *r.pick(&[50i64, 50, 0, 51, 100])))
    } else {
        None
    };
    Cx {
        room: (*r.pick(ROOMS)).to_owned(),
        members: *r.pick(&[0u64, 1, 2, 2, 3, 10, 9007199254740991]),
        user: "@me:x.y".to_owned(),
        dn: (*r.pick(&["me", "Me", "My Name", "", "m?", "*", "\u{c9}ve", "na me"])).to_owned(),
        pl,
    }
}

fn gen_event(r: &mut Rng) -> J {
    if r.chance(1, 8) {
        return gen_object(r, 3);
    }
    let mut content = BTreeMap::new();
    let ty = *r.pick(&[
        "m.room.message", "m.room.message", "m.room.message", "m.room.member", "m.reaction", "m.room.tombstone",
        "m.room.encrypted", "m.call.invite", "m.room.server_acl", "org.example",
    ]);
    if r.chance(5, 6) {
        content.insert("body".to_owned(), js(*r.pick(BODIES)));
    }
    if r.chance(1, 2) {
        content.insert("msgtype".to_owned(), js(*r.pick(&["m.text", "m.notice", "M.NOTICE"])));
    }
    if ty == "m.room.member" {
        content.insert("membership".to_owned(), js(*r.pick(&["invite", "join", "Invite"])));
    }
    match r.below(8) {
        0 => {
            content.insert("m.mentions".to_owned(), obj(vec![]));
        }
        1 => {
            content.insert("m.mentions".to_owned(), obj(vec![("user_ids", J::Arr(vec![js(*r.pick(USERS))]))]));
        }
        2 => {
            content.insert("m.mentions".to_owned(), obj(vec![("room", J::Bool(r.chance(2, 3)))]));
        }
        3 if r.chance(1, 3) => {
            content.insert("m.mentions".to_owned(), gen_value(r, 1));
        }
        _ => {}
    }
    if r.chance(1, 10) {
        content.insert("m.relates_to".to_owned(), obj(vec![("rel_type", js("m.replace"))]));
    }
    let mut ev = BTreeMap::new();
    ev.insert("type".to_owned(), js(ty));
    ev.insert("content".to_owned(), J::Obj(content));
    match r.below(12) {
        0 => {}
        1 => {
            ev.insert("sender".to_owned(), gen_value(r, 0));
        }
        2 => {
            ev.insert("sender".to_owned(), js(*r.pick(&["me", "@me", "@:x.y", "@a b:x.y", "@me:"])));
        }
        _ => {
            ev.insert("sender".to_owned(), js(*r.pick(USERS)));
        }
    }
    if r.chance(1, 2) {
        ev.insert("room_id".to_owned(), js(*r.pick(ROOMS)));
    }
    if r.chance(1, 3) {
        ev.insert("state_key".to_owned(), js(*r.pick(&["", "@me:x.y", "@other:x.y"])));
    }
    if r.chance(1, 6) {
        ev.insert((*r.pick(KEYS)).to_owned(), gen_value(r, 2));
    }
    J::Obj(ev)
}

fn gen_scalar(r: &mut Rng) -> Sc {
    match r.below(5) {
        0 => Sc::Null,
        1 => Sc::Bool(r.chance(1, 2)),
        2 => Sc::Int(*r.pick(&[0i64, 1, -1, 50, 9007199254740991, -9007199254740991, 13])),
        _ => Sc::Str((*r.pick(STRS)).to_owned()),
    }
}

const COND_KEYS: &[&str] = &[
    "content.body", "content.body", "content.msgtype", "type", "sender", "room_id", "state_key", "content.membership",
    "content.m\\.mentions.user_ids", "content.m\\.mentions.room", "content.m\\.relates_to.rel_type", "content", "", "a", "a\\.b", "a.b",
    "a\\", "content.m.mentions",
];
const PATTERNS: &[&str] = &[
    "me", "m?", "M*", "*", "", "hello*", "@room", "m.text", "m.notice", "m.room.*", "@me:x.y", "@*:x.y", "!r:x.y", "!?:x.y", "invite",
    "my name", "my*name", "?", "??", "*me*", "h?llo m?", "name", "\u{e9}*", "a\nme",
];

fn gen_cond(r: &mut Rng) -> Cd {
    match r.below(12) {
        0..=4 => Cd::Match((*r.pick(COND_KEYS)).to_owned(), (*r.pick(PATTERNS)).to_owned()),
        5 => Cd::Dn,
        6 | 7 => Cd::Count(r.below(5) as u8, *r.pick(&[0u64, 1, 2, 3, 10, 9007199254740991])),
        8 => Cd::Perm((*r.pick(&["room", "room", "Room", "", "rooms"])).to_owned()),
        9 => Cd::Is((*r.pick(COND_KEYS)).to_owned(), gen_scalar(r)),
        10 => Cd::Contains((*r.pick(COND_KEYS)).to_owned(), gen_scalar(r)),
        _ => Cd::Custom,
    }
}

#[allow(deprecated)]
fn gen_ruleset(r: &mut Rng) -> RS {
    const CIDS: &[&str] = &[
        "a", "b", "c", ".m.rule.master", ".m.rule.roomnotif", ".m.rule.contains_display_name", ".m.rule.contains_user_name", "x.y",
    ];
    let mut rs = if r.chance(1, 3) {
        let mut d = RS::of_real(&Ruleset::server_default(<&UserId>::try_from("@me:x.y").unwrap()));
        for rule in d.o.iter_mut().chain(d.u.iter_mut()) {
            if r.chance(1, 6) {
                rule.en = !rule.en;
            }
        }
        if r.chance(1, 4) {
            d.c[0].en = !d.c[0].en;
        }
        d
    } else {
        RS::default()
    };
    let dense = r.chance(1, 2);
    let count = |r: &mut Rng| if dense { r.below(4) } else { r.below(2) };
    let crule = |r: &mut Rng, underride: bool| {
        let mut id = (*r.pick(CIDS)).to_owned();
        // the deprecated override ids are outside the theorem's domain for underride rules; keep
        // them rare there
        if underride && id.starts_with(".m.rule.") && !r.chance(1, 20) {
            id = "u".to_owned();
        }
        CR {
            id,
            en: r.chance(4, 5),
            conds: (0..*r.pick(&[0usize, 1, 1, 1, 2, 3])).map(|_| gen_cond(r)).collect(),
            act: r.below(4),
        }
    };
    for _ in 0..count(r) {
        let rule = crule(r, false);
        if !rs.o.iter().any(|x| x.id == rule.id) {
            let at = r.below(rs.o.len() + 1);
            rs.o.insert(at, rule);
        }
    }
    for _ in 0..count(r) {
        let rule = PR {
            id: (*r.pick(CIDS)).to_owned(),
            en: r.chance(4, 5),
            pat: (*r.pick(PATTERNS)).to_owned(),
            act: r.below(4),
        };
        if !rs.c.iter().any(|x| x.id == rule.id) {
            let at = r.below(rs.c.len() + 1);
            rs.c.insert(at, rule);
        }
    }
    for _ in 0..count(r) {
        let rule = SR { id: (*r.pick(&["!r:x.y", "!R:x.y", "!other:x.y", "!*", "!?:x.y"])).to_owned(), en: r.chance(4, 5), act: r.below(4) };
        if !rs.r.iter().any(|x| x.id == rule.id) {
            rs.r.push(rule);
        }
    }
    for _ in 0..count(r) {
        let rule = SR { id: (*r.pick(&["@other:x.y", "@OTHER:x.y", "@me:x.y", "@bot:z.w", "@*:x.y"])).to_owned(), en: r.chance(4, 5), act: r.below(4) };
        if !rs.s.iter().any(|x| x.id == rule.id) {
            rs.s.push(rule);
        }
    }
    for _ in 0..count(r) {
        let rule = crule(r, true);
        if !rs.u.iter().any(|x| x.id == rule.id) {
            let at = r.below(rs.u.len() + 1);
            rs.u.insert(at, rule);
        }
    }
    rs
}

fn rules_stream(tier: &str, r: &mut Rng, em: &mut Emitter) {
    let n = if tier == "thorough" { 60_000 } else { 4_000 };
    // kind priority, systematically: one always-matching rule per kind, every subset enabled
    let cx = Cx { room: "!r:x.y".into(), members: 2, user: "@me:x.y".into(), dn: "me".into(), pl: None };
    let ev = obj(vec![
        ("type", js("m.room.message")),
        ("sender", js("@other:x.y")),
        ("content", obj(vec![("body", js("hello me"))])),
    ]);
    let own = obj(vec![("type", js("m.room.message")), ("sender", js("@me:x.y")), ("content", obj(vec![("body", js("hello me"))]))]);
    for mask in 0..32u32 {
        let rs = RS {
            o: vec![CR { id: "o".into(), en: mask & 1 != 0, conds: vec![], act: 1 }],
            c: vec![PR { id: "c".into(), en: mask & 2 != 0, pat: "me".into(), act: 2 }],
            r: vec![SR { id: "!r:x.y".into(), en: mask & 4 != 0, act: 3 }],
            s: vec![SR { id: "@other:x.y".into(), en: mask & 8 != 0, act: 4 }],
            u: vec![CR { id: "u".into(), en: mask & 16 != 0, conds: vec![Cd::Count(0, 2)], act: 5 }],
        };
        emit_rules(em, "systematic-kinds", &rs, &ev, &cx);
        emit_rules(em, "systematic-kinds", &rs, &own, &cx);
    }
    for _ in 0..n {
        let rs = gen_ruleset(r);
        let cx = gen_ctx(r);
        let ev = gen_event(r);
        emit_rules(em, "random-rules", &rs, &ev, &cx);
    }
    for _ in 0..n {
        let cd = gen_cond(r);
        let cx = gen_ctx(r);
        let ev = gen_event(r);
        emit_cond(em, "random-cond", &cd, &ev, &cx);
    }
}

fn malformed_stream(tier: &str, r: &mut Rng, em: &mut Emitter) {
    // events holding a number serde_json cannot represent
    let n = if tier == "thorough" { 3_000 } else { 300 };
    for i in 0..n {
        let mut ev = gen_event(r);
        if let J::Obj(o) = &mut ev {
            let bad = J::Num((*r.pick(BAD_NUMS)).to_owned());
            match i % 3 {
                0 => {
                    o.insert("n".to_owned(), bad);
                }
                1 => {
                    o.insert("n".to_owned(), J::Arr(vec![J::Null, bad]));
                }
                _ => {
                    o.insert("unsigned".to_owned(), obj(vec![("age", bad)]));
                }
            }
        }
        let rs = gen_ruleset(r);
        let cx = gen_ctx(r);
        emit_rules(em, "malformed-number", &rs, &ev, &cx);
        if i % 10 == 0 {
            let paths = probe_paths(r, &ev);
            emit_flatten(em, "malformed-number", &ev, &paths);
        }
    }
    // a pattern whose regex exceeds the regex crate's size limit
    let huge = "?".repeat(HUGE_QM + 10_000);
    emit_match(em, "malformed-huge-pattern", true, &huge, "x");
    let rs = RS { c: vec![PR { id: "big".into(), en: true, pat: huge.clone(), act: 1 }], ..RS::default() };
    let cx = Cx { room: "!r:x.y".into(), members: 2, user: "@me:x.y".into(), dn: "me".into(), pl: None };
    let ev = obj(vec![("sender", js("@other:x.y")), ("content", obj(vec![("body", js("x"))]))]);
    emit_rules(em, "malformed-huge-pattern", &rs, &ev, &cx);
    // non-object events
    for ev in [js("str"), J::Null, J::Arr(vec![js("a")]), J::Num("1".into())] {
        emit_flatten(em, "malformed-root", &ev, &[String::new(), "a".to_owned()]);
    }
}

pub fn run(tier: &str, seed: u64, em: &mut Emitter) {
    let mut r = Rng::new(seed ^ 0xC12);
    systematic_matches(tier, em);
    random_matches(tier, &mut r, em);
    flatten_stream(tier, &mut r, em);
    rules_stream(tier, &mut r, em);
    malformed_stream(tier, &mut r, em);
}
