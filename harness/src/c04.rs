//! C04 — redaction: cases and implementation outcomes.
//!
//! case = ( version op type_or_empty object because? )
//!   op 0: redact (copy)  1: redact_in_place  2: redact with redacted_because
//!   op 3: redact_content_in_place(object as content, type)
use ruma_common::{
    canonical_json::{redact, redact_content_in_place, redact_in_place, RedactedBecause, RedactionError},
    CanonicalJsonObject, CanonicalJsonValue, RoomVersionId,
};

use crate::{
    jgen::{gen_json, gen_obj, gen_str},
    rng::Rng,
    sx::{guarded, obj_to_sx, Sx},
    Emitter,
};

pub const TYPES: &[&str] = &[
    "m.room.member",
    "m.room.create",
    "m.room.join_rules",
    "m.room.power_levels",
    "m.room.history_visibility",
    "m.room.redaction",
    "m.room.aliases",
    "m.room.server_acl",
    "m.room.message",
    "m.room.membe",
    "m.room.member2",
    "",
    // near-misses of the specially redacted types: the bare suffix, case, blanks, other prefixes (seed4 C04-1)
    "member", "create", "join_rules", "power_levels", "history_visibility", "redaction", "aliases",
    "room.member", "M.ROOM.MEMBER", "m.room.", "m.room", " m.room.member", "m.room.member ", "x.m.room.member",
    "m.room.member.", "m.room.create.x",
];

const TOP_KEYS: &[&str] = &[
    "event_id", "type", "room_id", "sender", "state_key", "content", "hashes", "signatures", "depth", "prev_events",
    "auth_events", "origin_server_ts", "origin", "membership", "prev_state", "unsigned", "age_ts", "redacts", "foo",
    "Type", "content ",
];

const CONTENT_KEYS: &[&str] = &[
    "membership", "join_authorised_via_users_server", "third_party_invite", "creator", "join_rule", "allow", "ban",
    "events", "events_default", "kick", "redact", "state_default", "users", "users_default", "invite",
    "history_visibility", "redacts", "aliases", "deny", "allow_ip_literals", "room_version", "m.federate", "body",
    "notifications", "displayname", "Membership",
];

/// An event of the given type carrying every top-level and content key any version speaks about.
pub fn full_event(ty: &str) -> CanonicalJsonObject {
    let mut all = CanonicalJsonObject::new();
    for k in CONTENT_KEYS {
        let val = if *k == "third_party_invite" {
            let mut o = CanonicalJsonObject::new();
            o.insert("signed".into(), CanonicalJsonValue::Bool(true));
            o.insert("display_name".into(), CanonicalJsonValue::Null);
            CanonicalJsonValue::Object(o)
        } else {
            CanonicalJsonValue::String((*k).to_owned())
        };
        all.insert((*k).to_owned(), val);
    }
    let mut ev = CanonicalJsonObject::new();
    for k in TOP_KEYS {
        ev.insert((*k).to_owned(), CanonicalJsonValue::String((*k).to_owned()));
    }
    ev.insert("type".into(), CanonicalJsonValue::String(ty.to_owned()));
    ev.insert("content".into(), CanonicalJsonValue::Object(all));
    ev
}

fn err_code(e: &RedactionError) -> i128 {
    match e {
        RedactionError::NotOfType { field, .. } => match field.as_str() {
            "type" => 2,
            "content" => 3,
            "third_party_invite" => 4,
            _ => 9,
        },
        RedactionError::JsonFieldMissingFromObject(_) => 1,
        _ => 9,
    }
}

fn res(r: Result<CanonicalJsonObject, RedactionError>) -> Sx {
    match r {
        Ok(o) => Sx::ok(obj_to_sx(&o)),
        Err(e) => Sx::err(err_code(&e)),
    }
}

fn gen_tpi(r: &mut Rng) -> CanonicalJsonValue {
    let mut o = CanonicalJsonObject::new();
    match r.below(7) {
        0 => {}
        1 => {
            o.insert("signed".into(), gen_json(r, 2));
        }
        2 => {
            o.insert("signed".into(), gen_json(r, 1));
            o.insert("display_name".into(), gen_json(r, 0));
        }
        3 => {
            o.insert("display_name".into(), gen_json(r, 0));
        }
        4 => {
            o.insert("signed ".into(), gen_json(r, 0));
            o.insert("Signed".into(), gen_json(r, 0));
        }
        5 => return gen_json(r, 1),
        _ => return CanonicalJsonValue::String("signed".into()),
    }
    CanonicalJsonValue::Object(o)
}

fn gen_content(r: &mut Rng, dense: bool) -> CanonicalJsonObject {
    let mut c = CanonicalJsonObject::new();
    for k in CONTENT_KEYS {
        let p = if dense { 2 } else { 5 };
        if r.below(p) == 0 {
            let v = if *k == "third_party_invite" { gen_tpi(r) } else { gen_json(r, 2) };
            c.insert((*k).to_owned(), v);
        }
    }
    if r.chance(1, 3) {
        c.insert(gen_str(r), gen_json(r, 1));
    }
    c
}

pub fn gen_event(r: &mut Rng) -> CanonicalJsonObject {
    let mut ev = CanonicalJsonObject::new();
    let dense = r.chance(1, 2);
    for k in TOP_KEYS {
        if *k == "type" || *k == "content" {
            continue;
        }
        if r.below(if dense { 2 } else { 4 }) == 0 {
            ev.insert((*k).to_owned(), gen_json(r, 2));
        }
    }
    // type: mostly a known string; sometimes missing or ill-typed
    match r.below(20) {
        0 => {}
        1 => {
            ev.insert("type".into(), gen_json(r, 1));
        }
        _ => {
            ev.insert("type".into(), CanonicalJsonValue::String((*r.pick(TYPES)).to_owned()));
        }
    }
    match r.below(16) {
        0 => {}
        1 => {
            ev.insert("content".into(), gen_json(r, 1));
        }
        _ => {
            ev.insert("content".into(), CanonicalJsonValue::Object(gen_content(r, dense)));
        }
    }
    if r.chance(1, 4) {
        ev.insert(gen_str(r), gen_json(r, 1));
    }
    ev
}

pub fn run_case(version: u32, op: u32, ty: &str, obj: &CanonicalJsonObject, because: Option<&CanonicalJsonObject>) -> Sx {
    let rules = RoomVersionId::try_from(version.to_string().as_str()).unwrap().rules().unwrap().redaction;
    let obj = obj.clone();
    let because = because.cloned();
    let ty = ty.to_owned();
    guarded(move || match op {
        0 => res(redact(obj, &rules, None)),
        1 => {
            let mut o = obj;
            res(redact_in_place(&mut o, &rules, None).map(|()| o))
        }
        2 => res(redact(obj, &rules, because.map(RedactedBecause::from_json))),
        _ => {
            let mut o = obj;
            res(redact_content_in_place(&mut o, &rules, &ty).map(|()| o))
        }
    })
}

pub fn dump(_dir: &str) {}

pub fn replay(case: &Sx) -> Option<Sx> {
    let l = case.as_list()?;
    let (v, op, ty, obj, b) = (l.first()?.as_int()?, l.get(1)?.as_int()?, l.get(2)?.as_string()?, l.get(3)?, l.get(4)?);
    let obj = crate::sx::sx_to_obj(obj)?;
    let because = match b.as_opt()? {
        None => None,
        Some(x) => Some(crate::sx::sx_to_obj(x)?),
    };
    Some(run_case(v as u32, op as u32, &ty, &obj, because.as_ref()))
}

fn case_sx(version: u32, op: u32, ty: &str, obj: &CanonicalJsonObject, because: Option<&CanonicalJsonObject>) -> Sx {
    Sx::L(vec![
        Sx::n(version),
        Sx::n(op),
        Sx::s(ty),
        obj_to_sx(obj),
        Sx::opt(because.map(obj_to_sx)),
    ])
}

pub fn run(tier: &str, seed: u64, em: &mut Emitter) {
    let mut r = Rng::new(seed ^ 0xC04);
    let n_events = if tier == "thorough" { 40_000 } else { 1_500 };
    // Systematic stream: every (version, type) with every single specified key alone and all together.
    for v in 1..=11u32 {
        for ty in TYPES {
            let mut all = CanonicalJsonObject::new();
            for k in CONTENT_KEYS {
                let val = if *k == "third_party_invite" {
                    let mut o = CanonicalJsonObject::new();
                    o.insert("signed".into(), CanonicalJsonValue::Bool(true));
                    o.insert("display_name".into(), CanonicalJsonValue::Null);
                    CanonicalJsonValue::Object(o)
                } else {
                    CanonicalJsonValue::String((*k).to_owned())
                };
                all.insert((*k).to_owned(), val);
            }
            let mut ev = CanonicalJsonObject::new();
            for k in TOP_KEYS {
                ev.insert((*k).to_owned(), CanonicalJsonValue::String((*k).to_owned()));
            }
            ev.insert("type".into(), CanonicalJsonValue::String((*ty).to_owned()));
            ev.insert("content".into(), CanonicalJsonValue::Object(all.clone()));
            for op in 0..2 {
                em.emit("systematic", case_sx(v, op, "", &ev, None), run_case(v, op, "", &ev, None));
            }
            em.emit("systematic-content", case_sx(v, 3, ty, &all, None), run_case(v, 3, ty, &all, None));
        }
    }
    // Systematic: every shape of `third_party_invite` in a member event, every version, every entry point.
    for v in 1..=11u32 {
        for shape in 0..8u32 {
            let mut tpi = CanonicalJsonObject::new();
            let val = match shape {
                0 => CanonicalJsonValue::Object(tpi),
                1 => {
                    tpi.insert("signed".into(), CanonicalJsonValue::Object(CanonicalJsonObject::new()));
                    CanonicalJsonValue::Object(tpi)
                }
                2 => {
                    tpi.insert("signed".into(), CanonicalJsonValue::Null);
                    tpi.insert("display_name".into(), CanonicalJsonValue::String("n".into()));
                    CanonicalJsonValue::Object(tpi)
                }
                3 => {
                    tpi.insert("display_name".into(), CanonicalJsonValue::String("n".into()));
                    CanonicalJsonValue::Object(tpi)
                }
                4 => {
                    tpi.insert("Signed".into(), CanonicalJsonValue::Null);
                    tpi.insert("signed ".into(), CanonicalJsonValue::Null);
                    tpi.insert("a".into(), CanonicalJsonValue::Null);
                    tpi.insert("z".into(), CanonicalJsonValue::Null);
                    CanonicalJsonValue::Object(tpi)
                }
                5 => CanonicalJsonValue::Array(vec![]),
                6 => CanonicalJsonValue::String("signed".into()),
                _ => CanonicalJsonValue::Null,
            };
            let mut content = CanonicalJsonObject::new();
            content.insert("membership".into(), CanonicalJsonValue::String("invite".into()));
            content.insert("third_party_invite".into(), val);
            let mut ev = CanonicalJsonObject::new();
            ev.insert("type".into(), CanonicalJsonValue::String("m.room.member".into()));
            ev.insert("sender".into(), CanonicalJsonValue::String("@a:b".into()));
            ev.insert("content".into(), CanonicalJsonValue::Object(content.clone()));
            for op in 0..2 {
                em.emit("systematic-tpi", case_sx(v, op, "", &ev, None), run_case(v, op, "", &ev, None));
            }
            em.emit("systematic-tpi", case_sx(v, 3, "m.room.member", &content, None), run_case(v, 3, "m.room.member", &content, None));
        }
    }
    // Random structured stream.
    for _ in 0..n_events {
        let ev = gen_event(&mut r);
        let v = 1 + r.below(11) as u32;
        let because = gen_obj(&mut r, 2);
        for op in 0..3u32 {
            let b = if op == 2 { Some(&because) } else { None };
            em.emit("random-event", case_sx(v, op, "", &ev, b), run_case(v, op, "", &ev, b));
        }
        // content-only entry point on the same content, when there is one
        if let (Some(CanonicalJsonValue::String(ty)), Some(CanonicalJsonValue::Object(c))) =
            (ev.get("type"), ev.get("content"))
        {
            em.emit("random-content", case_sx(v, 3, ty, c, None), run_case(v, 3, ty, c, None));
        }
    }
}
