//! The wire format shared with the Coq models: s-expressions of integers, byte strings, lists.
use std::fmt::Write;

use ruma_common::{CanonicalJsonObject, CanonicalJsonValue};

#[derive(Clone, Debug, PartialEq, Eq)]
pub enum Sx {
    N(i128),
    S(Vec<u8>),
    L(Vec<Sx>),
}

impl Sx {
    pub fn s(x: &str) -> Sx {
        Sx::S(x.as_bytes().to_vec())
    }
    pub fn b(x: bool) -> Sx {
        Sx::N(x as i128)
    }
    pub fn n<T: Into<i128>>(x: T) -> Sx {
        Sx::N(x.into())
    }
    pub fn opt(x: Option<Sx>) -> Sx {
        match x {
            None => Sx::L(vec![]),
            Some(v) => Sx::L(vec![v]),
        }
    }
    pub fn ok(v: Sx) -> Sx {
        Sx::L(vec![Sx::N(0), v])
    }
    pub fn err(code: i128) -> Sx {
        Sx::L(vec![Sx::N(1), Sx::N(code)])
    }
    pub fn panic() -> Sx {
        Sx::L(vec![Sx::N(2)])
    }
    pub fn write(&self, out: &mut String) {
        match self {
            Sx::N(n) => {
                let _ = write!(out, "N{n}");
            }
            Sx::S(s) => {
                out.push('S');
                for b in s {
                    let _ = write!(out, "{b:02x}");
                }
            }
            Sx::L(l) => {
                out.push('(');
                for x in l {
                    out.push(' ');
                    x.write(out);
                }
                out.push_str(" )");
            }
        }
    }
    pub fn to_line(&self) -> String {
        let mut s = String::new();
        self.write(&mut s);
        s
    }
}

pub fn json_to_sx(v: &CanonicalJsonValue) -> Sx {
    match v {
        CanonicalJsonValue::Null => Sx::L(vec![Sx::N(0)]),
        CanonicalJsonValue::Bool(b) => Sx::L(vec![Sx::N(1), Sx::b(*b)]),
        CanonicalJsonValue::Integer(i) => Sx::L(vec![Sx::N(2), Sx::N(i64::from(*i) as i128)]),
        CanonicalJsonValue::String(s) => Sx::L(vec![Sx::N(3), Sx::s(s)]),
        CanonicalJsonValue::Array(a) => {
            let mut l = vec![Sx::N(4)];
            l.extend(a.iter().map(json_to_sx));
            Sx::L(l)
        }
        CanonicalJsonValue::Object(o) => obj_to_sx(o),
    }
}

pub fn obj_to_sx(o: &CanonicalJsonObject) -> Sx {
    let mut l = vec![Sx::N(5)];
    for (k, v) in o {
        l.push(Sx::L(vec![Sx::s(k), json_to_sx(v)]));
    }
    Sx::L(l)
}

/// Run `f`, mapping a panic to `Sx::panic()`.
pub fn guarded<F: FnOnce() -> Sx + std::panic::UnwindSafe>(f: F) -> Sx {
    match std::panic::catch_unwind(f) {
        Ok(v) => v,
        Err(_) => Sx::panic(),
    }
}

// ---------------------------------------------------------------------------------------------
// Parsing (corpus / replay)
// ---------------------------------------------------------------------------------------------
pub fn parse_line(s: &str) -> Option<Sx> {
    let toks: Vec<&str> = s.split_whitespace().collect();
    let mut i = 0;
    let v = parse_tok(&toks, &mut i)?;
    if i == toks.len() {
        Some(v)
    } else {
        None
    }
}

fn parse_tok(t: &[&str], i: &mut usize) -> Option<Sx> {
    let tok = *t.get(*i)?;
    *i += 1;
    if tok == "(" {
        let mut l = vec![];
        loop {
            if *t.get(*i)? == ")" {
                *i += 1;
                return Some(Sx::L(l));
            }
            l.push(parse_tok(t, i)?);
        }
    } else if let Some(n) = tok.strip_prefix('N') {
        n.parse::<i128>().ok().map(Sx::N)
    } else if let Some(h) = tok.strip_prefix('S') {
        if h.len() % 2 != 0 {
            return None;
        }
        (0..h.len() / 2).map(|k| u8::from_str_radix(&h[2 * k..2 * k + 2], 16).ok()).collect::<Option<Vec<u8>>>().map(Sx::S)
    } else {
        None
    }
}

impl Sx {
    pub fn as_list(&self) -> Option<&[Sx]> {
        match self {
            Sx::L(l) => Some(l),
            _ => None,
        }
    }
    pub fn as_int(&self) -> Option<i128> {
        match self {
            Sx::N(n) => Some(*n),
            _ => None,
        }
    }
    pub fn as_bytes(&self) -> Option<&[u8]> {
        match self {
            Sx::S(s) => Some(s),
            _ => None,
        }
    }
    pub fn as_string(&self) -> Option<String> {
        self.as_bytes().and_then(|b| String::from_utf8(b.to_vec()).ok())
    }
    pub fn as_opt(&self) -> Option<Option<&Sx>> {
        match self.as_list()? {
            [] => Some(None),
            [x] => Some(Some(x)),
            _ => None,
        }
    }
}

pub fn sx_to_json(x: &Sx) -> Option<CanonicalJsonValue> {
    let l = x.as_list()?;
    match (l.first()?.as_int()?, &l[1..]) {
        (0, []) => Some(CanonicalJsonValue::Null),
        (1, [b]) => Some(CanonicalJsonValue::Bool(b.as_int()? != 0)),
        (2, [n]) => Some(CanonicalJsonValue::Integer(js_int::Int::new(i64::try_from(n.as_int()?).ok()?)?)),
        (3, [s]) => Some(CanonicalJsonValue::String(s.as_string()?)),
        (4, items) => items.iter().map(sx_to_json).collect::<Option<Vec<_>>>().map(CanonicalJsonValue::Array),
        (5, items) => {
            let mut o = CanonicalJsonObject::new();
            for it in items {
                let kv = it.as_list()?;
                o.insert(kv.first()?.as_string()?, sx_to_json(kv.get(1)?)?);
            }
            Some(CanonicalJsonValue::Object(o))
        }
        _ => None,
    }
}

pub fn sx_to_obj(x: &Sx) -> Option<CanonicalJsonObject> {
    match sx_to_json(x)? {
        CanonicalJsonValue::Object(o) => Some(o),
        _ => None,
    }
}
