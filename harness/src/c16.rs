//! C16 — HTTP wire format: cases and implementation outcomes.
//!
//! hist = ( (Sunstable..) ((Nver Spath)..) (Ndeprecated)? (Nremoved)? )   versions = index in the
//!        declaration order of `MatrixVersion`
//! case = ( Nop ... ):
//!   1  hist nver chunk            select_path on the 1024 version subsets chunk*1024.. (bit i = version i,
//!                                 ascending) -> ( 0 S<1024 result codes> )
//!   2  hist (Nv..)                select_path on one version list -> ( 0 Spath ) | ( 1 code )
//!   3  hist (Nv..) Sbase (Sarg..) Squery   Metadata::make_endpoint_url -> ( 0 Surl ) | ( 1 code ) | ( 2 )
//!   5  ((Sk Sv)..)                serde_html_form::to_string then from_str -> ( 0 ( Sqs ((Sk Sv)..) ) )
//!   6  Squery                     serde_html_form::from_str::<Vec<(String,String)>> -> ( 0 ((Sk Sv)..) )
//!   7  Nscheme Nvariant Stoken    Metadata::authorization_header -> ( 0 (Sval)? ) | ( 1 code )
//!   8  Sorigin (Sdest)? Skey Ssig oracle   XMatrix Display, then parse -> ( 0 ( Sheader parse-outcome ) )
//!   9  Sheader ((Sval Nsn Nkey (Sbytes)?)..)   XMatrix::parse -> ( 0 ( So (Sd)? Sk Ssig ) ) | ( 1 code )
//!  10  Sheader                    http_auth::ChallengeParser -> ( 0 ( ((Sscheme ((Sk Sv)..))..) Nerr ) )
//!  11  Sendpoint Ndir ((Sval Nkind)..) hist (Nv..) Nscheme Nvariant Stoken
//!                                 request / response through the generated conversions and back
//!  12  hist                       VersionHistory::new -> ( 0 N1 ) | ( 2 )
//!  13  Sendpoint Swhich json     JSON body through the generated conversions and back (c16_bodies.rs)
use std::fmt::Debug;

use http::Method;
use ruma_common::{
    api::{
        error::IntoHttpError, AuthScheme, IncomingRequest, IncomingResponse, MatrixVersion, Metadata,
        OutgoingRequest, OutgoingResponse, SendAccessToken, VersionHistory,
    },
    serde::Base64,
    OwnedServerName, OwnedServerSigningKeyId,
};
use ruma_federation_api::authentication::{XMatrix, XMatrixParseError};

use crate::{
    rng::Rng,
    sx::{guarded, Sx},
    Emitter,
};

include!("c16_endpoints.rs");
include!("c16_synthetic.rs");
include!("c16_real.rs");

// ---------------------------------------------------------------------------------------------
// Versions and histories
// ---------------------------------------------------------------------------------------------

/// Every `MatrixVersion` the compiled enum knows a name for, in `Ord` order.
pub fn versions() -> Vec<MatrixVersion> {
    let mut v: Vec<MatrixVersion> = vec![];
    for s in ["r0.2.0", "r0.5.0"] {
        if let Ok(x) = MatrixVersion::try_from(s) {
            if !v.contains(&x) {
                v.push(x);
            }
        }
    }
    for major in 1..=3u32 {
        for minor in 0..=60u32 {
            if let Ok(x) = MatrixVersion::try_from(format!("v{major}.{minor}").as_str()) {
                if !v.contains(&x) {
                    v.push(x);
                }
            }
        }
    }
    v.sort();
    v
}

fn vidx(all: &[MatrixVersion], v: MatrixVersion) -> usize {
    all.iter().position(|x| *x == v).expect("version not enumerated")
}

#[derive(Clone, Debug, PartialEq, Eq)]
pub struct Hist {
    pub unstable: Vec<String>,
    pub stable: Vec<(usize, String)>,
    pub deprecated: Option<usize>,
    pub removed: Option<usize>,
}

impl Hist {
    fn of(all: &[MatrixVersion], h: &VersionHistory) -> Hist {
        Hist {
            unstable: h.unstable_paths().map(str::to_owned).collect(),
            stable: h.stable_paths().map(|(v, p)| (vidx(all, v), p.to_owned())).collect(),
            deprecated: h.deprecated_in().map(|v| vidx(all, v)),
            removed: h.removed_in().map(|v| vidx(all, v)),
        }
    }
    fn all_paths(&self) -> Vec<&str> {
        self.unstable.iter().map(String::as_str).chain(self.stable.iter().map(|(_, p)| p.as_str())).collect()
    }
    fn sx(&self) -> Sx {
        Sx::L(vec![
            Sx::L(self.unstable.iter().map(|p| Sx::s(p)).collect()),
            Sx::L(self.stable.iter().map(|(v, p)| Sx::L(vec![Sx::n(*v as i64), Sx::s(p)])).collect()),
            Sx::opt(self.deprecated.map(|v| Sx::n(v as i64))),
            Sx::opt(self.removed.map(|v| Sx::n(v as i64))),
        ])
    }
    fn from_sx(x: &Sx) -> Option<Hist> {
        let l = x.as_list()?;
        let unstable = l.first()?.as_list()?.iter().map(Sx::as_string).collect::<Option<Vec<_>>>()?;
        let stable = l
            .get(1)?
            .as_list()?
            .iter()
            .map(|e| {
                let e = e.as_list()?;
                Some((usize::try_from(e.first()?.as_int()?).ok()?, e.get(1)?.as_string()?))
            })
            .collect::<Option<Vec<_>>>()?;
        let o = |x: &Sx| -> Option<Option<usize>> {
            Some(match x.as_opt()? {
                None => None,
                Some(v) => Some(usize::try_from(v.as_int()?).ok()?),
            })
        };
        Some(Hist { unstable, stable, deprecated: o(l.get(2)?)?, removed: o(l.get(3)?)? })
    }
    /// `VersionHistory::new` at run time (the argument slices are leaked to get `'static`).
    /// Panics exactly when `new` does.
    fn build(&self, all: &[MatrixVersion]) -> VersionHistory {
        let leak_str = |s: &str| -> &'static str { Box::leak(s.to_owned().into_boxed_str()) };
        let unstable: Vec<&'static str> = self.unstable.iter().map(|s| leak_str(s)).collect();
        let stable: Vec<(MatrixVersion, &'static str)> = self.stable.iter().map(|(v, p)| (all[*v], leak_str(p))).collect();
        VersionHistory::new(
            Box::leak(unstable.into_boxed_slice()),
            Box::leak(stable.into_boxed_slice()),
            self.deprecated.map(|v| all[v]),
            self.removed.map(|v| all[v]),
        )
    }
    fn versions_in_range(&self, n: usize) -> bool {
        self.stable.iter().all(|(v, _)| *v < n) && self.deprecated.map_or(true, |v| v < n) && self.removed.map_or(true, |v| v < n)
    }
}

macro_rules! collect_meta {
    ($( $($seg:ident)::+ ),* $(,)?) => {
        vec![ $( (stringify!($($seg)::+).split_whitespace().collect::<String>(), <$($seg)::+ ::Request as OutgoingRequest>::METADATA) ),* ]
    };
}

#[allow(deprecated)]
pub fn endpoints() -> Vec<(String, Metadata)> {
    for_each_endpoint!(collect_meta)
}

fn meta_of(history: VersionHistory) -> Metadata {
    Metadata { method: Method::GET, rate_limited: false, authentication: AuthScheme::None, history }
}

fn into_err_code(e: &IntoHttpError) -> i128 {
    match e {
        IntoHttpError::EndpointRemoved(_) => 1,
        IntoHttpError::NoUnstablePath => 2,
        IntoHttpError::NeedsAuthentication => 3,
        IntoHttpError::Header(_) => 4,
        _ => 9,
    }
}

/// `select_path` is private; it is observed through `make_endpoint_url` with every placeholder
/// given its own text as the argument (`:name` contains nothing the encode set touches), so the
/// URL that comes back is the selected path.
fn select(meta: &Metadata, h: &Hist, vs: &[MatrixVersion]) -> Result<String, i128> {
    let first = h.all_paths().first().map(|p| p.to_string()).unwrap_or_default();
    let args: Vec<&str> = first.split('/').filter(|s| s.starts_with(':')).collect();
    let dargs: Vec<&dyn std::fmt::Display> = args.iter().map(|a| a as &dyn std::fmt::Display).collect();
    match meta.make_endpoint_url(vs, "", &dargs, "") {
        Ok(u) => Ok(u),
        Err(IntoHttpError::EndpointRemoved(v)) => {
            if Some(v) == meta.history.removed_in() {
                Err(1)
            } else {
                Err(8)
            }
        }
        Err(e) => Err(into_err_code(&e)),
    }
}

const CHUNK: usize = 1024;

fn op1(all: &[MatrixVersion], h: &Hist, chunk: usize) -> Sx {
    let h = h.clone();
    let all = all.to_vec();
    guarded(move || {
        let meta = meta_of(h.build(&all));
        let paths = h.all_paths();
        let mut out = Vec::with_capacity(CHUNK);
        for i in 0..CHUNK {
            let mask = chunk * CHUNK + i;
            let vs: Vec<MatrixVersion> = (0..all.len()).filter(|b| mask >> b & 1 == 1).map(|b| all[b]).collect();
            let code = match std::panic::catch_unwind(std::panic::AssertUnwindSafe(|| select(&meta, &h, &vs))) {
                Ok(Ok(p)) => paths.iter().position(|q| *q == p).map_or(252, |i| i.min(250) as u8),
                Ok(Err(1)) => 254,
                Ok(Err(2)) => 255,
                Ok(Err(_)) => 252,
                Err(_) => 253,
            };
            out.push(code);
        }
        Sx::ok(Sx::S(out))
    })
}

fn op2(all: &[MatrixVersion], h: &Hist, vs: &[usize]) -> Sx {
    let (h, all, vs) = (h.clone(), all.to_vec(), vs.to_vec());
    guarded(move || {
        let meta = meta_of(h.build(&all));
        let vs: Vec<MatrixVersion> = vs.iter().map(|v| all[*v]).collect();
        match select(&meta, &h, &vs) {
            Ok(p) => Sx::ok(Sx::s(&p)),
            Err(c) => Sx::err(c),
        }
    })
}

fn op3(all: &[MatrixVersion], h: &Hist, vs: &[usize], base: &str, args: &[String], query: &str) -> Sx {
    let (h, all, vs, base, args, query) = (h.clone(), all.to_vec(), vs.to_vec(), base.to_owned(), args.to_vec(), query.to_owned());
    guarded(move || {
        let meta = meta_of(h.build(&all));
        let vs: Vec<MatrixVersion> = vs.iter().map(|v| all[*v]).collect();
        let dargs: Vec<&dyn std::fmt::Display> = args.iter().map(|a| a as &dyn std::fmt::Display).collect();
        match meta.make_endpoint_url(&vs, &base, &dargs, &query) {
            Ok(u) => Sx::ok(Sx::s(&u)),
            Err(e) => Sx::err(into_err_code(&e)),
        }
    })
}

fn op12(all: &[MatrixVersion], h: &Hist) -> Sx {
    let (h, all) = (h.clone(), all.to_vec());
    guarded(move || {
        let _ = h.build(&all);
        Sx::ok(Sx::n(1))
    })
}

// ---------------------------------------------------------------------------------------------
// Query layer
// ---------------------------------------------------------------------------------------------
fn pairs_sx(p: &[(String, String)]) -> Sx {
    Sx::L(p.iter().map(|(k, v)| Sx::L(vec![Sx::s(k), Sx::s(v)])).collect())
}

fn pairs_from_sx(x: &Sx) -> Option<Vec<(String, String)>> {
    x.as_list()?
        .iter()
        .map(|e| {
            let e = e.as_list()?;
            Some((e.first()?.as_string()?, e.get(1)?.as_string()?))
        })
        .collect()
}

fn op5(pairs: &[(String, String)]) -> Sx {
    let pairs = pairs.to_vec();
    guarded(move || {
        use ruma_common::exports::serde_html_form;
        let qs = match serde_html_form::to_string(&pairs) {
            Ok(q) => q,
            Err(_) => return Sx::err(0),
        };
        match serde_html_form::from_str::<Vec<(String, String)>>(&qs) {
            Ok(back) => Sx::ok(Sx::L(vec![Sx::s(&qs), pairs_sx(&back)])),
            Err(_) => Sx::ok(Sx::L(vec![Sx::s(&qs), Sx::n(-1)])),
        }
    })
}

/// Is the lossy UTF-8 step of form_urlencoded::parse the identity on this query string?
fn query_lossless(q: &str) -> bool {
    q.split('&').all(|piece| {
        let piece = piece.replace('+', " ");
        let mut it = piece.splitn(2, '=');
        let k = it.next().unwrap_or("");
        let v = it.next().unwrap_or("");
        [k, v].iter().all(|s| String::from_utf8(percent_encoding::percent_decode_str(s).collect::<Vec<u8>>()).is_ok())
    })
}

fn op6(q: &str) -> Sx {
    let q = q.to_owned();
    guarded(move || {
        use ruma_common::exports::serde_html_form;
        match serde_html_form::from_str::<Vec<(String, String)>>(&q) {
            Ok(back) => Sx::ok(pairs_sx(&back)),
            Err(_) => Sx::err(0),
        }
    })
}

// ---------------------------------------------------------------------------------------------
// Authorization header
// ---------------------------------------------------------------------------------------------
const SCHEMES: [AuthScheme; 6] = [
    AuthScheme::None,
    AuthScheme::AccessToken,
    AuthScheme::AccessTokenOptional,
    AuthScheme::AppserviceToken,
    AuthScheme::AppserviceTokenOptional,
    AuthScheme::ServerSignatures,
];

fn scheme_idx(a: AuthScheme) -> usize {
    SCHEMES.iter().position(|s| *s == a).expect("unknown AuthScheme")
}

fn sat(variant: usize, tok: &str) -> SendAccessToken<'_> {
    match variant {
        0 => SendAccessToken::IfRequired(tok),
        1 => SendAccessToken::Always(tok),
        2 => SendAccessToken::Appservice(tok),
        _ => SendAccessToken::None,
    }
}

fn op7(scheme: usize, variant: usize, tok: &str) -> Sx {
    let tok = tok.to_owned();
    guarded(move || {
        let meta = Metadata {
            method: Method::GET,
            rate_limited: false,
            authentication: SCHEMES[scheme % 6],
            history: VersionHistory::new(&["/x"], &[], None, None),
        };
        match meta.authorization_header(sat(variant, &tok)) {
            Ok(None) => Sx::ok(Sx::L(vec![])),
            Ok(Some((name, val))) => {
                if name != http::header::AUTHORIZATION {
                    return Sx::err(8);
                }
                Sx::ok(Sx::L(vec![Sx::S(val.as_bytes().to_vec())]))
            }
            Err(e) => Sx::err(into_err_code(&e)),
        }
    })
}

// ---------------------------------------------------------------------------------------------
// X-Matrix
// ---------------------------------------------------------------------------------------------
fn xerr_code(e: &XMatrixParseError) -> i128 {
    match e {
        XMatrixParseError::ParseStr(_) => 1,
        XMatrixParseError::NotFound => 2,
        XMatrixParseError::ParseId(_) => 3,
        XMatrixParseError::ParseBase64(_) => 4,
        XMatrixParseError::MissingParameter(_) => 5,
        XMatrixParseError::DuplicateParameter(_) => 6,
        _ => 9,
    }
}

fn xm_sx(x: &XMatrix) -> Sx {
    Sx::L(vec![
        Sx::s(x.origin.as_str()),
        Sx::opt(x.destination.as_ref().map(|d| Sx::s(d.as_str()))),
        Sx::s(x.key.as_str()),
        Sx::S(x.sig.as_bytes().to_vec()),
    ])
}

fn xparse(s: &str) -> Sx {
    match XMatrix::parse(s) {
        Ok(x) => Sx::ok(xm_sx(&x)),
        Err(e) => Sx::err(xerr_code(&e)),
    }
}

fn op8(origin: &str, dest: Option<&str>, key: &str, sig: &[u8]) -> Option<(Sx, Sx)> {
    let origin: OwnedServerName = origin.try_into().ok()?;
    let dest: Option<OwnedServerName> = match dest {
        None => None,
        Some(d) => Some(d.try_into().ok()?),
    };
    let key: OwnedServerSigningKeyId = key.try_into().ok()?;
    let sig = sig.to_vec();
    let r = std::panic::catch_unwind(move || {
        let mut x = XMatrix::new(origin.clone(), origin, key, Base64::new(sig));
        x.destination = dest;
        let s = x.to_string();
        (Sx::ok(Sx::L(vec![Sx::s(&s), xparse(&s)])), xm_oracle(&s))
    });
    Some(r.unwrap_or_else(|_| (Sx::panic(), Sx::L(vec![]))))
}

/// What the real validators say about the parameter values of the X-Matrix challenge of `s`.
fn xm_oracle(s: &str) -> Sx {
    let mut rows = vec![];
    let r = std::panic::catch_unwind(|| {
        let mut vals: Vec<String> = vec![];
        for ch in http_auth::ChallengeParser::new(s) {
            let Ok(ch) = ch else { break };
            if ch.scheme.eq_ignore_ascii_case("X-Matrix") {
                for (_, v) in &ch.params {
                    vals.push(v.to_unescaped());
                }
                break;
            }
        }
        vals
    });
    for v in r.unwrap_or_default() {
        let sn = OwnedServerName::try_from(v.as_str()).is_ok();
        let key = OwnedServerSigningKeyId::try_from(v.as_str()).is_ok();
        let b64 = Base64::<ruma_common::serde::base64::Standard>::parse(&v).ok();
        rows.push(Sx::L(vec![Sx::s(&v), Sx::b(sn), Sx::b(key), Sx::opt(b64.map(|b| Sx::S(b.as_bytes().to_vec())))]));
    }
    Sx::L(rows)
}

fn op9(s: &str) -> Sx {
    let s = s.to_owned();
    guarded(move || xparse(&s))
}

fn op10(s: &str) -> Sx {
    let s = s.to_owned();
    guarded(move || {
        let mut chs = vec![];
        let mut err = 0;
        for ch in http_auth::ChallengeParser::new(&s) {
            match ch {
                Ok(c) => chs.push(Sx::L(vec![
                    Sx::s(c.scheme),
                    Sx::L(c.params.iter().map(|(k, v)| Sx::L(vec![Sx::s(k), Sx::s(&v.to_unescaped())])).collect()),
                ])),
                Err(_) => {
                    err = 1;
                    break;
                }
            }
        }
        Sx::ok(Sx::L(vec![Sx::L(chs), Sx::n(err)]))
    })
}

// ---------------------------------------------------------------------------------------------
// Generated conversions: request -> http::Request -> request, response likewise
// ---------------------------------------------------------------------------------------------
const BASE: &str = "https://hs.example";

/// Standard routing: the URL path is cut at `/`, a template segment starting with `:` captures
/// the percent-decoded segment, any other segment must be equal.
fn route(template: &str, path: &str) -> Option<Vec<String>> {
    let t: Vec<&str> = template.split('/').collect();
    let p: Vec<&str> = path.split('/').collect();
    if t.len() != p.len() {
        return None;
    }
    let mut args = vec![];
    for (a, b) in t.iter().zip(p.iter()) {
        if a.starts_with(':') {
            args.push(percent_encoding::percent_decode_str(b).decode_utf8().ok()?.into_owned());
        } else if a != b {
            return None;
        }
    }
    Some(args)
}

fn http_req_sig(r: &http::Request<Vec<u8>>) -> (String, String, Vec<(String, Vec<u8>)>, Vec<u8>) {
    let mut hs: Vec<(String, Vec<u8>)> = r.headers().iter().map(|(k, v)| (k.as_str().to_owned(), v.as_bytes().to_vec())).collect();
    hs.sort();
    (r.method().to_string(), r.uri().to_string(), hs, r.body().clone())
}

fn http_resp_sig(r: &http::Response<Vec<u8>>) -> (u16, Vec<(String, Vec<u8>)>, Vec<u8>) {
    let mut hs: Vec<(String, Vec<u8>)> = r.headers().iter().map(|(k, v)| (k.as_str().to_owned(), v.as_bytes().to_vec())).collect();
    hs.sort();
    (r.status().as_u16(), hs, r.body().clone())
}

pub struct ReqCtx<'a> {
    pub all: &'a [MatrixVersion],
    pub vs: &'a [usize],
    pub variant: usize,
    pub token: &'a str,
}

/// ( 0 ( Smethod_meta Smethod_http Surlpath (Sarg..) (Sauth)? Neq Nreenc ) ) | ( 1 code )
pub fn rt_request<R>(req: R, cx: &ReqCtx<'_>) -> Sx
where
    R: OutgoingRequest + IncomingRequest + Debug,
{
    let meta = <R as OutgoingRequest>::METADATA;
    let vs: Vec<MatrixVersion> = cx.vs.iter().map(|v| cx.all[*v]).collect();
    let dbg1 = format!("{req:?}");
    let h1: http::Request<Vec<u8>> = match req.try_into_http_request(BASE, sat(cx.variant, cx.token), &vs) {
        Ok(h) => h,
        Err(IntoHttpError::EndpointRemoved(_)) => return Sx::err(1),
        Err(e) => return Sx::err(into_err_code(&e)),
    };
    let path = h1.uri().path().to_owned();
    let auth = h1.headers().get(http::header::AUTHORIZATION).map(|v| Sx::S(v.as_bytes().to_vec()));
    // the template whose routing the server would have registered: any path of the history
    let args = meta.history.all_paths().find_map(|t| route(t, &path));
    let sig1 = http_req_sig(&h1);
    let head = |args: &[String], eq: bool, re: bool| {
        Sx::ok(Sx::L(vec![
            Sx::s(meta.method.as_str()),
            Sx::s(&sig1.0),
            Sx::s(&path),
            Sx::L(args.iter().map(|a| Sx::s(a)).collect()),
            Sx::opt(auth.clone()),
            Sx::b(eq),
            Sx::b(re),
        ]))
    };
    let Some(args) = args else { return head(&[], false, false) };
    let debug = std::env::var_os("C16_DEBUG").is_some();
    if debug {
        eprintln!("request  : {dbg1}\nhttp     : {sig1:?}\nargs     : {args:?}");
    }
    let req2 = match R::try_from_http_request(h1, &args) {
        Ok(r) => r,
        Err(e) => {
            if debug {
                eprintln!("decode error: {e}");
            }
            return head(&args, false, false);
        }
    };
    let dbg2 = format!("{req2:?}");
    if debug {
        eprintln!("decoded  : {dbg2}");
    }
    let re = match req2.try_into_http_request::<Vec<u8>>(BASE, sat(cx.variant, cx.token), &vs) {
        Ok(h2) => http_req_sig(&h2) == sig1,
        Err(_) => false,
    };
    head(&args, dbg1 == dbg2, re)
}

/// ( 0 ( Neq Nreenc ) ) | ( 1 code )
pub fn rt_response<R>(resp: R) -> Sx
where
    R: OutgoingResponse + IncomingResponse + Debug,
{
    let dbg1 = format!("{resp:?}");
    let h1: http::Response<Vec<u8>> = match resp.try_into_http_response() {
        Ok(h) => h,
        Err(e) => return Sx::err(into_err_code(&e)),
    };
    let sig1 = http_resp_sig(&h1);
    let debug = std::env::var_os("C16_DEBUG").is_some();
    if debug {
        eprintln!("response : {dbg1}\nhttp     : {sig1:?}");
    }
    let resp2 = match R::try_from_http_response(h1) {
        Ok(r) => r,
        Err(e) => {
            if debug {
                eprintln!("decode error: {e}");
            }
            return Sx::ok(Sx::L(vec![Sx::b(false), Sx::b(false)]));
        }
    };
    let dbg2 = format!("{resp2:?}");
    if debug {
        eprintln!("decoded  : {dbg2}");
    }
    let re = match resp2.try_into_http_response::<Vec<u8>>() {
        Ok(h2) => http_resp_sig(&h2) == sig1,
        Err(_) => false,
    };
    Sx::ok(Sx::L(vec![Sx::b(dbg1 == dbg2), Sx::b(re)]))
}

/// As [rt_response] for a response whose encoding is not a function of the value (the multipart
/// boundary of federation media responses is random): the second flag compares the value decoded
/// from a second encoding instead of the two encodings.
pub fn rt_response_by_value<R>(resp: R) -> Sx
where
    R: OutgoingResponse + IncomingResponse + Debug,
{
    let dbg1 = format!("{resp:?}");
    let h1: http::Response<Vec<u8>> = match resp.try_into_http_response() {
        Ok(h) => h,
        Err(e) => return Sx::err(into_err_code(&e)),
    };
    let Ok(resp2) = R::try_from_http_response(h1) else { return Sx::ok(Sx::L(vec![Sx::b(false), Sx::b(false)])) };
    let dbg2 = format!("{resp2:?}");
    let re = match resp2.try_into_http_response::<Vec<u8>>() {
        Ok(h2) => R::try_from_http_response(h2).map(|r3| format!("{r3:?}") == dbg2).unwrap_or(false),
        Err(_) => false,
    };
    Sx::ok(Sx::L(vec![Sx::b(dbg1 == dbg2), Sx::b(re)]))
}

/// One entry of the endpoint table: name, number of string values it consumes, metadata,
/// request builder and response builder (None when the strings do not make valid field values).
pub struct Ep {
    pub name: &'static str,
    pub nvals: usize,
    pub meta: fn() -> Metadata,
    pub req: fn(&[String], &ReqCtx<'_>) -> Option<Sx>,
    pub resp: fn(&[String]) -> Option<Sx>,
}

fn ep_table() -> Vec<Ep> {
    let mut t = synthetic_eps();
    t.extend(real_eps());
    t
}

fn op11(eps: &[Ep], all: &[MatrixVersion], name: &str, dir: usize, vals: &[String], vs: &[usize], variant: usize, token: &str) -> Option<Sx> {
    let ep = eps.iter().find(|e| e.name == name)?;
    if vals.len() != ep.nvals {
        return None;
    }
    let vals = vals.to_vec();
    let (all, vs, token) = (all.to_vec(), vs.to_vec(), token.to_owned());
    let (req, resp) = (ep.req, ep.resp);
    let out = std::panic::catch_unwind(move || {
        if dir == 0 {
            req(&vals, &ReqCtx { all: &all, vs: &vs, variant, token: &token })
        } else {
            resp(&vals)
        }
    });
    match out {
        Ok(o) => o,
        Err(_) => Some(Sx::panic()),
    }
}

/// What kind of field the i-th string value of an endpoint feeds, where that matters for the
/// known findings: 2 = optional query field, 3 = header field, 6 = optional Content-Type header
/// of a response; 0 = anything else (path, required query, body, ...).
fn field_kind(name: &str, dir: usize, i: usize) -> i64 {
    match (name, dir, i) {
        ("synthetic::all", 0, 3) | ("synthetic::get", 0, 1) => 2,
        ("synthetic::all", 0, 5 | 6) | ("synthetic::all", 1, 0 | 1) => 3,
        ("synthetic::raw", 0, 3) | ("synthetic::raw", 1, 0 | 1) => 3,
        ("client::user_directory::search_users", 0, 1) => 3,
        ("client::media::get_content", 1, 1) => 6,
        ("client::message::get_message_events", 0, 1 | 2) => 2,
        ("client::relations::get_relating_events", 0, 2 | 3) => 2,
        ("client::space::get_hierarchy", 0, 1) | ("client::threads::get_threads", 0, 1) => 2,
        ("client::directory::get_public_rooms", 0, 0) | ("federation::directory::get_public_rooms", 0, 0) => 2,
        ("client::search::search_events", 0, 1) => 2,
        _ => 0,
    }
}

fn case11(ep: &Ep, all: &[MatrixVersion], dir: usize, vals: &[String], vs: &[usize], variant: usize, token: &str) -> Sx {
    let meta = (ep.meta)();
    Sx::L(vec![
        Sx::n(11),
        Sx::s(ep.name),
        Sx::n(dir as i64),
        Sx::L(vals.iter().enumerate().map(|(i, v)| Sx::L(vec![Sx::s(v), Sx::n(field_kind(ep.name, dir, i))])).collect()),
        Hist::of(all, &meta.history).sx(),
        Sx::L(vs.iter().map(|v| Sx::n(*v as i64)).collect()),
        Sx::n(scheme_idx(meta.authentication) as i64),
        Sx::n(variant as i64),
        Sx::s(token),
    ])
}

// ---------------------------------------------------------------------------------------------
// Dump for the translator
// ---------------------------------------------------------------------------------------------
pub fn dump(dir: &str) {
    let all = versions();
    let eps = endpoints();
    let vj: Vec<serde_json::Value> =
        all.iter().map(|v| serde_json::json!({"name": format!("{v:?}"), "str": v.as_str()})).collect();
    for w in all.windows(2) {
        assert!(w[0] < w[1]);
    }
    let ej: Vec<serde_json::Value> = eps
        .iter()
        .map(|(name, m)| {
            let h = Hist::of(&all, &m.history);
            serde_json::json!({
                "module": name, "method": m.method.as_str(), "auth": format!("{:?}", m.authentication),
                "unstable": h.unstable, "stable": h.stable, "deprecated": h.deprecated, "removed": h.removed,
            })
        })
        .collect();
    // The path percent-encode set, read off the compiled code.
    let meta = meta_of(VersionHistory::new(&["/:x"], &[], None, None));
    let mut encoded = vec![];
    for b in 0u8..128 {
        let arg = (b as char).to_string();
        let url = meta.make_endpoint_url(&[], "", &[&arg], "").expect("one unstable path");
        let plain = format!("/{arg}");
        let enc = format!("/%{b:02X}");
        if url == enc {
            encoded.push(b);
        } else {
            assert_eq!(url, plain, "byte {b} neither literal nor %XX");
        }
    }
    let non_ascii = ["\u{e9}", "\u{20ac}", "\u{1F600}", "\u{80}"].iter().all(|s| {
        let url = meta.make_endpoint_url(&[], "", &[s], "").unwrap();
        let want: String = s.bytes().map(|b| format!("%{b:02X}")).collect();
        url == format!("/{want}")
    });
    let j = serde_json::json!({"versions": vj, "endpoints": ej, "percent": {"encoded": encoded, "non_ascii_encoded": non_ascii}});
    std::fs::write(format!("{dir}/c16.json"), serde_json::to_string_pretty(&j).unwrap()).unwrap();
}

// ---------------------------------------------------------------------------------------------
// Replay
// ---------------------------------------------------------------------------------------------
fn ints(x: &Sx) -> Option<Vec<usize>> {
    x.as_list()?.iter().map(|v| usize::try_from(v.as_int()?).ok()).collect()
}

fn strs(x: &Sx) -> Option<Vec<String>> {
    x.as_list()?.iter().map(Sx::as_string).collect()
}

pub fn replay(case: &Sx) -> Option<Sx> {
    let all = versions();
    let l = case.as_list()?;
    let op = l.first()?.as_int()?;
    let hist = |i: usize| -> Option<Hist> {
        let h = Hist::from_sx(l.get(i)?)?;
        h.versions_in_range(all.len()).then_some(h)
    };
    let in_range = |vs: &[usize]| vs.iter().all(|v| *v < all.len());
    match op {
        13 => crate::c16_bodies::replay(l.get(1)?, l.get(2)?, l.get(3)?),
        14 => crate::c16_bodies::replay_query(l.get(1)?, l.get(2)?),
        1 => {
            let h = hist(1)?;
            if l.get(2)?.as_int()? != all.len() as i128 {
                return None;
            }
            Some(op1(&all, &h, usize::try_from(l.get(3)?.as_int()?).ok()?))
        }
        2 => {
            let h = hist(1)?;
            let vs = ints(l.get(2)?)?;
            if !in_range(&vs) {
                return None;
            }
            Some(op2(&all, &h, &vs))
        }
        3 => {
            let h = hist(1)?;
            let vs = ints(l.get(2)?)?;
            if !in_range(&vs) {
                return None;
            }
            Some(op3(&all, &h, &vs, &l.get(3)?.as_string()?, &strs(l.get(4)?)?, &l.get(5)?.as_string()?))
        }
        5 => Some(op5(&pairs_from_sx(l.get(1)?)?)),
        6 => Some(op6(&l.get(1)?.as_string()?)),
        7 => Some(op7(
            usize::try_from(l.get(1)?.as_int()?).ok()?,
            usize::try_from(l.get(2)?.as_int()?).ok()?,
            &l.get(3)?.as_string()?,
        )),
        8 => {
            let d = match l.get(2)?.as_opt()? {
                None => None,
                Some(d) => Some(d.as_string()?),
            };
            op8(&l.get(1)?.as_string()?, d.as_deref(), &l.get(3)?.as_string()?, l.get(4)?.as_bytes()?).map(|(out, _)| out)
        }
        9 => Some(op9(&l.get(1)?.as_string()?)),
        10 => Some(op10(&l.get(1)?.as_string()?)),
        11 => {
            let vs = ints(l.get(5)?)?;
            if !in_range(&vs) {
                return None;
            }
            op11(
                &ep_table(),
                &all,
                &l.get(1)?.as_string()?,
                usize::try_from(l.get(2)?.as_int()?).ok()?,
                &l.get(3)?.as_list()?.iter().map(|p| p.as_list()?.first()?.as_string()).collect::<Option<Vec<_>>>()?,
                &vs,
                usize::try_from(l.get(7)?.as_int()?).ok()?,
                &l.get(8)?.as_string()?,
            )
        }
        12 => Some(op12(&all, &hist(1)?)),
        _ => None,
    }
}

// ---------------------------------------------------------------------------------------------
// Generators
// ---------------------------------------------------------------------------------------------
/// The hostile alphabet of the property text.
const HOSTILE: &[&str] = &["/", "%", "?", "#", "+", "&", "=", " ", "\u{e9}", "a"];

fn hostile_strings(max_len: usize) -> Vec<String> {
    let mut out = vec![String::new()];
    let mut layer = vec![String::new()];
    for _ in 0..max_len {
        let mut next = vec![];
        for s in &layer {
            for c in HOSTILE {
                next.push(format!("{s}{c}"));
            }
        }
        out.extend(next.iter().cloned());
        layer = next;
    }
    out
}

fn pk<'a>(r: &mut Rng, xs: &[&'a str]) -> &'a str {
    xs[r.below(xs.len())]
}

fn rand_hostile(r: &mut Rng, max: usize) -> String {
    let n = r.below(max + 1);
    let mut s = String::new();
    for _ in 0..n {
        match r.below(12) {
            0 => s.push_str("%41"),
            1 => s.push_str("%2F"),
            2 => s.push(*r.pick(&['\u{1F600}', '\u{0}', '\u{7f}', '"', '<', '`', '{', '\\', '^', '[', '|', ';', ':', '@', '\u{80}', '\u{fffd}', '\n'])),
            _ => s.push_str(pk(r, HOSTILE)),
        }
    }
    s
}

fn rand_versions(r: &mut Rng, n: usize) -> Vec<usize> {
    let k = r.below(5);
    (0..k).map(|_| r.below(n)).collect()
}

fn synth_paths(r: &mut Rng, nargs: usize, tag: &str) -> String {
    let mut p = format!("/_m/{tag}");
    for i in 0..nargs {
        if r.chance(1, 2) {
            p.push_str("/lit");
        }
        p.push_str(&format!("/:a{i}"));
    }
    if r.chance(1, 3) {
        p.push_str("/end");
    }
    p
}

/// A history that `VersionHistory::new` accepts (mostly), over `n` versions.
fn gen_hist(r: &mut Rng, n: usize, well_formed: bool) -> Hist {
    let nargs = r.below(3);
    let nun = r.below(3);
    let mut vers: Vec<usize> = (0..n).filter(|_| r.chance(1, 4)).collect();
    vers.truncate(4);
    if nun == 0 && vers.is_empty() {
        vers.push(r.below(n));
    }
    let unstable = (0..nun).map(|i| synth_paths(r, nargs, &format!("u{i}"))).collect();
    let stable: Vec<(usize, String)> = vers.iter().map(|v| (*v, synth_paths(r, nargs, &format!("s{v}")))).collect();
    let last = stable.last().map(|(v, _)| *v);
    let mut deprecated = None;
    let mut removed = None;
    if let Some(last) = last {
        if r.chance(1, 2) {
            let lo = if last == 0 && r.chance(1, 2) { 0 } else { last + 1 };
            if lo < n {
                let d = lo + r.below(n - lo);
                deprecated = Some(d);
                if r.chance(1, 2) && d + 1 < n {
                    removed = Some(d + 1 + r.below(n - d - 1));
                }
            }
        }
    }
    let mut h = Hist { unstable, stable, deprecated, removed };
    if !well_formed {
        match r.below(9) {
            0 => h.stable.reverse(),
            1 => {
                if let Some(x) = h.stable.first().cloned() {
                    h.stable.push(x)
                }
            }
            2 => h.deprecated = h.stable.last().map(|(v, _)| *v),
            3 => std::mem::swap(&mut h.deprecated, &mut h.removed),
            4 => h.removed = h.deprecated,
            5 => {
                if let Some(p) = h.unstable.first_mut() {
                    p.push_str("/:extra")
                } else if let Some((_, p)) = h.stable.last_mut() {
                    p.push_str("/:extra")
                }
            }
            6 => {
                if let Some((_, p)) = h.stable.last_mut() {
                    p.push(*r.pick(&[' ', '\u{e9}', '\u{7f}', '\n']))
                }
            }
            7 => {
                h.unstable.clear();
                h.stable.clear();
                h.deprecated = None;
                h.removed = None;
            }
            _ => {
                h.deprecated = Some(r.below(n));
                h.removed = Some(r.below(n));
            }
        }
    }
    h
}

const TOKENS: &[&str] = &["tok", "", "a b", "t\u{e9}", "x\ny", "x\u{7f}", "x\ty", "\u{0}", "abc.def_-~"];

const SERVER_NAMES: &[&str] = &["o.example", "a", "localhost:8448", "[::1]", "[::1]:80", "1.2.3.4", "A-b.c:1", "x.y"];
const KEY_IDS: &[&str] = &["ed25519:1", "ed25519:a_b", "ed25519:AbC09", "x:1", "ed25519:0_"];

fn gen_header(r: &mut Rng) -> String {
    // mostly the shape XMatrix Display writes, with whitespace / quoting / order / case variations,
    // sometimes other challenges around it, sometimes broken
    fn is_token(v: &str) -> bool {
        !v.is_empty() && v.bytes().all(ruma_common::http_headers::is_tchar)
    }
    let q = |r: &mut Rng, v: &str| -> String {
        let escaped = format!("\"{}\"", v.replace('\\', "\\\\").replace('"', "\\\""));
        if is_token(v) {
            match r.below(10) {
                0..=4 => v.to_owned(),
                5..=8 => escaped,
                _ => format!("\"{}\"", v.chars().map(|c| if r.chance(1, 3) { format!("\\{c}") } else { c.to_string() }).collect::<String>()),
            }
        } else {
            match r.below(20) {
                0 => v.to_owned(),
                1 => format!("\"{v}\""),
                2 | 3 => format!("\"{}\"", v.chars().map(|c| if r.chance(1, 3) || c == '"' || c == '\\' { format!("\\{c}") } else { c.to_string() }).collect::<String>()),
                _ => escaped,
            }
        }
    };
    let vals: &[&str] = &["o.example", "d.example:8448", "ed25519:1", "AQL//v0", "dGVzdA", "dGVzdA==", "", "a b", "x\"y", "x\\y", "[::1]", "!!", "ed25519:", "=", "a,b"];
    let names: &[&str] = &["origin", "destination", "key", "sig", "Origin", "KEY", "sIg", "foo", "origin", "sig"];
    let mut s = String::new();
    if r.chance(1, 6) {
        s.push_str(pk(r, &["Basic realm=\"x\", ", "Bearer, ", "Digest a=b,c=d, ", "Foo ,", ", "]));
    }
    s.push_str(pk(r, &["X-Matrix", "X-Matrix", "X-Matrix", "X-Matrix", "x-matrix", "X-MATRIX", "X-Matri", "XMatrix"]));
    if r.chance(1, 25) {
        s.push_str(pk(r, &["  ", "\t", ""]));
    } else {
        s.push(' ');
    }
    let n = *r.pick(&[0usize, 1, 2, 3, 3, 4, 4, 4, 4, 5]);
    let rot = if r.chance(1, 3) { r.below(4) } else { 0 };
    for i in 0..n {
        if i > 0 {
            if r.chance(1, 30) {
                s.push_str(pk(r, &[" ", ";", ""]));
            } else {
                s.push_str(pk(r, &[",", ",", ",", ",", ",", ", ", ", ", " ,", ",,", ",\t"]));
            }
        }
        let name = if r.chance(7, 8) { ["destination", "key", "origin", "sig"][(i + rot) % 4] } else { *r.pick(names) };
        let name = if r.chance(1, 8) { name.to_ascii_uppercase() } else { name.to_owned() };
        s.push_str(&name);
        if r.chance(1, 30) {
            s.push_str(pk(r, &["", "==", ":"]));
        } else {
            s.push_str(pk(r, &["=", "=", "=", "=", "=", "=", " =", "= ", " = "]));
        }
        let v = match name.to_ascii_lowercase().as_str() {
            "origin" | "destination" if r.chance(7, 8) => *r.pick(SERVER_NAMES),
            "key" if r.chance(7, 8) => *r.pick(KEY_IDS),
            "sig" if r.chance(7, 8) => *r.pick(&["AQL//v0", "dGVzdA", "dGVzdA", "", "AA", "AQL//v0", "dGVzdA=="]),
            _ => *r.pick(vals),
        };
        s.push_str(&q(r, v));
    }
    if r.chance(1, 12) {
        s.push_str(pk(r, &[",", ", Basic", ", Basic realm=x", " ", "\"", ", ="]));
    }
    if r.chance(1, 15) && !s.is_empty() {
        // single-byte mutation
        let mut b = s.into_bytes();
        let i = r.below(b.len());
        b[i] = *r.pick(&[b'"', b'\\', b',', b'=', b' ', b'\t', 0xc3, b'a', 0x7f, b'(']);
        s = String::from_utf8_lossy(&b).into_owned();
    }
    s
}

fn gen_query(r: &mut Rng) -> String {
    let n = r.below(5);
    let mut s = String::new();
    for i in 0..n {
        if i > 0 {
            s.push_str(pk(r, &["&", "&", "&&", ";"]));
        }
        for _ in 0..r.below(4) {
            s.push_str(pk(r, &["a", "b", "+", "%41", "%2", "%", "%zz", "%C3%A9", "%26", "%3D", "=", "\u{e9}", " ", "#", "*"]));
        }
        if r.chance(3, 4) {
            s.push('=');
            for _ in 0..r.below(4) {
                s.push_str(pk(r, &["a", "1", "+", "%20", "%2B", "%", "=", "\u{e9}", "%25", "."]));
            }
        }
    }
    s
}

pub fn run(tier: &str, seed: u64, em: &mut Emitter) {
    crate::c16_bodies::run(tier, seed, em);
    let thorough = tier == "thorough";
    let all = versions();
    let n = all.len();
    let eps = endpoints();
    let table = ep_table();
    let mut r = Rng::new(seed ^ 0xC16);

    // ---- systematic: select_path, every version subset x every endpoint history ----------------
    let chunks = (1usize << n).div_ceil(CHUNK);
    let mut hists: Vec<Hist> = eps.iter().map(|(_, m)| Hist::of(&all, &m.history)).collect();
    // synthetic well-formed histories (removal, several stable paths) in front
    let mut synth = vec![];
    for _ in 0..(if thorough { 120 } else { 24 }) {
        let h = gen_hist(&mut r, n, true);
        if std::panic::catch_unwind(|| h.build(&all)).is_ok() {
            synth.push(h);
        }
    }
    // interleave so that the driver shards get even work
    let mut heavy = vec![];
    for h in synth.iter().chain(hists.iter()) {
        for c in 0..chunks {
            heavy.push((h.clone(), c));
        }
    }
    let mut heavy_it = heavy.into_iter();
    let mut emit_heavy = |em: &mut Emitter, k: usize| {
        for _ in 0..k {
            let Some((h, c)) = heavy_it.next() else { break };
            let case = Sx::L(vec![Sx::n(1), h.sx(), Sx::n(n as i64), Sx::n(c as i64)]);
            em.emit("systematic-select", case, op1(&all, &h, c));
        }
    };
    hists.extend(synth.iter().cloned());

    // ---- systematic: VersionHistory::new on every endpoint history + mutants -------------------
    for h in &hists {
        em.emit("systematic-new", Sx::L(vec![Sx::n(12), h.sx()]), op12(&all, h));
    }
    emit_heavy(em, 600);
    for _ in 0..(if thorough { 20_000 } else { 1_500 }) {
        let wf = r.chance(1, 3);
        let h = gen_hist(&mut r, n, wf);
        em.emit("random-new", Sx::L(vec![Sx::n(12), h.sx()]), op12(&all, &h));
        // select_path on an arbitrary version list (duplicates, any order)
        if std::panic::catch_unwind(|| h.build(&all)).is_ok() {
            let vs = rand_versions(&mut r, n);
            let case = Sx::L(vec![Sx::n(2), h.sx(), Sx::L(vs.iter().map(|v| Sx::n(*v as i64)).collect())]);
            em.emit("random-select", case, op2(&all, &h, &vs));
        }
    }
    emit_heavy(em, 600);

    // ---- systematic: URL construction, argument strings over the hostile alphabet --------------
    let one = Hist { unstable: vec!["/_m/x/:a/y".into()], stable: vec![(1.min(n - 1), "/_m/v1/:a".into())], deprecated: None, removed: None };
    let two = Hist { unstable: vec![], stable: vec![(0, "/_m/:a/z/:b".into())], deprecated: None, removed: None };
    let emit3 = |em: &mut Emitter, h: &Hist, vs: &[usize], base: &str, args: &[String], q: &str| {
        let case = Sx::L(vec![
            Sx::n(3),
            h.sx(),
            Sx::L(vs.iter().map(|v| Sx::n(*v as i64)).collect()),
            Sx::s(base),
            Sx::L(args.iter().map(|a| Sx::s(a)).collect()),
            Sx::s(q),
        ]);
        em.emit("systematic-url", case, op3(&all, h, vs, base, args, q));
    };
    for s in hostile_strings(if thorough { 5 } else { 3 }) {
        emit3(em, &one, &[0], BASE, &[s.clone()], "");
    }
    for b in 0u8..128 {
        emit3(em, &one, &[n - 1], "", &[(b as char).to_string()], "q=1");
    }
    let hs2 = hostile_strings(2);
    for a in &hs2 {
        for b in hs2.iter().step_by(if thorough { 1 } else { 7 }) {
            emit3(em, &two, &[0], "https://h/", &[a.clone(), b.clone()], "k=v&k=w");
        }
    }
    emit_heavy(em, 600);
    for i in 0..(if thorough { 30_000 } else { 2_500 }) {
        let (_, m) = &eps[i % eps.len()];
        let h = if r.chance(3, 4) { Hist::of(&all, &m.history) } else { gen_hist(&mut r, n, true) };
        let nargs = h.all_paths().first().map_or(0, |p| p.split('/').filter(|s| s.starts_with(':')).count());
        let k = match r.below(10) {
            0 => nargs.saturating_sub(1),
            1 => nargs + 1,
            _ => nargs,
        };
        let args: Vec<String> = (0..k).map(|_| rand_hostile(&mut r, 4)).collect();
        let vs = rand_versions(&mut r, n);
        let base = *r.pick(&["", "/", "https://h.example", "https://h.example/", "https://h.example//", "http://h/x"]);
        let q = if r.chance(1, 2) { String::new() } else { gen_query(&mut r) };
        let case = Sx::L(vec![
            Sx::n(3),
            h.sx(),
            Sx::L(vs.iter().map(|v| Sx::n(*v as i64)).collect()),
            Sx::s(base),
            Sx::L(args.iter().map(|a| Sx::s(a)).collect()),
            Sx::s(&q),
        ]);
        em.emit("random-url", case, op3(&all, &h, &vs, base, &args, &q));
    }
    emit_heavy(em, 600);

    // ---- query layer ---------------------------------------------------------------------------
    let hs = hostile_strings(2);
    for k in hs.iter().step_by(if thorough { 1 } else { 3 }) {
        for v in hs.iter().step_by(if thorough { 1 } else { 5 }) {
            let p = vec![(k.clone(), v.clone())];
            em.emit("systematic-query", Sx::L(vec![Sx::n(5), pairs_sx(&p)]), op5(&p));
        }
    }
    for _ in 0..(if thorough { 30_000 } else { 2_500 }) {
        let np = r.below(4);
        let keys = ["k", "", "a b", "k", "\u{e9}", "&", "="];
        let p: Vec<(String, String)> = (0..np)
            .map(|_| (if r.chance(1, 2) { (*r.pick(&keys)).to_owned() } else { rand_hostile(&mut r, 3) }, rand_hostile(&mut r, 4)))
            .collect();
        em.emit("random-query", Sx::L(vec![Sx::n(5), pairs_sx(&p)]), op5(&p));
        let q = gen_query(&mut r);
        if query_lossless(&q) {
            em.emit("random-query-parse", Sx::L(vec![Sx::n(6), Sx::s(&q)]), op6(&q));
        }
    }
    emit_heavy(em, 600);

    // ---- authorization header: schemes x token variants x tokens (exhaustive) -------------------
    for s in 0..6 {
        for v in 0..4 {
            for t in TOKENS {
                em.emit("systematic-auth", Sx::L(vec![Sx::n(7), Sx::n(s), Sx::n(v), Sx::s(t)]), op7(s as usize, v as usize, t));
            }
        }
    }

    // ---- X-Matrix ------------------------------------------------------------------------------
    let sigs: Vec<Vec<u8>> = vec![vec![], vec![0], vec![255, 254], vec![1, 2, 255, 254, 253], b"test".to_vec(), vec![251, 239, 190], (0..64).collect()];
    for o in SERVER_NAMES {
        for k in KEY_IDS {
            for (i, sg) in sigs.iter().enumerate() {
                let d = if i % 2 == 0 { Some(SERVER_NAMES[(i + 1) % SERVER_NAMES.len()]) } else { None };
                if let Some((out, oracle)) = op8(o, d, k, sg) {
                    let case = Sx::L(vec![Sx::n(8), Sx::s(o), Sx::opt(d.map(Sx::s)), Sx::s(k), Sx::S(sg.clone()), oracle]);
                    em.emit("systematic-xmatrix", case, out);
                }
            }
        }
    }
    for _ in 0..(if thorough { 20_000 } else { 2_000 }) {
        let sg: Vec<u8> = (0..r.below(40)).map(|_| r.next() as u8).collect();
        let (o, k) = (*r.pick(SERVER_NAMES), *r.pick(KEY_IDS));
        let d = if r.chance(1, 2) { Some(*r.pick(SERVER_NAMES)) } else { None };
        if let Some((out, oracle)) = op8(o, d, k, &sg) {
            let case = Sx::L(vec![Sx::n(8), Sx::s(o), Sx::opt(d.map(Sx::s)), Sx::s(k), Sx::S(sg), oracle]);
            em.emit("random-xmatrix", case, out);
        }
    }
    emit_heavy(em, 600);
    for _ in 0..(if thorough { 60_000 } else { 6_000 }) {
        let h = gen_header(&mut r);
        em.emit("random-challenge", Sx::L(vec![Sx::n(10), Sx::s(&h)]), op10(&h));
        em.emit("random-xmatrix-parse", Sx::L(vec![Sx::n(9), Sx::s(&h), xm_oracle(&h)]), op9(&h));
    }
    emit_heavy(em, 600);

    // ---- generated conversions: synthetic endpoints (every field kind) and real endpoints -------
    let mut short = hostile_strings(1);
    short.push("-".to_owned()); // absent optional field
    short.push("a,,b".to_owned()); // list field with an empty element
    // characters that quoted header parameters (Content-Disposition filename) escape (seed4 C16-2)
    for x in ["\\", "\"", "a\\", "\"a\"", "a\\\"", "\\\\", "C:\\dir\\"] {
        short.push(x.to_owned());
    }
    for ep in &table {
        let meta = (ep.meta)();
        let h = Hist::of(&all, &meta.history);
        let mut value_sets: Vec<Vec<String>> = vec![];
        // each value position in turn takes every 1-character hostile string (and the empty string)
        for pos in 0..ep.nvals {
            for s in &short {
                let mut v: Vec<String> = (0..ep.nvals).map(|i| format!("v{i}")).collect();
                v[pos] = s.clone();
                value_sets.push(v);
            }
        }
        let synthetic = ep.name.starts_with("synthetic");
        let nrand = match (thorough, synthetic) {
            (true, true) => 3000,
            (true, false) => 300,
            (false, true) => 250,
            (false, false) => 25,
        };
        for _ in 0..nrand {
            value_sets.push((0..ep.nvals).map(|_| if r.chance(1, 6) { "-".to_owned() } else { rand_hostile(&mut r, 4) }).collect());
        }
        value_sets.push((0..ep.nvals).map(|_| "-".to_owned()).collect());
        if ep.nvals == 0 {
            value_sets.push(vec![]);
        }
        for vals in value_sets {
            // versions: mostly all / newest / oldest, sometimes a random list
            let vs: Vec<usize> = match r.below(5) {
                0 => vec![0],
                1 => vec![n - 1],
                2 => rand_versions(&mut r, n),
                _ => (0..n).collect(),
            };
            let _ = &h;
            let variant = if r.chance(3, 4) { 1 } else { r.below(4) };
            let token = if r.chance(7, 8) { "tok" } else { *r.pick(TOKENS) };
            for dir in 0..2 {
                if let Some(out) = op11(&table, &all, ep.name, dir, &vals, &vs, variant, token) {
                    let tag = match (synthetic, dir) {
                        (true, 0) => "synthetic-request",
                        (true, _) => "synthetic-response",
                        (false, 0) => "real-request",
                        (false, _) => "real-response",
                    };
                    em.emit(tag, case11(ep, &all, dir, &vals, &vs, variant, token), out);
                }
            }
        }
        emit_heavy(em, 120);
    }
    emit_heavy(em, usize::MAX);
}
