//! C16 — not built yet.
use crate::{sx::Sx, Emitter};

pub fn run(_tier: &str, _seed: u64, _em: &mut Emitter) {}

pub fn replay(_case: &Sx) -> Option<Sx> {
    None
}

pub fn dump(_dir: &str) {}
