//! C20 — power-level helpers of ruma-events (`RoomPowerLevels::user_can_*`, `for_user`, `for_action`)
//! against the real `ruma_state_res::auth_check` on the event a client would send, and against
//! the `sender_notification_permission` push condition of ruma-common.
//!
//! case    = ( version content actor target tm op type state_key n extra )
//!   content : the `m.room.power_levels` content (JSON object, sx::obj_to_sx)
//!   tm      : () target has no member event | ( membership )
//!   op      : see `OPS`
//!   n       : the new level of op 15
//!   extra   : () | ( event state )  the candidate event and the room state the harness ran
//!             `auth_check` on, in C08's encoding (the model rebuilds both and compares)
//! outcome = ( h ( helper dispatch levels auth built users ) )     h = 0 helper says yes (or returns a level)
//!                                                            1 helper says no / content does not deserialize
//!           ( 2 ) a panic on either side
//!   helper   : () content does not deserialize | ( bool ) | ( level )
//!   dispatch : () | ( bool )   the same question through user_can_do / user_can_do_to_user
//!   levels   : ( level .. )    for_action(..) and for_message / for_state where they apply
//!   auth     : () not applicable | ( bool ) verdict of auth_check / of the push condition
//!              | ( 0 level ) | ( 1 )  for op 7: Ok(level) / Err of state-res' user_power_level
//!   built    : () | ( 1 )      extra was attached
//!   users    : () | ( for_user(actor) for_user(target) )
use std::collections::BTreeMap;

use js_int::{Int, UInt};
use ruma_common::{
    push::{FlattenedJson, PushCondition, PushConditionPowerLevelsCtx, PushConditionRoomCtx},
    serde::Raw,
    CanonicalJsonObject, CanonicalJsonValue, OwnedEventId, RoomId, UserId,
};
use ruma_events::{
    room::power_levels::{
        NotificationPowerLevelType, PowerLevelAction, PowerLevelUserAction, RedactedRoomPowerLevelsEventContent,
        RoomPowerLevels, RoomPowerLevelsEventContent,
    },
    MessageLikeEventType, StateEventType,
};
use ruma_state_res::events::RoomPowerLevelsEvent;
use serde_json::json;

use crate::{
    c08::{cj, cobj, ev_to_sx, mk_ev, run_auth, rules_of, state_to_sx, Ev, Lv, Pl, State, LEVEL_STRINGS},
    rng::Rng,
    sx::{guarded, obj_to_sx, sx_to_obj, Sx},
    Emitter,
};

pub const ROOM: &str = "!room:s1";
pub const CREATOR: &str = "@creator:s1";
pub const ALICE: &str = "@alice:s1";
pub const BOB: &str = "@bob:s1";
pub const CAROL: &str = "@carol:s1";

pub const OP_BAN_USER: u8 = 0;
pub const OP_KICK_USER: u8 = 1;
pub const OP_UNBAN_USER: u8 = 2;
pub const OP_INVITE: u8 = 3;
pub const OP_SEND_MESSAGE: u8 = 4;
pub const OP_SEND_STATE: u8 = 5;
pub const OP_NOTIFY_ROOM: u8 = 6;
pub const OP_FOR_USER: u8 = 7;
pub const OP_BAN: u8 = 8;
pub const OP_KICK: u8 = 9;
pub const OP_UNBAN: u8 = 10;
pub const OP_REDACT_OWN: u8 = 12;
pub const OP_REDACT_OTHER: u8 = 13;
pub const OP_THIRD_PARTY_INVITE: u8 = 14;
pub const OP_CHANGE_LEVEL: u8 = 15;
pub const OPS: &[u8] = &[0, 1, 2, 3, 4, 5, 6, 7, 8, 9, 10, 12, 13, 14, 15];

#[derive(Clone, Debug)]
pub struct Case {
    pub v: u32,
    pub content: CanonicalJsonObject,
    pub actor: String,
    pub target: String,
    pub tm: Option<String>,
    pub op: u8,
    pub ty: String,
    pub sk: String,
    pub n: i64,
    pub extra: bool,
}

// ---------------------------------------------------------------------------------------------
// The room the question is asked about, and the event a client would send
// ---------------------------------------------------------------------------------------------
fn eid(s: &str) -> OwnedEventId {
    OwnedEventId::try_from(s).unwrap()
}

fn member_ev(id: &str, user: &str, membership: &str) -> Ev {
    let mut e = mk_ev(id, ROOM, user, "m.room.member", Some(user), cobj(json!({ "membership": membership })));
    e.prev = vec![eid("$create")];
    e.auth = vec![eid("$create")];
    e
}

/// Create event by someone else, exactly this power-levels event, the actor joined, the target
/// with the given membership (no member event when `tm` is `None`).
pub fn state_of(c: &Case) -> State {
    let create = mk_ev("$create", ROOM, CREATOR, "m.room.create", Some(""), cobj(json!({ "creator": CREATOR })));
    let mut pl = mk_ev("$pl", ROOM, CREATOR, "m.room.power_levels", Some(""), c.content.clone());
    pl.prev = vec![eid("$create")];
    pl.auth = vec![eid("$create")];
    let mut st: State = vec![
        (("m.room.create".to_owned(), String::new()), create),
        (("m.room.power_levels".to_owned(), String::new()), pl),
        (("m.room.member".to_owned(), c.actor.clone()), member_ev("$ma", &c.actor, "join")),
    ];
    if c.target != c.actor {
        if let Some(m) = &c.tm {
            st.push((("m.room.member".to_owned(), c.target.clone()), member_ev("$mt", &c.target, m)));
        }
    }
    st
}

/// `users[target] := n` in the power-levels content.
fn with_user_level(content: &CanonicalJsonObject, user: &str, n: i64) -> CanonicalJsonObject {
    let mut users = match content.get("users") {
        Some(CanonicalJsonValue::Object(m)) => m.clone(),
        _ => CanonicalJsonObject::new(),
    };
    users.insert(user.to_owned(), cj(json!(n)));
    let mut out = content.clone();
    out.insert("users".to_owned(), CanonicalJsonValue::Object(users));
    out
}

/// The event whose authorization decides the question (`None`: the question is not about an event).
pub fn minimal_event(c: &Case) -> Option<Ev> {
    let member = |m: &str| ("m.room.member".to_owned(), Some(c.target.clone()), cobj(json!({ "membership": m })));
    let (ty, skey, content) = match c.op {
        OP_BAN_USER => member("ban"),
        OP_KICK_USER | OP_UNBAN_USER => member("leave"),
        OP_INVITE => member("invite"),
        OP_SEND_MESSAGE => (c.ty.clone(), None, CanonicalJsonObject::new()),
        OP_REDACT_OWN => ("m.room.redaction".to_owned(), None, CanonicalJsonObject::new()),
        OP_SEND_STATE => {
            let content =
                if c.ty == "m.room.power_levels" { c.content.clone() } else { CanonicalJsonObject::new() };
            (c.ty.clone(), Some(c.sk.clone()), content)
        }
        OP_THIRD_PARTY_INVITE => ("m.room.third_party_invite".to_owned(), Some(c.sk.clone()), CanonicalJsonObject::new()),
        OP_CHANGE_LEVEL => {
            ("m.room.power_levels".to_owned(), Some(String::new()), with_user_level(&c.content, &c.target, c.n))
        }
        _ => return None,
    };
    let mut e = mk_ev("$ev", ROOM, &c.actor, &ty, skey.as_deref(), content);
    e.prev = vec![eid("$prev")];
    e.auth = vec![eid("$create"), eid("$pl"), eid("$ma")];
    Some(e)
}

// ---------------------------------------------------------------------------------------------
// Running both sides
// ---------------------------------------------------------------------------------------------
fn lvl(i: Int) -> Sx {
    Sx::N(i64::from(i) as i128)
}

fn one(x: Sx) -> Sx {
    Sx::L(vec![x])
}

fn none() -> Sx {
    Sx::L(vec![])
}

/// ( yes, helper, dispatch, levels ) of the ruma-events side.
fn helper_side(c: &Case, pl: &RoomPowerLevels) -> (bool, Sx, Sx, Sx) {
    let actor = <&UserId>::try_from(c.actor.as_str()).unwrap();
    let target = <&UserId>::try_from(c.target.as_str()).unwrap();
    let b = |x: bool| one(Sx::b(x));
    match c.op {
        OP_BAN_USER => {
            let h = pl.user_can_ban_user(actor, target);
            let d = pl.user_can_do_to_user(actor, target, PowerLevelUserAction::Ban);
            (h, b(h), b(d), Sx::L(vec![lvl(pl.for_action(PowerLevelAction::Ban))]))
        }
        OP_KICK_USER => {
            let h = pl.user_can_kick_user(actor, target);
            let d = pl.user_can_do_to_user(actor, target, PowerLevelUserAction::Kick);
            (h, b(h), b(d), Sx::L(vec![lvl(pl.for_action(PowerLevelAction::Kick))]))
        }
        OP_UNBAN_USER => {
            let h = pl.user_can_unban_user(actor, target);
            let d = pl.user_can_do_to_user(actor, target, PowerLevelUserAction::Unban);
            (h, b(h), b(d), Sx::L(vec![lvl(pl.for_action(PowerLevelAction::Unban))]))
        }
        OP_INVITE | OP_THIRD_PARTY_INVITE => {
            let h = pl.user_can_invite(actor);
            let d = pl.user_can_do_to_user(actor, target, PowerLevelUserAction::Invite)
                && pl.user_can_do(actor, PowerLevelAction::Invite);
            let d_any = pl.user_can_do_to_user(actor, target, PowerLevelUserAction::Invite)
                || pl.user_can_do(actor, PowerLevelAction::Invite);
            // both dispatchers must give the same answer; encode a disagreement as `2`
            let d = if d == d_any { b(d) } else { one(Sx::N(2)) };
            (h, b(h), d, Sx::L(vec![lvl(pl.for_action(PowerLevelAction::Invite))]))
        }
        OP_SEND_MESSAGE => {
            let t = MessageLikeEventType::from(c.ty.as_str());
            let h = pl.user_can_send_message(actor, t.clone());
            let d = pl.user_can_do(actor, PowerLevelAction::SendMessage(t.clone()));
            (
                h,
                b(h),
                b(d),
                Sx::L(vec![lvl(pl.for_action(PowerLevelAction::SendMessage(t.clone()))), lvl(pl.for_message(t))]),
            )
        }
        OP_SEND_STATE => {
            let t = StateEventType::from(c.ty.as_str());
            let h = pl.user_can_send_state(actor, t.clone());
            let d = pl.user_can_do(actor, PowerLevelAction::SendState(t.clone()));
            (
                h,
                b(h),
                b(d),
                Sx::L(vec![lvl(pl.for_action(PowerLevelAction::SendState(t.clone()))), lvl(pl.for_state(t))]),
            )
        }
        OP_NOTIFY_ROOM => {
            let a = PowerLevelAction::TriggerNotification(NotificationPowerLevelType::Room);
            let h = pl.user_can_trigger_room_notification(actor);
            let d = pl.user_can_do(actor, a.clone());
            (h, b(h), b(d), Sx::L(vec![lvl(pl.for_action(a))]))
        }
        OP_FOR_USER => (true, one(lvl(pl.for_user(actor))), none(), Sx::L(vec![lvl(pl.max())])),
        OP_BAN => {
            let h = pl.user_can_ban(actor);
            let d = pl.user_can_do(actor, PowerLevelAction::Ban);
            (h, b(h), b(d), Sx::L(vec![lvl(pl.for_action(PowerLevelAction::Ban))]))
        }
        OP_KICK => {
            let h = pl.user_can_kick(actor);
            let d = pl.user_can_do(actor, PowerLevelAction::Kick);
            (h, b(h), b(d), Sx::L(vec![lvl(pl.for_action(PowerLevelAction::Kick))]))
        }
        OP_UNBAN => {
            let h = pl.user_can_unban(actor);
            let d = pl.user_can_do(actor, PowerLevelAction::Unban);
            (h, b(h), b(d), Sx::L(vec![lvl(pl.for_action(PowerLevelAction::Unban))]))
        }
        OP_REDACT_OWN => {
            let h = pl.user_can_redact_own_event(actor);
            let d = pl.user_can_do(actor, PowerLevelAction::RedactOwn);
            (h, b(h), b(d), Sx::L(vec![lvl(pl.for_action(PowerLevelAction::RedactOwn))]))
        }
        OP_REDACT_OTHER => {
            let h = pl.user_can_redact_event_of_other(actor);
            let d = pl.user_can_do(actor, PowerLevelAction::RedactOther);
            (h, b(h), b(d), Sx::L(vec![lvl(pl.for_action(PowerLevelAction::RedactOther))]))
        }
        OP_CHANGE_LEVEL => {
            let h = pl.user_can_change_user_power_level(actor, target);
            let d = pl.user_can_do_to_user(actor, target, PowerLevelUserAction::ChangePowerLevel);
            (h, b(h), b(d), Sx::L(vec![]))
        }
        _ => (false, none(), none(), Sx::L(vec![])),
    }
}

/// The verdict of the other side: `auth_check`, the push condition, or state-res' user level.
fn auth_side(c: &Case, pl: Option<&RoomPowerLevels>, state: &State, ev: Option<&Ev>) -> Option<Sx> {
    match c.op {
        OP_NOTIFY_ROOM => {
            // the push condition works on the context built from the same RoomPowerLevels
            let Some(pl) = pl else { return Some(none()) };
            let ctx = PushConditionRoomCtx {
                room_id: RoomId::parse(ROOM).unwrap(),
                member_count: UInt::new(3).unwrap(),
                user_id: UserId::parse(CREATOR).unwrap(),
                user_display_name: "creator".to_owned(),
                power_levels: Some(PushConditionPowerLevelsCtx::from(pl.clone())),
            };
            let raw: Raw<serde_json::Value> = Raw::new(&json!({
                "type": "m.room.message", "room_id": ROOM, "sender": c.actor, "event_id": "$ev",
                "content": { "msgtype": "m.text", "body": "@room hello" }
            }))
            .unwrap()
            .cast();
            let f = FlattenedJson::from_raw(&raw);
            let cond = PushCondition::SenderNotificationPermission { key: "room".into() };
            Some(one(Sx::b(cond.applies(&f, &ctx))))
        }
        OP_FOR_USER => {
            let actor = <&UserId>::try_from(c.actor.as_str()).unwrap();
            let plev = state.iter().find(|((t, _), _)| t == "m.room.power_levels").map(|(_, e)| e.clone())?;
            let rules = rules_of(c.v);
            Some(match RoomPowerLevelsEvent::new(plev).user_power_level(actor, &rules) {
                Ok(l) => Sx::L(vec![Sx::N(0), lvl(l)]),
                Err(_) => Sx::L(vec![Sx::N(1)]),
            })
        }
        OP_BAN | OP_KICK | OP_UNBAN | OP_REDACT_OTHER => Some(none()),
        _ => {
            let ev = ev?;
            let (out, _) = run_auth(c.v, ev, state);
            match out.as_list()?.first()?.as_int()? {
                0 => Some(one(Sx::b(true))),
                1 => Some(one(Sx::b(false))),
                _ => None, // panic
            }
        }
    }
}

pub fn run_case(c: &Case) -> Sx {
    let c = c.clone();
    guarded(move || {
        let state = state_of(&c);
        let ev = minimal_event(&c);
        let text = serde_json::to_string(&c.content).unwrap();
        let pl: Option<RoomPowerLevels> =
            serde_json::from_str::<RoomPowerLevelsEventContent>(&text).ok().map(RoomPowerLevels::from);
        let Some(auth) = auth_side(&c, pl.as_ref(), &state, ev.as_ref()) else { return Sx::panic() };
        let built = if c.extra { one(Sx::N(1)) } else { none() };
        match &pl {
            None => Sx::L(vec![Sx::N(1), Sx::L(vec![none(), none(), Sx::L(vec![]), auth, built, none()])]),
            Some(pl) => {
                let (yes, h, d, l) = helper_side(&c, pl);
                let actor = <&UserId>::try_from(c.actor.as_str()).unwrap();
                let target = <&UserId>::try_from(c.target.as_str()).unwrap();
                let users = Sx::L(vec![lvl(pl.for_user(actor)), lvl(pl.for_user(target))]);
                Sx::L(vec![Sx::N(if yes { 0 } else { 1 }), Sx::L(vec![h, d, l, auth, built, users])])
            }
        }
    })
}

pub fn case_sx(c: &Case) -> Sx {
    let extra = if c.extra {
        let ev = minimal_event(c).map(|e| one(ev_to_sx(&e))).unwrap_or_else(none);
        Sx::L(vec![ev, state_to_sx(&state_of(c))])
    } else {
        none()
    };
    Sx::L(vec![
        Sx::n(c.v),
        obj_to_sx(&c.content),
        Sx::s(&c.actor),
        Sx::s(&c.target),
        Sx::opt(c.tm.as_deref().map(Sx::s)),
        Sx::n(c.op),
        Sx::s(&c.ty),
        Sx::s(&c.sk),
        Sx::N(c.n as i128),
        extra,
    ])
}

pub fn sx_to_case(x: &Sx) -> Option<Case> {
    let l = x.as_list()?;
    if l.len() != 10 {
        return None;
    }
    let v = l[0].as_int()?;
    if !(1..=11).contains(&v) {
        return None;
    }
    let actor = l[2].as_string()?;
    let target = l[3].as_string()?;
    <&UserId>::try_from(actor.as_str()).ok()?;
    <&UserId>::try_from(target.as_str()).ok()?;
    let op = u8::try_from(l[5].as_int()?).ok()?;
    if !OPS.contains(&op) {
        return None;
    }
    let n = i64::try_from(l[8].as_int()?).ok()?;
    Int::new(n)?;
    Some(Case {
        v: v as u32,
        content: sx_to_obj(&l[1])?,
        actor,
        target,
        tm: match l[4].as_opt()? {
            None => None,
            Some(s) => Some(s.as_string()?),
        },
        op,
        ty: l[6].as_string()?,
        sk: l[7].as_string()?,
        n,
        extra: !l[9].as_list()?.is_empty(),
    })
}

// ---------------------------------------------------------------------------------------------
// Generation
// ---------------------------------------------------------------------------------------------
struct Gen<'a> {
    thorough: bool,
    em: &'a mut Emitter,
    k: u64,
}

fn mix(mut z: u64) -> u64 {
    z = z.wrapping_add(0x9E37_79B9_7F4A_7C15);
    z = (z ^ (z >> 30)).wrapping_mul(0xBF58_476D_1CE4_E5B9);
    z = (z ^ (z >> 27)).wrapping_mul(0x94D0_49BB_1331_11EB);
    z ^ (z >> 31)
}

impl Gen<'_> {
    /// Thorough: every case.  Quick: a deterministic one in `one_in`.
    fn emit(&mut self, tag: &str, mut c: Case, one_in: u64) {
        self.k += 1;
        let h = mix(self.k);
        if !(self.thorough || one_in <= 1 || h % one_in == 0) {
            return;
        }
        c.extra = (h >> 20) % 61 == 0;
        let out = run_case(&c);
        self.em.emit(tag, case_sx(&c), out);
    }
}

const VERSIONS: std::ops::RangeInclusive<u32> = 3..=11;
const MEMBERSHIPS: &[Option<&str>] = &[None, Some("join"), Some("invite"), Some("leave"), Some("ban"), Some("knock")];

fn base_case(v: u32, content: CanonicalJsonObject, op: u8) -> Case {
    Case {
        v,
        content,
        actor: ALICE.to_owned(),
        target: BOB.to_owned(),
        tm: Some("join".to_owned()),
        op,
        ty: String::new(),
        sk: String::new(),
        n: 0,
        extra: false,
    }
}

/// How a level field is written; `None` = left out (its default applies).
#[derive(Clone, Debug)]
struct Shape(Option<Lv>, i64);

fn shapes(default: i64, others: &[i64], strs: &[i64]) -> Vec<Shape> {
    let mut v = vec![Shape(None, default), Shape(Some(Lv::Int(default)), default)];
    for &o in others {
        v.push(Shape(Some(Lv::Int(o)), o));
    }
    for &s in strs {
        v.push(Shape(Some(Lv::Str(s.to_string())), s));
    }
    v
}

fn put_field(pl: Pl, name: &'static str, s: &Shape) -> Pl {
    match &s.0 {
        None => pl,
        Some(l) => pl.field(name, l.clone()),
    }
}

/// Where the actor's level `a` comes from.
#[derive(Clone, Copy, Debug, PartialEq)]
enum Src {
    EntryInt,
    EntryStr,
    DefaultInt,
    DefaultStr,
    DefaultAbsent,
}

fn actor_sources(a: i64, wide: bool) -> Vec<Src> {
    let mut v = vec![Src::EntryInt, Src::EntryStr, Src::DefaultInt];
    if wide {
        v.push(Src::DefaultStr);
    }
    if a == 0 {
        v.push(Src::DefaultAbsent);
    }
    v
}

fn put_actor(pl: Pl, src: Src, a: i64) -> Pl {
    match src {
        Src::EntryInt => pl.user(ALICE, Lv::Int(a)),
        Src::EntryStr => pl.user(ALICE, Lv::Str(a.to_string())),
        Src::DefaultInt => pl.field("users_default", Lv::Int(a)),
        Src::DefaultStr => pl.field("users_default", Lv::Str(format!(" {a} "))),
        Src::DefaultAbsent => pl,
    }
}

/// The target at level `a + eps`, by an entry of its own or by `users_default`; with the actor.
fn actor_target_worlds(pl: &Pl, a: i64, wide: bool) -> Vec<Pl> {
    let mut out = vec![];
    for src in actor_sources(a, wide) {
        let with_actor = put_actor(pl.clone(), src, a);
        let by_entry = matches!(src, Src::EntryInt | Src::EntryStr);
        for eps in [-1i64, 0, 1] {
            let t = a + eps;
            out.push(with_actor.clone().user(BOB, Lv::Int(t)));
            if wide || !by_entry {
                out.push(with_actor.clone().user(BOB, Lv::Str(t.to_string())));
            }
            if by_entry {
                // the target falls back to users_default
                out.push(with_actor.clone().field("users_default", Lv::Int(t)));
                if t == 0 {
                    out.push(with_actor.clone());
                }
            } else if eps == 0 {
                out.push(with_actor.clone());
            }
        }
    }
    out
}

fn actor_worlds(pl: &Pl, a: i64, wide: bool) -> Vec<Pl> {
    actor_sources(a, wide).into_iter().map(|s| put_actor(pl.clone(), s, a)).collect()
}

/// ban_user / invite: one threshold field.
fn sys_one_threshold(g: &mut Gen<'_>, op: u8, field: &'static str, default: i64) {
    for shape in shapes(default, &[30, 0, -7, 100], &[30]) {
        let pl = put_field(Pl::default(), field, &shape);
        for delta in [-1i64, 0, 1] {
            let a = shape.1 + delta;
            for world in actor_target_worlds(&pl, a, true) {
                let content = world.content();
                for v in VERSIONS {
                    for tm in MEMBERSHIPS {
                        let mut c = base_case(v, content.clone(), op);
                        c.tm = tm.map(str::to_owned);
                        g.emit("sys-threshold", c, 10);
                    }
                }
            }
        }
    }
}

/// kick_user / unban_user: the `leave` event, two thresholds.
fn sys_leave(g: &mut Gen<'_>) {
    let absent = |d| Shape(None, d);
    let int = |x| Shape(Some(Lv::Int(x)), x);
    let st = |x: i64| Shape(Some(Lv::Str(x.to_string())), x);
    let pairs: Vec<(Shape, Shape)> = vec![
        (absent(50), absent(50)),
        (int(30), int(60)),
        (int(60), int(30)),
        (int(40), int(40)),
        (absent(50), int(20)),
        (int(20), absent(50)),
        (absent(50), int(80)),
        (int(80), absent(50)),
        (st(30), st(60)),
        (int(0), int(-5)),
    ];
    for (kick, ban) in pairs {
        let pl = put_field(put_field(Pl::default(), "kick", &kick), "ban", &ban);
        let mut levels: Vec<i64> = vec![kick.1 - 1, kick.1, kick.1 + 1, ban.1 - 1, ban.1, ban.1 + 1];
        levels.sort();
        levels.dedup();
        for a in levels {
            for world in actor_target_worlds(&pl, a, false) {
                let content = world.content();
                for v in VERSIONS {
                    for tm in MEMBERSHIPS {
                        for op in [OP_KICK_USER, OP_UNBAN_USER] {
                            let mut c = base_case(v, content.clone(), op);
                            c.tm = tm.map(str::to_owned);
                            g.emit("sys-leave", c, 10);
                        }
                    }
                }
            }
        }
    }
}

/// Actor and target the same user, and a target that is the room creator.
fn sys_pairs(g: &mut Gen<'_>) {
    for (kick, ban, invite) in [(50, 50, 0), (10, 20, 30), (30, 20, 10)] {
        let pl = Pl::default().field("kick", Lv::Int(kick)).field("ban", Lv::Int(ban)).field("invite", Lv::Int(invite));
        for a in [9i64, 10, 19, 20, 29, 30, 49, 50, 51] {
            for world in actor_worlds(&pl, a, false) {
                for (target, tl) in [(ALICE, None), (CREATOR, Some(a - 1)), (CREATOR, Some(a)), (CAROL, None)] {
                    let w = match tl {
                        Some(t) => world.clone().user(target, Lv::Int(t)),
                        None => world.clone(),
                    };
                    let content = w.content();
                    for v in VERSIONS {
                        for tm in MEMBERSHIPS {
                            for op in [OP_BAN_USER, OP_KICK_USER, OP_UNBAN_USER, OP_INVITE, OP_CHANGE_LEVEL] {
                                let mut c = base_case(v, content.clone(), op);
                                c.target = target.to_owned();
                                c.tm = tm.map(str::to_owned);
                                c.n = a - 1;
                                g.emit("sys-pairs", c, 20);
                            }
                        }
                    }
                }
            }
        }
    }
}

const MESSAGE_TYPES: &[&str] = &[
    "m.room.message",
    "m.reaction",
    "m.room.redaction",
    "m.room.encrypted",
    "org.example.custom",
    "org.matrix.call.sdp_stream_metadata_changed",
    "m.call.sdp_stream_metadata_changed",
];

const STATE_TYPES: &[&str] = &[
    "m.room.topic",
    "m.room.name",
    "m.room.join_rules",
    "m.room.power_levels",
    "m.room.aliases",
    "m.room.third_party_invite",
    "org.example.state",
    "org.matrix.call.sdp_stream_metadata_changed",
];

fn sys_send_message(g: &mut Gen<'_>) {
    for ty in MESSAGE_TYPES {
        for entry in [None, Some(Lv::Int(10)), Some(Lv::Int(0)), Some(Lv::Int(-2)), Some(Lv::Str("10".into()))] {
            for dflt in shapes(0, &[5, 50], &[5]) {
                for noise in 0..3 {
                    let mut pl = put_field(Pl::default(), "events_default", &dflt);
                    if let Some(e) = &entry {
                        pl = pl.event(ty, e.clone());
                    }
                    match noise {
                        1 => pl = pl.event("m.room.other", Lv::Int(77)).field("state_default", Lv::Int(3)),
                        2 => {
                            // the alias and the standard name of the same type, both present
                            pl = pl
                                .event("org.matrix.call.sdp_stream_metadata_changed", Lv::Int(21))
                                .event("m.call.sdp_stream_metadata_changed", Lv::Int(12));
                        }
                        _ => {}
                    }
                    let need = match &entry {
                        Some(Lv::Int(i)) => *i,
                        Some(_) => 10,
                        None => dflt.1,
                    };
                    for delta in [-1i64, 0, 1] {
                        for world in actor_worlds(&pl, need + delta, true) {
                            let content = world.content();
                            for v in VERSIONS {
                                let mut c = base_case(v, content.clone(), OP_SEND_MESSAGE);
                                c.ty = (*ty).to_owned();
                                g.emit("sys-message", c, 10);
                            }
                        }
                    }
                }
            }
        }
    }
}

fn sys_send_state(g: &mut Gen<'_>) {
    for ty in STATE_TYPES {
        for entry in [None, Some(Lv::Int(70)), Some(Lv::Int(0)), Some(Lv::Str("70".into()))] {
            for dflt in shapes(50, &[20], &[20]) {
                let mut pl = put_field(Pl::default(), "state_default", &dflt).field("events_default", Lv::Int(33));
                if let Some(e) = &entry {
                    pl = pl.event(ty, e.clone());
                }
                let need = match &entry {
                    Some(Lv::Int(i)) => *i,
                    Some(_) => 70,
                    None => dflt.1,
                };
                for delta in [-1i64, 0, 1] {
                    for world in actor_worlds(&pl, need + delta, false) {
                        let content = world.content();
                        for v in VERSIONS {
                            for sk in ["", ALICE, BOB, "@", "@alice:s1x", "s1", "x"] {
                                let mut c = base_case(v, content.clone(), OP_SEND_STATE);
                                c.ty = (*ty).to_owned();
                                c.sk = sk.to_owned();
                                g.emit("sys-state", c, 10);
                            }
                        }
                    }
                }
            }
        }
    }
}

/// redact_own / redact_other / third-party invites / the helpers without a target.
fn sys_misc(g: &mut Gen<'_>) {
    // redaction: `redact` and events[m.room.redaction] / events_default
    for redact in shapes(50, &[10, 70], &[10]) {
        for entry in [None, Some(Lv::Int(40)), Some(Lv::Int(0))] {
            for dflt in shapes(0, &[25], &[]) {
                let mut pl = put_field(put_field(Pl::default(), "redact", &redact), "events_default", &dflt);
                if let Some(e) = &entry {
                    pl = pl.event("m.room.redaction", e.clone());
                }
                let need = match &entry {
                    Some(Lv::Int(i)) => *i,
                    _ => dflt.1,
                };
                let mut levels = vec![need - 1, need, need + 1, redact.1 - 1, redact.1, redact.1 + 1];
                levels.sort();
                levels.dedup();
                for a in levels {
                    for world in actor_worlds(&pl, a, false) {
                        let content = world.content();
                        for v in VERSIONS {
                            for op in [OP_REDACT_OWN, OP_REDACT_OTHER] {
                                g.emit("sys-redact", base_case(v, content.clone(), op), 10);
                            }
                        }
                    }
                }
            }
        }
    }
    // m.room.third_party_invite is gated by `invite`, whatever events / state_default say
    for invite in shapes(0, &[30, 60], &[30]) {
        for entry in [None, Some(Lv::Int(45))] {
            for sd in shapes(50, &[20], &[]) {
                let mut pl = put_field(put_field(Pl::default(), "invite", &invite), "state_default", &sd);
                if let Some(e) = &entry {
                    pl = pl.event("m.room.third_party_invite", e.clone());
                }
                for delta in [-1i64, 0, 1] {
                    for world in actor_worlds(&pl, invite.1 + delta, false) {
                        let content = world.content();
                        for v in VERSIONS {
                            for sk in ["token", ""] {
                                let mut c = base_case(v, content.clone(), OP_THIRD_PARTY_INVITE);
                                c.sk = sk.to_owned();
                                g.emit("sys-3pid", c, 10);
                            }
                        }
                    }
                }
            }
        }
    }
    // ban / kick / unban without a target: for_action and user_can_do
    for kick in shapes(50, &[30, 60], &[30]) {
        for ban in shapes(50, &[30, 60], &[60]) {
            let pl = put_field(put_field(Pl::default(), "kick", &kick), "ban", &ban);
            let mut levels = vec![kick.1 - 1, kick.1, kick.1 + 1, ban.1 - 1, ban.1, ban.1 + 1];
            levels.sort();
            levels.dedup();
            for a in levels {
                for world in actor_worlds(&pl, a, true) {
                    let content = world.content();
                    for op in [OP_BAN, OP_KICK, OP_UNBAN] {
                        g.emit("sys-no-target", base_case(9, content.clone(), op), 4);
                    }
                }
            }
        }
    }
}

fn notif_values() -> Vec<(Option<CanonicalJsonValue>, Option<i64>)> {
    vec![
        (None, Some(50)),
        (Some(cj(json!({}))), Some(50)),
        (Some(cj(json!({"room": 50}))), Some(50)),
        (Some(cj(json!({"room": 20}))), Some(20)),
        (Some(cj(json!({"room": 0}))), Some(0)),
        (Some(cj(json!({"room": 70, "other": 5}))), Some(70)),
        (Some(cj(json!({"room": "20"}))), Some(20)),
        (Some(cj(json!({"room": " +20 "}))), Some(20)),
        (Some(cj(json!({"other": 20}))), Some(50)),
        (Some(cj(json!({"other": "x"}))), Some(50)),
        (Some(cj(json!([]))), Some(50)),
        (Some(cj(json!([20]))), Some(20)),
        (Some(cj(json!(["20"]))), Some(20)),
        (Some(cj(json!([20, 30]))), None),
        (Some(cj(json!({"room": null}))), None),
        (Some(cj(json!({"room": "x"}))), None),
        (Some(cj(json!({"room": [20]}))), None),
        (Some(CanonicalJsonValue::Null), None),
        (Some(cj(json!(20))), None),
        (Some(cj(json!("room"))), None),
    ]
}

fn sys_notifications(g: &mut Gen<'_>) {
    for (value, level) in notif_values() {
        let mut pl = Pl::default();
        if let Some(v) = &value {
            pl.extra.push(("notifications", v.clone()));
        }
        let need = level.unwrap_or(50);
        for delta in [-1i64, 0, 1] {
            for world in actor_worlds(&pl, need + delta, true) {
                let content = world.content();
                for v in [3, 5, 6, 9, 10, 11] {
                    g.emit("sys-notify", base_case(v, content.clone(), OP_NOTIFY_ROOM), 2);
                    // the same contents through the helpers that do not read `notifications`
                    g.emit("sys-notify", base_case(v, content.clone(), OP_FOR_USER), 4);
                    g.emit("sys-notify", base_case(v, content.clone(), OP_BAN_USER), 4);
                }
            }
        }
    }
}

fn sys_for_user(g: &mut Gen<'_>) {
    const MAXI: i64 = 9007199254740991;
    for a in [-MAXI, -51, -1, 0, 1, 49, 50, 51, 100, MAXI] {
        for dflt in shapes(0, &[7, -3, MAXI], &[7]) {
            let pl = put_field(Pl::default(), "users_default", &dflt);
            let mut worlds = vec![
                pl.clone(),
                pl.clone().user(ALICE, Lv::Int(a)),
                pl.clone().user(ALICE, Lv::Str(a.to_string())),
                pl.clone().user(ALICE, Lv::Str(format!("\t{a}\n"))),
                pl.clone().user(BOB, Lv::Int(a)),
                pl.clone().user(BOB, Lv::Int(a)).user(ALICE, Lv::Int(a - a.signum())).user(CAROL, Lv::Int(3)),
            ];
            if a >= 0 {
                worlds.push(pl.clone().user(ALICE, Lv::Str(format!("+{a}"))));
            }
            for world in worlds {
                let content = world.content();
                for v in VERSIONS {
                    g.emit("sys-level", base_case(v, content.clone(), OP_FOR_USER), 5);
                }
            }
        }
    }
}

fn sys_change_level(g: &mut Gen<'_>) {
    for entry in [None, Some(Lv::Int(60))] {
        for sd in shapes(50, &[40], &[]) {
            let mut pl = put_field(Pl::default(), "state_default", &sd);
            if let Some(e) = &entry {
                pl = pl.event("m.room.power_levels", e.clone());
            }
            let need = match &entry {
                Some(Lv::Int(i)) => *i,
                _ => sd.1,
            };
            for delta in [-1i64, 0, 1] {
                let a = need + delta;
                for src in [Src::EntryInt, Src::DefaultInt] {
                    let with_actor = put_actor(pl.clone(), src, a);
                    // the target: the actor, an entry below / at / above the actor, or no entry
                    let mut targets: Vec<(String, Pl, Option<i64>)> = vec![
                        (ALICE.to_owned(), with_actor.clone(), if src == Src::EntryInt { Some(a) } else { None }),
                        (BOB.to_owned(), with_actor.clone(), None),
                    ];
                    for eps in [-1i64, 0, 1] {
                        targets.push((BOB.to_owned(), with_actor.clone().user(BOB, Lv::Int(a + eps)), Some(a + eps)));
                    }
                    for (target, world, cur) in targets {
                        let content = world.content();
                        let mut news = vec![a - 1, a, a + 1];
                        if let Some(cur) = cur {
                            news.push(cur);
                        }
                        news.sort();
                        news.dedup();
                        for n in news {
                            for v in VERSIONS {
                                let mut c = base_case(v, content.clone(), OP_CHANGE_LEVEL);
                                c.target = target.clone();
                                c.n = n;
                                g.emit("sys-change-level", c, 5);
                            }
                        }
                    }
                }
            }
        }
    }
}

fn bad_values() -> Vec<CanonicalJsonValue> {
    let mut v = vec![
        CanonicalJsonValue::Null,
        cj(json!(true)),
        cj(json!([])),
        cj(json!({})),
        cj(json!([50])),
        cj(json!({"50": 50})),
        cj(json!(9007199254740991i64)),
        cj(json!(-9007199254740991i64)),
    ];
    for s in LEVEL_STRINGS {
        v.push(CanonicalJsonValue::String((*s).to_owned()));
    }
    v
}

/// One ill-typed (or unusually written) value in one place of an otherwise ordinary content,
/// through the helpers that do and do not read that place.
fn malformed(g: &mut Gen<'_>) {
    let base = || {
        Pl::default()
            .user(ALICE, Lv::Int(50))
            .user(BOB, Lv::Int(10))
            .event("m.room.message", Lv::Int(50))
            .event("m.room.topic", Lv::Int(50))
            .notif("room", Lv::Int(50))
    };
    let ops: &[(u8, &str)] = &[
        (OP_BAN_USER, ""),
        (OP_KICK_USER, ""),
        (OP_UNBAN_USER, ""),
        (OP_INVITE, ""),
        (OP_SEND_MESSAGE, "m.room.message"),
        (OP_SEND_STATE, "m.room.topic"),
        (OP_SEND_STATE, "m.room.power_levels"),
        (OP_NOTIFY_ROOM, ""),
        (OP_FOR_USER, ""),
        (OP_REDACT_OTHER, ""),
    ];
    let mut contents: Vec<CanonicalJsonObject> = vec![];
    for bad in bad_values() {
        for f in ["ban", "kick", "invite", "redact", "state_default", "events_default", "users_default"] {
            contents.push(base().field(f, Lv::Raw(bad.clone())).content());
        }
        contents.push(base().user(ALICE, Lv::Raw(bad.clone())).content());
        contents.push(base().user(BOB, Lv::Raw(bad.clone())).content());
        contents.push(base().user(CAROL, Lv::Raw(bad.clone())).content());
        contents.push(base().event("m.room.message", Lv::Raw(bad.clone())).content());
        contents.push(base().event("m.room.other", Lv::Raw(bad.clone())).content());
        contents.push(base().notif("room", Lv::Raw(bad.clone())).content());
        contents.push(base().notif("other", Lv::Raw(bad.clone())).content());
        for k in ["users", "events", "notifications", "unknown_field"] {
            let mut p = base();
            p.extra.push((k, bad.clone()));
            contents.push(p.content());
        }
    }
    for key in ["bob", "@bob", "@bob:", "@:s1", "", "@bob:s1:x", "@b\u{0}b:s1", "@BOB:s1", "@bob:s 1", "!bob:s1", "@bob:s1:80"] {
        contents.push(base().user(key, Lv::Int(50)).content());
        contents.push(base().user(key, Lv::Str("x".into())).content());
    }
    for key in ["", "m.room.message ", "M.ROOM.MESSAGE", "m.room.*", "\u{e9}"] {
        contents.push(base().event(key, Lv::Int(99)).content());
    }
    for content in contents {
        for (op, ty) in ops {
            for v in [3u32, 9, 10, 11] {
                let mut c = base_case(v, content.clone(), *op);
                c.ty = (*ty).to_owned();
                if *op == OP_UNBAN_USER {
                    c.tm = Some("ban".to_owned());
                }
                if *op == OP_INVITE {
                    c.tm = Some("leave".to_owned());
                }
                g.emit("malformed", c, 4);
            }
        }
    }
}

const POOL: &[i64] = &[-1, 0, 1, 19, 20, 21, 49, 50, 51, 99, 100, 101];

fn rand_level(r: &mut Rng) -> Lv {
    let x = *r.pick(POOL);
    match r.below(20) {
        0 => Lv::Str(x.to_string()),
        1 => Lv::Str(format!(" {x}")),
        2 if x >= 0 => Lv::Str(format!("+{x}")),
        3 => Lv::Raw(r.pick(&bad_values()).clone()),
        _ => Lv::Int(x),
    }
}

fn random(g: &mut Gen<'_>, r: &mut Rng, n: usize) {
    for _ in 0..n {
        let mut pl = Pl::default();
        for f in ["ban", "kick", "invite", "redact", "state_default", "events_default", "users_default"] {
            if r.chance(1, 2) {
                pl = pl.field(f, rand_level(r));
            }
        }
        for u in [ALICE, BOB, CAROL, CREATOR] {
            if r.chance(1, 2) {
                pl = pl.user(u, rand_level(r));
            }
        }
        if r.chance(1, 8) && pl.users.is_none() {
            pl.users = Some(vec![]);
        }
        let ty_pool: Vec<&str> = MESSAGE_TYPES.iter().chain(STATE_TYPES.iter()).copied().collect();
        for _ in 0..r.below(4) {
            let t: &str = ty_pool[r.below(ty_pool.len())];
            pl = pl.event(t, rand_level(r));
        }
        match r.below(6) {
            0 => pl = pl.notif("room", rand_level(r)),
            1 => pl = pl.notif("other", rand_level(r)),
            2 => pl.extra.push(("notifications", r.pick(&notif_values()).0.clone().unwrap_or(cj(json!({}))))),
            _ => {}
        }
        let op = *r.pick(OPS);
        let mut c = base_case(3 + r.below(9) as u32, pl.content(), op);
        c.tm = r.pick(MEMBERSHIPS).map(str::to_owned);
        if r.chance(1, 12) {
            c.tm = Some("weird".to_owned());
        }
        if r.chance(1, 10) {
            c.target = (*r.pick(&[ALICE, CAROL, CREATOR])).to_owned();
        }
        if r.chance(1, 20) {
            c.actor = CAROL.to_owned();
        }
        match op {
            OP_SEND_MESSAGE => c.ty = (*r.pick(MESSAGE_TYPES)).to_owned(),
            OP_SEND_STATE => {
                c.ty = (*r.pick(STATE_TYPES)).to_owned();
                c.sk = (*r.pick(&["", "", "", ALICE, BOB, "@x", "k"])).to_owned();
            }
            OP_THIRD_PARTY_INVITE => c.sk = "token".to_owned(),
            OP_CHANGE_LEVEL => c.n = *r.pick(POOL),
            _ => {}
        }
        g.emit("random", c, 1);
    }
}

pub fn run(tier: &str, seed: u64, em: &mut Emitter) {
    let thorough = tier == "thorough";
    let mut g = Gen { thorough, em, k: seed.wrapping_mul(0x1000_0000_01B3) };
    sys_one_threshold(&mut g, OP_BAN_USER, "ban", 50);
    sys_one_threshold(&mut g, OP_INVITE, "invite", 0);
    sys_leave(&mut g);
    sys_pairs(&mut g);
    sys_send_message(&mut g);
    sys_send_state(&mut g);
    sys_misc(&mut g);
    sys_notifications(&mut g);
    sys_for_user(&mut g);
    sys_change_level(&mut g);
    malformed(&mut g);
    let mut r = Rng::new(seed ^ 0xC20);
    random(&mut g, &mut r, if thorough { 60_000 } else { 6_000 });
}

pub fn replay(case: &Sx) -> Option<Sx> {
    let c = sx_to_case(case)?;
    Some(run_case(&c))
}

/// The defaults ruma-events gives to the fields of an `m.room.power_levels` content: what `{}`
/// deserializes to, what `RoomPowerLevelsEventContent::new()` holds and what the redacted form
/// deserializes to must agree; one `name = value` per line for tools/translators/c20.py.
pub fn dump(dir: &str) {
    let show = |p: &RoomPowerLevels| -> BTreeMap<&'static str, i64> {
        let mut m = BTreeMap::new();
        m.insert("ban", i64::from(p.ban));
        m.insert("events_default", i64::from(p.events_default));
        m.insert("invite", i64::from(p.invite));
        m.insert("kick", i64::from(p.kick));
        m.insert("redact", i64::from(p.redact));
        m.insert("state_default", i64::from(p.state_default));
        m.insert("users_default", i64::from(p.users_default));
        m.insert("notifications_room", i64::from(p.notifications.room));
        m.insert("events_len", p.events.len() as i64);
        m.insert("users_len", p.users.len() as i64);
        m
    };
    let from_empty: RoomPowerLevels = serde_json::from_str::<RoomPowerLevelsEventContent>("{}").unwrap().into();
    let from_new: RoomPowerLevels = RoomPowerLevelsEventContent::new().into();
    let from_redacted: RoomPowerLevels =
        serde_json::from_str::<RedactedRoomPowerLevelsEventContent>("{}").unwrap().into();
    let mut out = String::new();
    for (tag, p) in [("deserialized", &from_empty), ("new", &from_new), ("redacted", &from_redacted)] {
        for (k, v) in show(p) {
            out.push_str(&format!("{tag}.{k} = {v}\n"));
        }
    }
    let empty_notif: RoomPowerLevels =
        serde_json::from_str::<RoomPowerLevelsEventContent>(r#"{"notifications":{}}"#).unwrap().into();
    out.push_str(&format!("empty_notifications.notifications_room = {}\n", i64::from(empty_notif.notifications.room)));
    std::fs::write(format!("{dir}/power_level_defaults.txt"), out).unwrap();

    // Event-type aliases as the two enums the helpers take read them (the keys of `events` go
    // through TimelineEventType: C08's table).  Probed on every string literal of enums.rs.
    let src = std::fs::read_to_string("/repo/crates/ruma-events/src/enums.rs").unwrap_or_default();
    let mut lits: Vec<String> = vec![];
    for lit in src.split('"') {
        if !lit.is_empty() && lit.len() < 100 && lit.bytes().all(|b| b > 32 && b < 127 && b != b'\\') {
            lits.push(lit.to_owned());
        }
    }
    lits.sort();
    lits.dedup();
    let mut out = String::new();
    for l in &lits {
        let m = ruma_events::TimelineEventType::from(MessageLikeEventType::from(l.as_str())).to_string();
        if &m != l {
            out.push_str(&format!("message\t{l}\t{m}\n"));
        }
        let s = ruma_events::TimelineEventType::from(StateEventType::from(l.as_str())).to_string();
        if &s != l {
            out.push_str(&format!("state\t{l}\t{s}\n"));
        }
    }
    std::fs::write(format!("{dir}/power_level_type_aliases.txt"), out).unwrap();
}
