// C17 — entry table and valid seeds (included by c17.rs).

#[derive(Clone, Copy, PartialEq, Eq)]
enum K {
    /// text handed to a `&str` API (invalid UTF-8 is replaced before the call)
    Text,
    /// bytes handed to a `&[u8]` API: invalid UTF-8 is part of the input space
    Bytes,
    /// JSON text handed over as bytes
    Json,
    Html,
    /// a small selector (endpoint name, room version, mode, operation): mutated rarely
    Sel,
}

struct Entry {
    id: i128,
    name: &'static str,
    kinds: &'static [K],
    f: fn(&[Vec<u8>]) -> Ret,
    seeds: fn() -> Vec<Vec<Vec<u8>>>,
}

/// A message event whose bundled `m.replace` relation is again such an event, `depth` times
/// (`BundledMessageLikeRelations` re-parses the relation from its raw text, so the nesting limit of
/// the JSON parser starts again at every level: reported by a seeding sub-agent).
fn nested_replace(depth: usize) -> String {
    let mut t = String::new();
    for i in 0..depth {
        let head = format!(r##"{{"type":"m.room.message","content":{{"msgtype":"m.text","body":"x"}},"event_id":"$e{i}","sender":"@a:b","origin_server_ts":1"##);
        t = if i == 0 { format!("{head}}}") } else { format!(r##"{head},"unsigned":{{"m.relations":{{"m.replace":{t}}}}}}}"##) };
    }
    t
}

fn s1(xs: &[&str]) -> Vec<Vec<Vec<u8>>> {
    xs.iter().map(|x| vec![x.as_bytes().to_vec()]).collect()
}
fn sp(xs: &[&[&str]]) -> Vec<Vec<Vec<u8>>> {
    xs.iter().map(|ps| ps.iter().map(|x| x.as_bytes().to_vec()).collect()).collect()
}

/// words next to characters of every UTF-8 length class, with no blank between (the word-boundary test of
/// push conditions indexes the body by bytes: seed5 C17-2)
const EV_MESSAGE_SCRIPTS: &str = r##"{"type":"m.room.message","event_id":"$1:example.org","room_id":"!r:example.org","sender":"@example:example.org","origin_server_ts":1,"content":{"msgtype":"m.text","body":"\u0e04\u0e38\u0e13jolly jumper\u0928\u092e \u0800example\u0fff \u07ffexample\u1000 \ud7ffjolly\ue000 \uffffexample\ud800\udc00 \u00e9example\u00e9"}}"##;
const EV_MESSAGE: &str = r##"{"type":"m.room.message","event_id":"$143273582443PhrSn:example.org","room_id":"!jEsUZKDJdhlrceRyVU:example.org","sender":"@example:example.org","origin_server_ts":1432735824653,"unsigned":{"age":1234,"transaction_id":"txn1"},"content":{"msgtype":"m.text","body":"This is an *example* <b>text</b> message for Jolly Jumper","format":"org.matrix.custom.html","formatted_body":"<b>This is an example text message</b>","m.mentions":{"user_ids":["@jolly_jumper:server.name"],"room":true},"m.relates_to":{"m.in_reply_to":{"event_id":"$other:example.org"}}}}"##;
const EV_MEMBER: &str = r##"{"type":"m.room.member","event_id":"$143273582443PhrSn:example.org","room_id":"!jEsUZKDJdhlrceRyVU:example.org","sender":"@example:example.org","origin_server_ts":1432735824653,"state_key":"@alice:example.org","unsigned":{"age":1234,"prev_content":{"membership":"invite"},"invite_room_state":[{"type":"m.room.name","sender":"@bob:example.org","state_key":"","content":{"name":"Example Room"}}]},"content":{"membership":"join","avatar_url":"mxc://example.org/SEsfnsuifSDFSSEF","displayname":"Alice Margatroid","is_direct":true,"join_authorised_via_users_server":"@bob:other.example.org","third_party_invite":{"display_name":"alice","signed":{"mxid":"@alice:example.org","token":"abc123","signatures":{"magic.forest":{"ed25519:3":"fQpGIW1Snz+pwLZu6sTy2aHy/DYWWTspTJRPyNp0PKkymfIsNffysMl6ObMMFdIJhk6g6pwlIqZ54rxo8SLmAg"}}}}}}"##;
const EV_CREATE: &str = r##"{"type":"m.room.create","event_id":"$143273582443PhrSn:example.org","room_id":"!jEsUZKDJdhlrceRyVU:example.org","sender":"@example:example.org","origin_server_ts":1432735824653,"state_key":"","content":{"creator":"@example:example.org","m.federate":true,"room_version":"9","predecessor":{"event_id":"$something:example.org","room_id":"!oldroom:example.org"},"type":"m.space"}}"##;
const EV_POWER: &str = r##"{"type":"m.room.power_levels","event_id":"$143273582443PhrSn:example.org","room_id":"!jEsUZKDJdhlrceRyVU:example.org","sender":"@example:example.org","origin_server_ts":1432735824653,"state_key":"","content":{"ban":50,"events":{"m.room.name":100,"m.room.power_levels":100},"events_default":0,"invite":50,"kick":50,"notifications":{"room":20},"redact":50,"state_default":50,"users":{"@example:localhost":100},"users_default":0}}"##;
const EV_REDACTION: &str = r##"{"type":"m.room.redaction","event_id":"$143273582443PhrSn:example.org","room_id":"!jEsUZKDJdhlrceRyVU:example.org","sender":"@example:example.org","origin_server_ts":1432735824653,"redacts":"$fukweghifu23:localhost","content":{"reason":"Spamming","redacts":"$fukweghifu23:localhost"}}"##;
const EV_REDACTED: &str = r##"{"type":"m.room.message","event_id":"$143273582443PhrSn:example.org","room_id":"!jEsUZKDJdhlrceRyVU:example.org","sender":"@example:example.org","origin_server_ts":1432735824653,"content":{},"unsigned":{"redacted_because":{"type":"m.room.redaction","event_id":"$h29iv0s8:example.com","room_id":"!jEsUZKDJdhlrceRyVU:example.org","sender":"@carl:example.com","origin_server_ts":1,"redacts":"$143273582443PhrSn:example.org","content":{"reason":"x"}}}}"##;
const EV_ENCRYPTED: &str = r##"{"type":"m.room.encrypted","event_id":"$143273582443PhrSn:example.org","room_id":"!jEsUZKDJdhlrceRyVU:example.org","sender":"@example:example.org","origin_server_ts":1432735824653,"content":{"algorithm":"m.megolm.v1.aes-sha2","ciphertext":"AwgAEnACgAkLmt6qF84IK++J7UDH2Za1YVchHyprqTqsg","device_id":"RJYKSTBOIE","sender_key":"IlRMeOPX2e0MurIyfWEucYBRVOEEUMrOHqn/8mLqMjA","session_id":"X3lUlvLELLYxeTx4yOVu6UDpasGEVO0Jbu+QFnm0cKQ","m.relates_to":{"rel_type":"m.thread","event_id":"$root:example.org","is_falling_back":true,"m.in_reply_to":{"event_id":"$x:example.org"}}}}"##;
const EV_REACTION: &str = r##"{"type":"m.reaction","event_id":"$143273582443PhrSn:example.org","room_id":"!jEsUZKDJdhlrceRyVU:example.org","sender":"@example:example.org","origin_server_ts":1432735824653,"content":{"m.relates_to":{"rel_type":"m.annotation","event_id":"$some:example.org","key":"👍"}}}"##;
const EV_JOIN_RULES: &str = r##"{"type":"m.room.join_rules","event_id":"$143273582443PhrSn:example.org","room_id":"!jEsUZKDJdhlrceRyVU:example.org","sender":"@example:example.org","origin_server_ts":1432735824653,"state_key":"","content":{"join_rule":"restricted","allow":[{"type":"m.room_membership","room_id":"!mods:example.org"},{"type":"x.custom","x":1}]}}"##;
const EV_IMAGE: &str = r##"{"type":"m.room.message","event_id":"$143273582443PhrSn:example.org","room_id":"!jEsUZKDJdhlrceRyVU:example.org","sender":"@example:example.org","origin_server_ts":1432735824653,"content":{"msgtype":"m.image","body":"filename.jpg","url":"mxc://example.org/JWEIFJgwEIhweiWJE","info":{"h":398,"w":394,"mimetype":"image/jpeg","size":31037,"thumbnail_info":{"h":3,"w":4,"mimetype":"image/jpeg","size":2},"thumbnail_url":"mxc://example.org/abc"},"file":{"url":"mxc://example.org/FHyPlCeYUSFFxlgbQYZmoEoe","v":"v2","key":{"kty":"oct","key_ops":["encrypt","decrypt"],"alg":"A256CTR","k":"aWF6-32KGYaC3A_FEUCk1Bt0JA37zP0wrStgmdCaW-0","ext":true},"iv":"w+sE15fzSc0AAAAAAAAAAA","hashes":{"sha256":"fdSLu/YkRx3Wyh3KQabP3rd6+SFiKg5lsJZQHtkSAYA"}}}}"##;
const EV_POLL: &str = r##"{"type":"m.room.canonical_alias","event_id":"$143273582443PhrSn:example.org","room_id":"!jEsUZKDJdhlrceRyVU:example.org","sender":"@example:example.org","origin_server_ts":1432735824653,"state_key":"","content":{"alias":"#somewhere:localhost","alt_aliases":["#somewhere:example.org","#myroom:example.com"]}}"##;
const EV_CUSTOM: &str = r##"{"type":"org.example.custom","event_id":"$143273582443PhrSn:example.org","room_id":"!jEsUZKDJdhlrceRyVU:example.org","sender":"@example:example.org","origin_server_ts":1432735824653,"state_key":"k","content":{"a":[1,2,{"b":null}],"c":"d"}}"##;
const EV_TYPING: &str = r##"{"type":"m.typing","room_id":"!jEsUZKDJdhlrceRyVU:example.org","content":{"user_ids":["@alice:matrix.org","@bob:example.com"]}}"##;
const EV_RECEIPT: &str = r##"{"type":"m.receipt","room_id":"!jEsUZKDJdhlrceRyVU:example.org","content":{"$1435641916114394fHBLK:matrix.org":{"m.read":{"@rikj:jki.re":{"ts":1436451550453,"thread_id":"main"}},"m.read.private":{"@self:example.org":{"ts":1661384801651}}}}}"##;
const EV_TO_DEVICE: &str = r##"{"type":"m.room_key","sender":"@alice:example.org","content":{"algorithm":"m.megolm.v1.aes-sha2","room_id":"!Cuyf34gef24t:localhost","session_id":"X3lUlvLELLYxeTx4yOVu6UDpasGEVO0Jbu+QFnm0cKQ","session_key":"AgAAAADxKHa9uFxcXzwYoNueL5Xqi69IkD4sni8LlfJL7qNBEY"}}"##;
const EV_TO_DEVICE2: &str = r##"{"type":"m.key.verification.start","sender":"@alice:example.org","content":{"from_device":"BobDevice1","method":"m.sas.v1","transaction_id":"S0meUniqueAndOpaqueString","hashes":["sha256"],"key_agreement_protocols":["curve25519"],"message_authentication_codes":["hkdf-hmac-sha256.v2","hkdf-hmac-sha256"],"short_authentication_string":["decimal","emoji"]}}"##;
const EV_PUSH_RULES: &str = r##"{"type":"m.push_rules","content":{"global":{"content":[{"actions":["notify",{"set_tweak":"sound","value":"default"},{"set_tweak":"highlight"}],"default":true,"enabled":true,"pattern":"alice","rule_id":".m.rule.contains_user_name"}],"override":[{"actions":[],"conditions":[],"default":true,"enabled":false,"rule_id":".m.rule.master"},{"actions":["notify"],"conditions":[{"key":"content.msgtype","kind":"event_match","pattern":"m.notice"},{"kind":"room_member_count","is":">=2"},{"kind":"sender_notification_permission","key":"room"},{"kind":"contains_display_name"},{"kind":"event_property_is","key":"content.n","value":1},{"kind":"event_property_contains","key":"content.l","value":"x"}],"default":false,"enabled":true,"rule_id":"mine"}],"room":[{"actions":["notify"],"default":false,"enabled":true,"rule_id":"!room:server.name"}],"sender":[{"actions":[],"default":false,"enabled":true,"rule_id":"@user:server.name"}],"underride":[{"actions":["notify",{"set_tweak":"sound","value":"ring"},{"set_tweak":"highlight","value":false}],"conditions":[{"key":"type","kind":"event_match","pattern":"m.call.invite"}],"default":true,"enabled":true,"rule_id":".m.rule.call"}]}}}"##;
const EV_DIRECT: &str = r##"{"type":"m.direct","content":{"@bob:example.com":["!abcdefgh:example.com","!hgfedcba:example.com"]}}"##;
const EV_TAG: &str = r##"{"type":"m.tag","content":{"tags":{"u.work":{"order":0.9},"m.favourite":{}}}}"##;
const EV_FULLY_READ: &str = r##"{"type":"m.fully_read","content":{"event_id":"$someplace:example.org"}}"##;
const EV_STRIPPED: &str = r##"{"type":"m.room.join_rules","sender":"@example:example.org","state_key":"","content":{"join_rule":"invite"}}"##;
const EV_INITIAL: &str = r##"{"type":"m.room.topic","state_key":"","content":{"topic":"hello"}}"##;

const RULESET: &str = r##"{"content":[{"actions":["notify",{"set_tweak":"sound","value":"default"},{"set_tweak":"highlight"}],"default":false,"enabled":true,"pattern":"j?lly*","rule_id":"word"}],"override":[{"actions":[],"conditions":[],"default":true,"enabled":false,"rule_id":".m.rule.master"},{"actions":["notify"],"conditions":[{"key":"content.body","kind":"event_match","pattern":"*example*"},{"kind":"room_member_count","is":">=2"},{"kind":"sender_notification_permission","key":"room"},{"kind":"contains_display_name"},{"kind":"event_property_is","key":"content.msgtype","value":"m.text"},{"kind":"event_property_contains","key":"content.m\\.mentions.user_ids","value":"@jolly_jumper:server.name"}],"default":false,"enabled":true,"rule_id":"mine"}],"room":[{"actions":["notify"],"default":false,"enabled":true,"rule_id":"!room:server.name"}],"sender":[{"actions":[],"default":false,"enabled":true,"rule_id":"@user:server.name"}],"underride":[{"actions":["notify",{"set_tweak":"sound","value":"ring"}],"conditions":[{"key":"type","kind":"event_match","pattern":"m.call.invite"}],"default":false,"enabled":true,"rule_id":"call"}]}"##;
const CTX: &str = r##"{"room_id":"!room:server.name","member_count":3,"user_id":"@jolly_jumper:server.name","display_name":"Jolly Jumper","users":{"@example:example.org":100},"users_default":0,"room":50}"##;

const SIGNED: &str = r##"{"auth_events":[["$a:domain",{"sha256":"x"}]],"content":{"body":"Here is the message content"},"depth":3,"event_id":"$a4ecee13e2accdadf56c1025:domain","hashes":{"sha256":"onLKD1bGljeBWQhWZ1kaP9SorVmRQNdN5aM2JYU2n/g"},"origin":"domain","origin_server_ts":1000000,"prev_events":[],"room_id":"!x:domain","sender":"@a:domain","signatures":{"domain":{"ed25519:1":"KqmLSbO39/Bzb0QIYE82zqLwsA+PDzYIpIRA2sRQ4sL53+sN6/fpNSoqE7BP7vBZhG6kYdD13EIMJpvhJI+6Bw"}},"type":"m.room.message","unsigned":{"age_ts":1000000}}"##;
const PKM: &str = r##"{"domain":{"ed25519:1":"XGX0JRS2Af3be3knz2fBiRbApjm2Dh61gXDJA8kcJNI"}}"##;

const HTML1: &str = r##"<mx-reply><blockquote><a href="https://matrix.to/#/!n8f893n9:example.com/$1598361704261elfgc:localhost">In reply to</a> <a href="https://matrix.to/#/@alice:example.com">@alice:example.com</a><br>Previous message</blockquote></mx-reply><h1 id="t">Title</h1><p>This <em>is</em> <span data-mx-color="#ff0000" data-mx-spoiler="r">a</span> <a href="javascript:x" target="_blank">link</a> <img src="mxc://a/b" alt="i" width="1"><font color="red">f</font><code class="language-rust x">c</code></p><ol start="3"><li>i</li></ol><table><tr><td>c</td></tr></table><script>alert(1)</script><del>d</del><strike>s</strike>"##;

/// elements whose attributes the typed view (`to_matrix`) parses: non-ASCII and boundary values
const HTML_TYPED: &str = "<pre><code class=\"a language-\u{e9}\u{1F980} rust\tx\">c</code><code class=\"language-\u{e9}\u{1F980} language-rust\">d</code></pre><h7>h</h7><h1>h</h1><ol start=\"-3\"><li>i</li></ol><ol start=\"99999999999999999999\"></ol><a href=\"matrix:u/\u{e9}:x?action=\u{e9}\" target=\"\u{e9}\">l</a><a href=\"https://matrix.to/#/%F0%9F\">m</a><span data-mx-color=\"\u{e9}\" data-mx-bg-color=\"#\u{1F980}\" data-mx-spoiler=\"\u{e9} \" data-mx-maths=\"\u{e9}\">s</span><img src=\"mxc://\u{e9}/\u{1F980}\" width=\"\u{e9}\" height=\"-1\" alt=\"\u{e9}\" title=\"\u{1F980}\"><div data-mx-maths=\"\u{e9}\" class=\"\u{e9}\">d</div>";

const DER_V1: &[u8] = &[
    0x30, 0x2e, 0x02, 0x01, 0x00, 0x30, 0x05, 0x06, 0x03, 0x2b, 0x65, 0x70, 0x04, 0x22, 0x04, 0x20, 1, 8, 15, 22, 29,
    36, 43, 50, 57, 64, 71, 78, 85, 92, 99, 106, 113, 120, 127, 134, 141, 148, 155, 162, 169, 176, 183, 190, 197, 204,
    211, 218,
];
/// A document as ring writes it: v2 with the malformed `[1]` wrapper (sentinel A1 23 03 21).
fn der_ring() -> Vec<u8> {
    let mut d = vec![0x30, 0x53, 0x02, 0x01, 0x01, 0x30, 0x05, 0x06, 0x03, 0x2b, 0x65, 0x70, 0x04, 0x22, 0x04, 0x20];
    d.extend_from_slice(&DER_V1[16..]);
    d.extend_from_slice(&[0xA1, 0x23, 0x03, 0x21, 0x00]);
    // the public key belonging to the seed above is not known here: 32 arbitrary bytes (the parse
    // then reports a mismatch, which is an error, not a panic)
    d.extend((0..32u8).map(|i| i.wrapping_mul(5)));
    d
}

fn seeds_from_der() -> Vec<Vec<Vec<u8>>> {
    vec![
        vec![DER_V1.to_vec(), b"1".to_vec()],
        vec![der_ring(), b"1".to_vec()],
        vec![vec![0xA1, 0x23, 0x03, 0x21], b"1".to_vec()],
        vec![vec![0x30, 0x04, 0xA1, 0x23, 0x03, 0x21], b"k".to_vec()],
    ]
}

const SYNC_RESPONSE: &str = r##"{"next_batch":"s72595_4483_1934","account_data":{"events":[{"type":"m.direct","content":{}}]},"presence":{"events":[{"type":"m.presence","sender":"@example:localhost","content":{"presence":"online","last_active_ago":2478593,"currently_active":false,"avatar_url":"mxc://localhost/wefuiwegh8742w"}}]},"to_device":{"events":[]},"device_lists":{"changed":["@alice:example.com"],"left":[]},"device_one_time_keys_count":{"signed_curve25519":20},"device_unused_fallback_key_types":["signed_curve25519"],"rooms":{"join":{"!726s6s6q:example.com":{"summary":{"m.heroes":["@alice:example.com"],"m.joined_member_count":2,"m.invited_member_count":0},"state":{"events":[{"type":"m.room.member","event_id":"$1:example.org","sender":"@alice:example.org","origin_server_ts":1,"state_key":"@alice:example.org","content":{"membership":"join"}}]},"timeline":{"events":[{"type":"m.room.message","event_id":"$2:example.org","sender":"@bob:example.org","origin_server_ts":2,"content":{"msgtype":"m.text","body":"hi"}}],"limited":true,"prev_batch":"t34-23535_0_0"},"ephemeral":{"events":[{"type":"m.typing","content":{"user_ids":["@alice:matrix.org"]}}]},"account_data":{"events":[{"type":"m.tag","content":{"tags":{"u.work":{"order":0.9}}}}]},"unread_notifications":{"highlight_count":1,"notification_count":5}}},"invite":{"!696r7674:example.com":{"invite_state":{"events":[{"type":"m.room.name","sender":"@alice:example.com","state_key":"","content":{"name":"My Room Name"}}]}}},"knock":{},"leave":{}}}"##;
const TXN_BODY: &str = r##"{"origin":"matrix.org","origin_server_ts":1234567890,"pdus":[{"type":"m.room.message","room_id":"!x:matrix.org","sender":"@a:matrix.org","origin_server_ts":1,"depth":1,"prev_events":[],"auth_events":[],"hashes":{"sha256":"x"},"signatures":{},"content":{"body":"b","msgtype":"m.text"}}],"edus":[{"edu_type":"m.typing","content":{"room_id":"!x:matrix.org","user_id":"@a:matrix.org","typing":true}},{"edu_type":"m.device_list_update","content":{"user_id":"@a:matrix.org","device_id":"D","stream_id":6,"prev_id":[5],"keys":{"user_id":"@a:matrix.org","device_id":"D","algorithms":["m.olm.v1.curve25519-aes-sha2"],"keys":{"curve25519:D":"x"},"signatures":{}}}},{"edu_type":"m.receipt","content":{"!x:matrix.org":{"m.read":{"@a:matrix.org":{"data":{"ts":1},"event_ids":["$e:matrix.org"]}}}}},{"edu_type":"x.custom","content":{}}]}"##;

fn http_request_seeds() -> Vec<Vec<Vec<u8>>> {
    let j = "content-type: application/json\nauthorization: Bearer tok";
    sp(&[
        &["message::send_message_event::v3", "PUT", "https://hs.example/_matrix/client/v3/rooms/%21r%3Ahs.example/send/m.room.message/txn1", j, "!r:hs.example\nm.room.message\ntxn1", r##"{"msgtype":"m.text","body":"hi"}"##],
        &["sync::sync_events::v3", "GET", "https://hs.example/_matrix/client/v3/sync?filter=%7B%22room%22%3A%7B%7D%7D&since=s1&full_state=true&set_presence=offline&timeout=30000", j, "", ""],
        &["session::login::v3", "POST", "https://hs.example/_matrix/client/v3/login", j, "", r##"{"type":"m.login.password","identifier":{"type":"m.id.user","user":"alice"},"password":"pw","device_id":"D","initial_device_display_name":"n","refresh_token":true}"##],
        &["room::create_room::v3", "POST", "https://hs.example/_matrix/client/v3/createRoom", j, "", r##"{"creation_content":{"m.federate":false},"initial_state":[{"type":"m.room.topic","state_key":"","content":{"topic":"t"}}],"invite":["@a:b.c"],"invite_3pid":[{"id_server":"i.d","id_access_token":"t","medium":"email","address":"a@b.c"}],"is_direct":true,"name":"n","power_level_content_override":{"ban":1},"preset":"public_chat","room_alias_name":"a","room_version":"9","topic":"t","visibility":"public"}"##],
        &["state::send_state_event::v3", "PUT", "https://hs.example/_matrix/client/v3/rooms/%21r%3Ahs.example/state/m.room.name/", j, "!r:hs.example\nm.room.name\n", r##"{"name":"n"}"##],
        &["keys::upload_keys::v3", "POST", "https://hs.example/_matrix/client/v3/keys/upload", j, "", r##"{"device_keys":{"user_id":"@a:b.c","device_id":"D","algorithms":["m.olm.v1.curve25519-aes-sha2","m.megolm.v1.aes-sha2"],"keys":{"curve25519:D":"x","ed25519:D":"y"},"signatures":{"@a:b.c":{"ed25519:D":"z"}}},"one_time_keys":{"signed_curve25519:AAAAHg":{"key":"k","signatures":{"@a:b.c":{"ed25519:D":"s"}}},"curve25519:AAAAAQ":"/qyvZvwjiTxGdGU0RCguDCLeR+nmsb3FfNG3/Ve4vU8"}}"##],
        &["message::get_message_events::v3", "GET", "https://hs.example/_matrix/client/v3/rooms/%21r%3Ahs.example/messages?dir=b&from=t1&limit=10&filter=%7B%22types%22%3A%5B%22m.room.message%22%5D%7D", j, "!r:hs.example", ""],
        &["push::set_pushrule::v3", "PUT", "https://hs.example/_matrix/client/v3/pushrules/global/override/mine?before=a&after=b", j, "override\nmine", r##"{"actions":["notify"],"conditions":[{"kind":"event_match","key":"type","pattern":"m.*"}]}"##],
        &["transactions::send_transaction_message::v1", "PUT", "https://hs.example/_matrix/federation/v1/send/txn", "content-type: application/json\nauthorization: X-Matrix origin=\"matrix.org\",destination=\"hs.example\",key=\"ed25519:1\",sig=\"aGVsbG8\"", "txn", TXN_BODY],
        &["event::get_missing_events::v1", "POST", "https://hs.example/_matrix/federation/v1/get_missing_events/%21r%3Ahs.example", "content-type: application/json", "!r:hs.example", r##"{"limit":10,"min_depth":0,"earliest_events":["$a:b.c"],"latest_events":["$d:e.f"]}"##],
        &["membership::create_join_event::v2", "PUT", "https://hs.example/_matrix/federation/v2/send_join/%21r%3Ahs.example/%24e%3Ahs.example?omit_members=true", "content-type: application/json", "!r:hs.example\n$e:hs.example", r##"{"type":"m.room.member","content":{"membership":"join"}}"##],
        &["media::create_content::v3", "POST", "https://hs.example/_matrix/media/v3/upload?filename=f.png", "content-type: image/png\nauthorization: Bearer t", "", "\u{89}PNG"],
        &["thirdparty::get_user_for_protocol::v3", "GET", "https://hs.example/_matrix/client/v3/thirdparty/user/irc?a=b&c=d&a=e", j, "irc", ""],
        &["send_event_notification::v1", "POST", "https://push.example/_matrix/push/v1/notify", "content-type: application/json", "", r##"{"notification":{"event_id":"$e:b.c","room_id":"!r:b.c","type":"m.room.message","sender":"@a:b.c","sender_display_name":"A","room_name":"R","room_alias":"#a:b.c","user_is_target":false,"prio":"high","content":{"msgtype":"m.text","body":"x"},"counts":{"unread":2,"missed_calls":1},"devices":[{"app_id":"a","pushkey":"k","pushkey_ts":1,"data":{"format":"event_id_only"},"tweaks":{"sound":"bing"}}]}}"##],
    ])
}

fn http_response_seeds() -> Vec<Vec<Vec<u8>>> {
    let j = "content-type: application/json";
    sp(&[
        &["sync::sync_events::v3", "200", j, SYNC_RESPONSE],
        &["message::get_message_events::v3", "200", j, r##"{"start":"t1","end":"t2","chunk":[{"type":"m.room.message","event_id":"$2:example.org","room_id":"!r:b.c","sender":"@bob:example.org","origin_server_ts":2,"content":{"msgtype":"m.text","body":"hi"}}],"state":[]}"##],
        &["session::login::v3", "200", j, r##"{"user_id":"@a:b.c","access_token":"t","device_id":"D","well_known":{"m.homeserver":{"base_url":"https://b.c"},"m.identity_server":{"base_url":"https://i.d"}},"refresh_token":"r","expires_in_ms":60000}"##],
        &["session::get_login_types::v3", "200", j, r##"{"flows":[{"type":"m.login.password"},{"type":"m.login.sso","identity_providers":[{"id":"x","name":"X","icon":"mxc://a/b","brand":"github"}]},{"type":"m.login.token","get_login_token":true},{"type":"x.custom","a":1}]}"##],
        &["keys::get_keys::v3", "200", j, r##"{"failures":{"x.y":{"a":1}},"device_keys":{"@a:b.c":{"D":{"user_id":"@a:b.c","device_id":"D","algorithms":["m.olm.v1.curve25519-aes-sha2"],"keys":{"curve25519:D":"x","ed25519:D":"y"},"signatures":{"@a:b.c":{"ed25519:D":"z"}},"unsigned":{"device_display_name":"n"}}}},"master_keys":{"@a:b.c":{"user_id":"@a:b.c","usage":["master"],"keys":{"ed25519:base64+master+public+key":"base64+master+public+key"}}}}"##],
        &["discovery::get_capabilities::v3", "200", j, r##"{"capabilities":{"m.change_password":{"enabled":false},"m.room_versions":{"default":"9","available":{"1":"stable","9":"stable","x":"unstable"}},"m.set_displayname":{"enabled":true},"x.custom":{"a":[1]}}}"##],
        &["discovery::get_supported_versions", "200", j, r##"{"versions":["r0.6.1","v1.1","v1.11","v9.9","x"],"unstable_features":{"org.matrix.e2e_cross_signing":true}}"##],
        &["transactions::send_transaction_message::v1", "200", j, r##"{"pdus":{"$e:b.c":{},"$f:b.c":{"error":"nope"}}}"##],
        &["discovery::get_server_keys::v2", "200", j, r##"{"server_name":"b.c","verify_keys":{"ed25519:abc123":{"key":"VGhpcyBzaG91bGQgYmUgYSByZWFsIGVkMjU1MTkgcGF5bG9hZA"}},"old_verify_keys":{"ed25519:0ldk3y":{"expired_ts":1532645052628,"key":"VGhpcyBzaG91bGQgYmUgeW91ciBvbGQga2V5J3MgZWQyNTUxOSBwYXlsb2FkLg"}},"signatures":{"b.c":{"ed25519:abc123":"VGhpcyBzaG91bGQgYWN0dWFsbHkgYmUgYSBzaWduYXR1cmU"}},"valid_until_ts":1652262000000}"##],
        &["membership::create_join_event::v2", "200", j, r##"{"auth_chain":[{"type":"m.room.create"}],"state":[{"a":1}],"event":{"type":"m.room.member"},"members_omitted":true,"servers_in_room":["b.c"]}"##],
        &["authenticated_media::get_content::v1", "200", "content-type: image/png\ncontent-disposition: attachment; filename=\"a b.png\"; filename*=utf-8''a%20b.png", "\u{89}PNG"],
        // federation media: multipart/mixed bodies (metadata part, then the file or a Location)
        &["ruma_federation_api::authenticated_media::get_content::v1", "200", "content-type: multipart/mixed; boundary=abc", "\r\n--abc\r\nContent-Type: application/json\r\n\r\n{}\r\n--abc\r\nContent-Type: text/plain\r\nContent-Disposition: attachment; filename=a.txt\r\n\r\nsome plain text\r\n--abc--"],
        &["ruma_federation_api::authenticated_media::get_content::v1", "200", "content-type: multipart/mixed; boundary=abc", "--abc\nContent-Type: application/json\n\n{}\r\n--abc\nLocation: https://cdn.example/x\n\n\r\n--abc--\r\n"],
        &["ruma_federation_api::authenticated_media::get_content_thumbnail::v1", "200", "content-type: multipart/mixed; boundary=\"x y\"", "preamble\r\n--x y\r\nContent-Type: application/json\r\n\r\n{}\r\n--x y\r\nContent-Type: image/png\r\n\r\n\u{89}PNG\r\n--x y--epilogue"],
        &["ruma_federation_api::authenticated_media::get_content::v1", "200", "content-type: multipart/mixed; boundary=abc", "--abc\r\n--abc\r\n--abc--"],
        &["media::get_content::v3", "200", "content-type: text/plain\ncontent-disposition: inline; filename=x.txt\ncross-origin-resource-policy: cross-origin", "hello"],
        &["account::whoami::v3", "401", j, r##"{"errcode":"M_UNKNOWN_TOKEN","error":"Unrecognised access token","soft_logout":true}"##],
        &["room::create_room::v3", "429", j, r##"{"errcode":"M_LIMIT_EXCEEDED","error":"Too many requests","retry_after_ms":2000}"##],
        &["uiaa", "401", j, r##"{"flows":[{"stages":["m.login.password"]},{"stages":["m.login.recaptcha","m.login.dummy"]}],"params":{"m.login.recaptcha":{"public_key":"k"}},"session":"xxxxxx","completed":["m.login.dummy"],"errcode":"M_FORBIDDEN","error":"e"}"##],
    ])
}

fn entries() -> Vec<Entry> {
    use K::*;
    vec![
        // ---- identifiers ------------------------------------------------------------------------
        Entry { id: 1, name: "UserId", kinds: &[Text], f: e_user_id, seeds: || s1(&["@alice:example.org", "@a-b_c.d=e/f+1:[::1]:8448", "@Alice:1.2.3.4", "@:x"]) },
        Entry { id: 2, name: "RoomId", kinds: &[Text], f: e_room_id, seeds: || s1(&["!jEsUZKDJdhlrceRyVU:example.org", "!opaque_v12_id", "!a:b:1"]) },
        Entry { id: 3, name: "RoomAliasId", kinds: &[Text], f: e_room_alias_id, seeds: || s1(&["#room:example.org", "#r\u{e9}:x.y:80"]) },
        Entry { id: 4, name: "EventId", kinds: &[Text], f: e_event_id, seeds: || s1(&["$143273582443PhrSn:example.org", "$Rqnc-F-dvnEYJTyHq_iKxU2bZ1CI92-kuZq3a5lr5Zg", "$acR1l0raoZnm60CBwAVgqbZqoO/mYU81xysh1u7XcJk"]) },
        Entry { id: 5, name: "RoomOrAliasId", kinds: &[Text], f: e_room_or_alias_id, seeds: || s1(&["!r:example.org", "#a:example.org"]) },
        Entry { id: 6, name: "ServerName", kinds: &[Text], f: e_server_name, seeds: || s1(&["example.org", "matrix.org:8448", "1.2.3.4:80", "[1234:5678::abcd]:5678", "[::1]"]) },
        Entry { id: 7, name: "DeviceKeyId", kinds: &[Text], f: e_device_key_id, seeds: || s1(&["ed25519:JLAFKJWSCS", "curve25519:D", "x.custom:dev ice"]) },
        Entry { id: 8, name: "ServerSigningKeyId", kinds: &[Text], f: e_server_signing_key_id, seeds: || s1(&["ed25519:abc123", "ed25519:a_1"]) },
        Entry { id: 9, name: "MxcUri", kinds: &[Text], f: e_mxc_uri, seeds: || s1(&["mxc://example.org/SEsfnsuifSDFSSEF", "mxc://[::1]:80/a-b_c"]) },
        Entry { id: 10, name: "RoomVersionId", kinds: &[Text], f: e_room_version_id, seeds: || s1(&["1", "11", "org.custom.v"]) },
        Entry { id: 11, name: "ClientSecret", kinds: &[Text], f: e_client_secret, seeds: || s1(&["this=is_a.test-secret"]) },
        Entry { id: 12, name: "Base64PublicKey", kinds: &[Text], f: e_base64_public_key, seeds: || s1(&["GXYaxqhNhUK28zUdxOmEsFRguz+PzBsDlTLlF0O0RkM"]) },
        Entry { id: 13, name: "CrossSigningKeyId", kinds: &[Text], f: e_cross_signing_key_id, seeds: || s1(&["ed25519:GXYaxqhNhUK28zUdxOmEsFRguz+PzBsDlTLlF0O0RkM"]) },
        Entry { id: 14, name: "OneTimeKeyId", kinds: &[Text], f: e_one_time_key_id, seeds: || s1(&["signed_curve25519:AAAAHg"]) },
        Entry { id: 15, name: "SessionId", kinds: &[Text], f: e_session_id, seeds: || s1(&["abcDEF0189_-"]) },
        Entry { id: 16, name: "ServerSigningKeyVersion", kinds: &[Text], f: e_signing_key_version, seeds: || s1(&["abc_123"]) },
        Entry { id: 17, name: "VoipVersionId", kinds: &[Text], f: e_voip_version_id, seeds: || s1(&["1", "org.custom"]) },
        // ---- URIs, base64 -------------------------------------------------------------------------
        Entry { id: 20, name: "MatrixUri::parse", kinds: &[Text], f: e_matrix_uri, seeds: || s1(&["matrix:u/jplatte:notareal.hs?action=chat", "matrix:r/ruma:notareal.hs/e/event:notareal.hs?via=a.b&via=c.d", "matrix:roomid/room:x.y?action=join&via=x.y", "matrix:roomid/r:x/e/abc%2Fdef?action=x.custom"]) },
        Entry { id: 21, name: "MatrixToUri::parse", kinds: &[Text], f: e_matrix_to_uri, seeds: || s1(&["https://matrix.to/#/@jplatte:notareal.hs", "https://matrix.to/#/%23ruma:notareal.hs/%24event%3Anotareal.hs?via=notareal.hs&via=a.b", "https://matrix.to/#/!ruma:notareal.hs/$event:notareal.hs/", "https://matrix.to/#/$e:x.y/!r:x.y"]) },
        Entry { id: 22, name: "Base64<Standard>::parse", kinds: &[Bytes], f: e_base64_std, seeds: || s1(&["aGVsbG8gd29ybGQ", "aGVsbG8gd29ybGQ=", "+/+/"]) },
        Entry { id: 23, name: "Base64<UrlSafe>::parse", kinds: &[Bytes], f: e_base64_url, seeds: || s1(&["aGVsbG8gd29ybGQ", "-_-_"]) },
        // ---- header values ------------------------------------------------------------------------
        Entry { id: 30, name: "ContentDisposition::try_from(&[u8])", kinds: &[Bytes], f: e_content_disposition, seeds: || s1(&[
            "inline", "attachment;", "custom; foo=bar; foo*=utf-8''b%C3%A0r'", "inline; filename=my_file",
            "  INLINE   ;FILENAME =   my_file   ", r##"attachment; filename*=iso-8859-1''foo-%E4.html; filename="foo-a.html""##,
            "form-data; name=upload; filename=\"\u{6587}\u{4ef6}.webp\"", r##"attachment; filename="a \"b\" \\c.txt"; x=y"##,
            "attachment; filename*=UTF-8'en'%e2%82%ac%20rates; filename=\"EURO rates\"", "attachment; filename*=utf-8''%ff%zz%4",
            "attachment; filename*=\"utf-8''q\"; filename*=utf-8'x", "a;b;;=;c=\"", "attachment; filename=\"unterminated\\",
        ]) },
        Entry { id: 31, name: "ContentDispositionType::try_from", kinds: &[Bytes], f: e_content_disposition_type, seeds: || s1(&["inline", "ATTACHMENT", "form-data"]) },
        Entry { id: 32, name: "TokenString::try_from", kinds: &[Bytes], f: e_token_string, seeds: || s1(&["token!#$%&'*+-.^_`|~09azAZ"]) },
        Entry { id: 33, name: "XMatrix::parse", kinds: &[Text], f: e_xmatrix, seeds: || s1(&[
            r##"X-Matrix origin=origin.hs.example.com,destination="destination.hs.example.com",key="ed25519:key1",sig="dGVzdA==""##,
            r##"X-Matrix origin="[::1]:8448",key="ed25519:a_1",sig=aGVsbG8"##, "Bearer abc, X-Matrix origin=a.b,key=\"ed25519:1\",sig=\"x\\\"y\"",
        ]) },
        Entry { id: 34, name: "XMatrix::try_from(&HeaderValue)", kinds: &[Bytes], f: e_xmatrix_header, seeds: || s1(&[r##"X-Matrix origin=a.b,key="ed25519:k",sig="dGVzdA""##]) },
        // ---- JSON ---------------------------------------------------------------------------------
        Entry { id: 40, name: "CanonicalJsonValue (from_slice, try_from Value, to_canonical_value)", kinds: &[Json], f: e_canonical_json, seeds: || s1(&[r##"{"a":[1,-2,{"b":null,"c":true}],"d":"eé👍","f":{},"g":9007199254740991}"##, SIGNED]) },
        Entry { id: 41, name: "AnyTimelineEvent", kinds: &[Json], f: e_any_timeline, seeds: || s1(&[EV_MESSAGE, EV_MEMBER, EV_CREATE, EV_POWER, EV_REDACTION, EV_REDACTED, EV_ENCRYPTED, EV_REACTION, EV_JOIN_RULES, EV_IMAGE, EV_POLL, EV_CUSTOM]) },
        Entry { id: 42, name: "AnySyncTimelineEvent", kinds: &[Json], f: e_any_sync_timeline, seeds: || { let mut v = s1(&[EV_MESSAGE, EV_MEMBER, EV_REDACTED, EV_ENCRYPTED, EV_IMAGE, EV_CUSTOM]); for d in [1usize, 2, 20, 120, 130, 300, 1000, 4000] { v.push(vec![nested_replace(d).into_bytes()]); } v } },
        Entry { id: 43, name: "AnyStateEvent", kinds: &[Json], f: e_any_state, seeds: || s1(&[EV_MEMBER, EV_CREATE, EV_POWER, EV_JOIN_RULES, EV_POLL, EV_CUSTOM]) },
        Entry { id: 44, name: "AnySyncStateEvent", kinds: &[Json], f: e_any_sync_state, seeds: || s1(&[EV_MEMBER, EV_CREATE, EV_POWER, EV_JOIN_RULES]) },
        Entry { id: 45, name: "AnyStrippedStateEvent", kinds: &[Json], f: e_any_stripped_state, seeds: || s1(&[EV_STRIPPED, EV_MEMBER, EV_CREATE]) },
        Entry { id: 46, name: "AnyInitialStateEvent", kinds: &[Json], f: e_any_initial_state, seeds: || s1(&[EV_INITIAL, EV_STRIPPED]) },
        Entry { id: 47, name: "AnyMessageLikeEvent", kinds: &[Json], f: e_any_message_like, seeds: || s1(&[EV_MESSAGE, EV_REDACTION, EV_ENCRYPTED, EV_REACTION, EV_IMAGE]) },
        Entry { id: 48, name: "AnySyncMessageLikeEvent", kinds: &[Json], f: e_any_sync_message_like, seeds: || s1(&[EV_MESSAGE, EV_REDACTED, EV_REACTION]) },
        Entry { id: 49, name: "AnyToDeviceEvent", kinds: &[Json], f: e_any_to_device, seeds: || s1(&[EV_TO_DEVICE, EV_TO_DEVICE2]) },
        Entry { id: 50, name: "AnyEphemeralRoomEvent", kinds: &[Json], f: e_any_ephemeral, seeds: || s1(&[EV_TYPING, EV_RECEIPT]) },
        Entry { id: 51, name: "AnySyncEphemeralRoomEvent", kinds: &[Json], f: e_any_sync_ephemeral, seeds: || s1(&[EV_TYPING, EV_RECEIPT]) },
        Entry { id: 52, name: "AnyGlobalAccountDataEvent", kinds: &[Json], f: e_any_global_account_data, seeds: || s1(&[EV_PUSH_RULES, EV_DIRECT]) },
        Entry { id: 53, name: "AnyRoomAccountDataEvent", kinds: &[Json], f: e_any_room_account_data, seeds: || s1(&[EV_TAG, EV_FULLY_READ]) },
        Entry { id: 54, name: "Raw::{deserialize, deserialize_as, get_field}", kinds: &[Json, Text], f: e_raw, seeds: || sp(&[&[EV_MESSAGE, "type"], &[EV_MEMBER, "content"], &[EV_CUSTOM, "state_key"], &[EV_REDACTED, "unsigned"]]) },
        Entry { id: 55, name: "Any*EventContent::from_parts", kinds: &[Text, Json], f: e_content_from_type, seeds: || sp(&[&["m.room.message", r##"{"msgtype":"m.text","body":"hi"}"##], &["m.room.member", r##"{"membership":"join"}"##], &["m.typing", r##"{"user_ids":[]}"##], &["m.secret_storage.key.abc", r##"{"algorithm":"m.secret_storage.v1.aes-hmac-sha2","iv":"YWJj","mac":"YWJj"}"##], &["m.room_key", r##"{"algorithm":"m.megolm.v1.aes-sha2","room_id":"!r:x","session_id":"s","session_key":"k"}"##]]) },
        Entry { id: 56, name: "RoomPowerLevelsEventContent", kinds: &[Json], f: e_power_levels_content, seeds: || s1(&[r##"{"ban":50,"events":{"m.room.name":"100"},"events_default":0,"invite":50,"kick":50,"notifications":{"room":20},"redact":50,"state_default":50,"users":{"@example:localhost":100},"users_default":0}"##]) },
        Entry { id: 57, name: "RoomMemberEventContent", kinds: &[Json], f: e_member_content, seeds: || s1(&[r##"{"membership":"invite","displayname":"A","third_party_invite":{"display_name":"a","signed":{"mxid":"@a:b.c","token":"t","signatures":{"x.y":{"ed25519:1":"c2ln"}}}}}"##]) },
        Entry { id: 58, name: "RoomMessageEventContent", kinds: &[Json], f: e_message_content, seeds: || s1(&[r##"{"msgtype":"m.text","body":"> <@a:b.c> x\n\nhi","format":"org.matrix.custom.html","formatted_body":"<mx-reply>x</mx-reply>hi","m.relates_to":{"m.in_reply_to":{"event_id":"$e:b.c"}},"m.new_content":{"msgtype":"m.text","body":"y"}}"##, r##"{"msgtype":"m.location","body":"l","geo_uri":"geo:1,2","info":{"thumbnail_url":"mxc://a/b"}}"##, r##"{"msgtype":"x.custom","body":"b","k":[1]}"##]) },
        Entry { id: 59, name: "RoomCreateEventContent", kinds: &[Json], f: e_create_content, seeds: || s1(&[r##"{"creator":"@a:b.c","m.federate":false,"room_version":"11","predecessor":{"event_id":"$e:b.c","room_id":"!r:b.c"},"type":"m.space"}"##]) },
        Entry { id: 60, name: "ReceiptEventContent", kinds: &[Json], f: e_receipt_content, seeds: || s1(&[r##"{"$e:b.c":{"m.read":{"@a:b.c":{"ts":1,"thread_id":"$t:b.c"}},"x.custom":{"@a:b.c":{}}}}"##]) },
        // ---- push rules ---------------------------------------------------------------------------
        Entry { id: 62, name: "Ruleset (deserialize)", kinds: &[Json], f: e_ruleset_json, seeds: || s1(&[RULESET]) },
        Entry { id: 63, name: "PushCondition (deserialize)", kinds: &[Json], f: e_push_condition_json, seeds: || s1(&[r##"{"kind":"event_match","key":"content.body","pattern":"a*b?c"}"##, r##"{"kind":"room_member_count","is":"<=10"}"##, r##"{"kind":"event_property_is","key":"a\\.b.c","value":null}"##, r##"{"kind":"x.custom","a":1}"##]) },
        Entry { id: 64, name: "Vec<Action> (deserialize)", kinds: &[Json], f: e_action_json, seeds: || s1(&[r##"["notify","dont_notify","coalesce",{"set_tweak":"sound","value":"default"},{"set_tweak":"highlight","value":false},{"set_tweak":"x","value":{"a":1}}]"##]) },
        Entry { id: 65, name: "Ruleset::get_match / get_actions", kinds: &[Json, Json, Json], f: e_get_match, seeds: || sp(&[&[RULESET, EV_MESSAGE, CTX], &["default", EV_MESSAGE, CTX], &["default", EV_MEMBER, CTX], &[RULESET, EV_CUSTOM, r##"{"no_pl":1}"##]]) },
        Entry { id: 66, name: "PushCondition::applies", kinds: &[Json, Json, Json], f: e_cond_applies, seeds: || sp(&[
            &[r##"{"kind":"event_match","key":"content.body","pattern":"*ex?mple*"}"##, EV_MESSAGE, CTX],
            &[r##"{"kind":"event_match","key":"room_id","pattern":"!jEsU*"}"##, EV_MESSAGE, CTX],
            &[r##"{"kind":"contains_display_name"}"##, EV_MESSAGE, CTX],
            &[r##"{"kind":"contains_display_name"}"##, EV_MESSAGE_SCRIPTS, CTX],
            &[r##"{"kind":"event_match","key":"content.body","pattern":"example"}"##, EV_MESSAGE_SCRIPTS, CTX],
            &[r##"{"kind":"event_match","key":"content.body","pattern":"jolly"}"##, EV_MESSAGE_SCRIPTS, CTX],
            &[r##"{"kind":"room_member_count","is":"==3"}"##, EV_MESSAGE, CTX],
            &[r##"{"kind":"sender_notification_permission","key":"room"}"##, EV_MESSAGE, CTX],
            &[r##"{"kind":"event_property_contains","key":"content.m\\.mentions.user_ids","value":"@jolly_jumper:server.name"}"##, EV_MESSAGE, CTX],
            &[r##"{"kind":"event_property_is","key":"content.m\\.mentions.room","value":true}"##, EV_MESSAGE, CTX],
        ]) },
        Entry { id: 67, name: "FlattenedJson::from_raw / get", kinds: &[Json, Text], f: e_flattened, seeds: || sp(&[&[EV_MESSAGE, "content.body"], &[EV_MESSAGE, r"content.m\.mentions.user_ids"], &[r##"{"":{"":1},"a.b":{"c\\d":[1,"x",null]}}"##, r"a\.b.c\\d"]]) },
        Entry { id: 68, name: "Ruleset::insert", kinds: &[Json, Sel, Json, Text, Text], f: e_ruleset_insert, seeds: || sp(&[
            &["empty", "override", r##"{"rule_id":"a","conditions":[],"actions":["notify"]}"##, "", ""],
            &[RULESET, "override", r##"{"rule_id":"new","conditions":[{"kind":"contains_display_name"}],"actions":[]}"##, "=mine", ""],
            &[RULESET, "override", r##"{"rule_id":"mine","conditions":[],"actions":[]}"##, "", "=mine"],
            &[RULESET, "content", r##"{"rule_id":"w2","pattern":"x*","actions":["notify"]}"##, "=word", "=word"],
            &["default", "underride", r##"{"rule_id":"u","conditions":[],"actions":[]}"##, "=.m.rule.call", ""],
            &[RULESET, "room", r##"{"rule_id":"!other:server.name","actions":[]}"##, "", "=!room:server.name"],
            &[RULESET, "sender", r##"{"rule_id":"@other:server.name","actions":[]}"##, "=nope", ""],
        ]) },
        Entry { id: 69, name: "Ruleset::{remove, set_enabled, set_actions, get}", kinds: &[Json, Sel, Sel, Text, Json], f: e_ruleset_edit, seeds: || sp(&[
            &[RULESET, "remove", "override", "mine", ""], &[RULESET, "remove", "override", ".m.rule.master", ""], &["default", "disable", "underride", ".m.rule.call", ""],
            &[RULESET, "enable", "content", "word", ""], &[RULESET, "actions", "room", "!room:server.name", r##"["notify"]"##], &[RULESET, "get", "sender", "@user:server.name", ""], &["empty", "remove", "x.custom", "a", ""],
        ]) },
        // ---- signatures, hashes, keys -------------------------------------------------------------
        Entry { id: 70, name: "sign_json", kinds: &[Text, Text, Json], f: e_sign_json, seeds: || sp(&[&["domain", "1", SIGNED], &["other.example", "key_2", r##"{"a":1,"signatures":{"other.example":{"ed25519:x":"eA"}},"unsigned":{"b":2}}"##], &["", "", "{}"]]) },
        Entry { id: 71, name: "verify_json", kinds: &[Json, Json], f: e_verify_json, seeds: || sp(&[&[PKM, SIGNED], &[PKM, r##"{"signatures":{"domain":{"ed25519:1":"AAAA","x:y":"b","ed25519:2":"c"}}}"##]]) },
        Entry { id: 72, name: "verify_event", kinds: &[Json, Json, Sel], f: e_verify_event, seeds: || sp(&[&[PKM, SIGNED, "1"], &[PKM, SIGNED, "9"], &[PKM, EV_MEMBER, "11"]]) },
        Entry { id: 73, name: "hash_and_sign_event", kinds: &[Text, Text, Json, Sel], f: e_hash_and_sign, seeds: || sp(&[&["domain", "1", SIGNED, "5"], &["domain", "1", EV_MEMBER, "11"], &["domain", "1", EV_POWER, "1"]]) },
        Entry { id: 74, name: "content_hash / reference_hash / canonical_json", kinds: &[Json, Sel], f: e_hashes, seeds: || sp(&[&[SIGNED, "1"], &[SIGNED, "4"], &[EV_CREATE, "11"]]) },
        Entry { id: 75, name: "redact", kinds: &[Json, Sel], f: e_redact, seeds: || sp(&[&[EV_MEMBER, "9"], &[EV_MEMBER, "11"], &[EV_POWER, "1"], &[EV_CREATE, "11"], &[EV_JOIN_RULES, "8"]]) },
        Entry { id: 77, name: "content sub-structures read on their own (Restricted, AllowRule, JoinRule, power levels, member)", kinds: &[Json, Sel], f: e_content_parts, seeds: || sp(&[&[r##"{"allow":[{"type":"m.room_membership","room_id":"!a:b.c"},{"type":"x.custom","a":1},5]}"##, "0"], &[r##"{"type":"m.room_membership","room_id":"!a:b.c"}"##, "1"], &[r##"{"join_rule":"restricted","allow":[{"type":"m.room_membership","room_id":"!a:b.c"}]}"##, "2"], &[r##"{"users":{"@a:b.c":100},"events":{"m.room.name":"50"},"ban":"+50","notifications":{"room":20}}"##, "3"], &[r##"{"users":{"@a:b.c":"+"},"events":{"m.room.name":" + "},"ban":"+","kick":"-","invite":" ","redact":"","notifications":{"room":"+\n"}}"##, "3"], &[r##"{"membership":"join","displayname":null,"avatar_url":""}"##, "4"], &[r##"{"join_rule":"knock_restricted","allow":[1,{"type":"m.room_membership","room_id":"!a:b.c"}]}"##, "5"]]) },
        Entry { id: 76, name: "Ed25519KeyPair::from_der (ring-compat)", kinds: &[Bytes, Text], f: e_from_der, seeds: seeds_from_der },
        // ---- HTML ---------------------------------------------------------------------------------
        Entry { id: 80, name: "sanitize_html / remove_html_reply_fallback / Html::{parse, sanitize, to_string}", kinds: &[Html, Sel], f: e_sanitize_html, seeds: || sp(&[&[HTML1, "0"], &[HTML1, "1"], &[HTML1, "2"], &[HTML1, "3"], &[HTML1, "4"], &["<p>a<b>c</p>d</b><svg><a xlink:href='x'>t</a></svg><math><mi>x</mi></math><template><p>t</p></template>", "4"], &[HTML_TYPED, "4"]]) },
        // ---- HTTP messages ------------------------------------------------------------------------
        Entry { id: 90, name: "IncomingRequest::try_from_http_request (any of 226 endpoints)", kinds: &[Sel, Sel, Text, Bytes, Text, Json], f: e_http_request, seeds: http_request_seeds },
        Entry { id: 91, name: "IncomingResponse::try_from_http_response (any of 226 endpoints)", kinds: &[Sel, Sel, Bytes, Json], f: e_http_response, seeds: http_response_seeds },
    ]
}
