//! C03 — hash_and_sign_event / verify_event.  See coq/C03/Run.v for the case formats.
use std::{cell::RefCell, collections::BTreeMap};

use ruma_common::{
    canonical_json::redact, serde::Base64, CanonicalJsonObject, CanonicalJsonValue, EventId, RoomVersionId, UserId,
};
use ruma_signatures::{hash_and_sign_event, verify_event, PublicKeyMap, PublicKeySet, Verified};

use crate::{
    c02::{keypair, Recording, N_KEYS},
    jgen::{gen_json, gen_str},
    rng::Rng,
    sx::{guarded, obj_to_sx, sx_to_obj, Sx},
    Emitter,
};

const SERVERS: &[&str] = &["a.example", "b.example", "c.example:8448", "d.example"];
const TYPES: &[&str] = &[
    "m.room.member", "m.room.message", "m.room.create", "m.room.power_levels", "m.room.join_rules", "m.room.redaction",
    "m.room.aliases", "m.room.history_visibility", "org.example.custom",
];

type Pk = BTreeMap<String, BTreeMap<String, Vec<u8>>>;
type Log = Vec<(usize, Vec<u8>, Vec<u8>)>;

fn s(x: &str) -> CanonicalJsonValue {
    CanonicalJsonValue::String(x.to_owned())
}

fn rules(v: u32) -> ruma_common::room_version_rules::RoomVersionRules {
    RoomVersionId::try_from(v.to_string().as_str()).unwrap().rules().unwrap()
}

/// The real parse results for the identifiers a check may look at.
fn id_table(ev: &CanonicalJsonObject) -> Sx {
    let mut rows = vec![];
    let mut user = |x: Option<&CanonicalJsonValue>| {
        if let Some(CanonicalJsonValue::String(st)) = x {
            let r = <&UserId>::try_from(st.as_str()).ok().map(|u| Sx::s(u.server_name().as_str()));
            rows.push(Sx::L(vec![Sx::N(0), Sx::s(st), Sx::opt(r)]));
        }
    };
    user(ev.get("sender"));
    user(ev.get("content").and_then(|c| c.as_object()).and_then(|c| c.get("join_authorised_via_users_server")));
    if let Some(CanonicalJsonValue::String(st)) = ev.get("event_id") {
        let r = <&EventId>::try_from(st.as_str()).ok().and_then(|e| e.server_name().map(|n| Sx::s(n.as_str())));
        rows.push(Sx::L(vec![Sx::N(1), Sx::s(st), Sx::opt(r)]));
    }
    Sx::L(rows)
}

fn pk_sx(pk: &Pk) -> Sx {
    Sx::L(
        pk.iter()
            .map(|(e, ks)| {
                Sx::L(vec![Sx::s(e), Sx::L(ks.iter().map(|(k, b)| Sx::L(vec![Sx::s(k), Sx::S(b.clone())])).collect())])
            })
            .collect(),
    )
}

fn run_verify(v: u32, ev: &CanonicalJsonObject, pk: &Pk) -> Sx {
    let mut map = PublicKeyMap::new();
    for (e, ks) in pk {
        let mut set = PublicKeySet::new();
        for (kid, bytes) in ks {
            set.insert(kid.clone(), Base64::new(bytes.clone()));
        }
        map.insert(e.clone(), set);
    }
    let ev = ev.clone();
    guarded(move || match verify_event(&map, &ev, &rules(v)) {
        Ok(Verified::All) => Sx::ok(Sx::N(0)),
        Ok(Verified::Signatures) => Sx::ok(Sx::N(1)),
        Err(_) => Sx::err(0),
    })
}

fn verify_case(v: u32, ev: &CanonicalJsonObject, pk: &Pk, table: &[(Vec<u8>, Vec<u8>, Vec<u8>)], expect: i64) -> (Sx, Sx) {
    let tbl = Sx::L(table.iter().map(|(k, m, sg)| Sx::L(vec![Sx::S(k.clone()), Sx::S(m.clone()), Sx::S(sg.clone())])).collect());
    let case = Sx::L(vec![Sx::N(0), Sx::n(v), obj_to_sx(ev), pk_sx(pk), tbl, id_table(ev), Sx::n(expect)]);
    (case, run_verify(v, ev, pk))
}

fn run_sign(v: u32, ev: &CanonicalJsonObject, entity: &str, k: usize, kv: &str) -> (Sx, Log) {
    let log = RefCell::new(vec![]);
    let out = {
        let log = &log;
        let mut o = ev.clone();
        let entity = entity.to_owned();
        let kv = kv.to_owned();
        guarded(std::panic::AssertUnwindSafe(move || {
            let kp = Recording { inner: keypair(k, &kv), idx: k, log };
            match hash_and_sign_event(&entity, &kp, &mut o, &rules(v).redaction) {
                Ok(()) => Sx::ok(obj_to_sx(&o)),
                Err(_) => Sx::err(0),
            }
        }))
    };
    (out, log.into_inner())
}

fn sign_case(v: u32, ev: &CanonicalJsonObject, entity: &str, k: usize, kv: &str) -> (Sx, Sx) {
    let (out, log) = run_sign(v, ev, entity, k, kv);
    let tbl = Sx::L(log.iter().map(|(k, m, sg)| Sx::L(vec![Sx::n(*k as i64), Sx::S(m.clone()), Sx::S(sg.clone())])).collect());
    let case = Sx::L(vec![Sx::N(1), Sx::n(v), obj_to_sx(ev), Sx::s(entity), Sx::n(k as i64), Sx::s(kv), tbl, id_table(ev)]);
    (case, out)
}

pub fn replay(case: &Sx) -> Option<Sx> {
    let l = case.as_list()?;
    let v = l.get(1)?.as_int()? as u32;
    let ev = sx_to_obj(l.get(2)?)?;
    match l.first()?.as_int()? {
        0 => {
            let mut pk = Pk::new();
            for e in l.get(3)?.as_list()? {
                let e = e.as_list()?;
                let mut ks = BTreeMap::new();
                for kv in e.get(1)?.as_list()? {
                    let kv = kv.as_list()?;
                    ks.insert(kv.first()?.as_string()?, kv.get(1)?.as_bytes()?.to_vec());
                }
                pk.insert(e.first()?.as_string()?, ks);
            }
            Some(run_verify(v, &ev, &pk))
        }
        _ => Some(run_sign(v, &ev, &l.get(3)?.as_string()?, l.get(4)?.as_int()? as usize, &l.get(5)?.as_string()?).0),
    }
}

pub fn dump(_dir: &str) {}

fn gen_pdu(r: &mut Rng, v: u32) -> CanonicalJsonObject {
    let mut ev = CanonicalJsonObject::new();
    let ty = *r.pick(TYPES);
    let sender_server = *r.pick(SERVERS);
    ev.insert("type".into(), s(ty));
    ev.insert("sender".into(), s(&format!("@alice:{sender_server}")));
    ev.insert("room_id".into(), s("!room:a.example"));
    ev.insert("origin_server_ts".into(), CanonicalJsonValue::Integer((r.below(100000) as i32).into()));
    ev.insert("depth".into(), CanonicalJsonValue::Integer((r.below(100) as i32).into()));
    if v <= 2 || r.chance(1, 5) {
        ev.insert("event_id".into(), s(&format!("$ev{}:{}", r.below(100), r.pick(SERVERS))));
    }
    if r.chance(1, 3) {
        ev.insert("state_key".into(), s(&format!("@bob:{}", r.pick(SERVERS))));
    }
    if r.chance(1, 3) {
        ev.insert("origin".into(), s(sender_server));
    }
    let mut c = CanonicalJsonObject::new();
    if ty == "m.room.member" || r.chance(1, 6) {
        c.insert("membership".into(), s(*r.pick(&["join", "invite", "leave", "ban", "knock"])));
        if r.chance(1, 3) {
            let mut tpi = CanonicalJsonObject::new();
            if r.chance(3, 4) {
                tpi.insert("display_name".into(), s("x"));
            }
            if r.chance(2, 3) {
                let mut signed = CanonicalJsonObject::new();
                signed.insert("token".into(), s("tok"));
                tpi.insert("signed".into(), CanonicalJsonValue::Object(signed));
            }
            c.insert("third_party_invite".into(), CanonicalJsonValue::Object(tpi));
        }
    }
    if r.chance(1, 3) {
        c.insert("join_authorised_via_users_server".into(), s(&format!("@carol:{}", r.pick(SERVERS))));
    }
    if r.chance(1, 2) {
        c.insert("body".into(), s(&gen_str(r)));
    }
    if r.chance(1, 4) {
        c.insert(gen_str(r), gen_json(r, 1));
    }
    ev.insert("content".into(), CanonicalJsonValue::Object(c));
    if r.chance(1, 3) {
        ev.insert("unsigned".into(), gen_json(r, 1));
    }
    if r.chance(1, 4) {
        ev.insert(gen_str(r), gen_json(r, 1));
    }
    // an event that already carries hashes (re-signing after an edit, or built from a template)
    if r.chance(1, 5) {
        let mut h = CanonicalJsonObject::new();
        if r.chance(2, 3) {
            h.insert("sha256".into(), s("c3RhbGU"));
        }
        if r.chance(1, 2) {
            h.insert("md5".into(), s("x"));
        }
        ev.insert("hashes".into(), CanonicalJsonValue::Object(h));
    }
    ev
}

/// Sign `ev` by the listed servers (each with key index = position in SERVERS, version "1").
fn sign_by(v: u32, ev: &CanonicalJsonObject, servers: &[&str]) -> Option<(CanonicalJsonObject, Pk, Vec<(Vec<u8>, Vec<u8>, Vec<u8>)>)> {
    let log = RefCell::new(vec![]);
    let mut o = ev.clone();
    let mut pk = Pk::new();
    for srv in servers {
        let k = SERVERS.iter().position(|x| x == srv).unwrap() % N_KEYS;
        let kp = Recording { inner: keypair(k, "1"), idx: k, log: &log };
        hash_and_sign_event(srv, &kp, &mut o, &rules(v).redaction).ok()?;
        pk.entry((*srv).to_owned()).or_default().insert("ed25519:1".into(), keypair(k, "1").public_key().to_vec());
    }
    let table = log.borrow().iter().map(|(k, m, sg)| (keypair(*k, "1").public_key().to_vec(), m.clone(), sg.clone())).collect();
    Some((o, pk, table))
}

/// The servers the room version demands, computed by the harness from well-formed ids.
fn demanded(v: u32, ev: &CanonicalJsonObject) -> Vec<String> {
    let srv_of = |id: &str| id.split_once(':').map(|x| x.1.to_owned());
    let c = ev.get("content").and_then(|c| c.as_object());
    let ty = ev.get("type").and_then(|t| t.as_str()).unwrap_or("");
    let membership = c.and_then(|c| c.get("membership")).and_then(|m| m.as_str()).unwrap_or("");
    let tpi = ty == "m.room.member" && membership == "invite" && c.is_some_and(|c| c.contains_key("third_party_invite"));
    let mut out = vec![];
    if !tpi {
        out.extend(ev.get("sender").and_then(|x| x.as_str()).and_then(srv_of));
    }
    if v <= 2 {
        out.extend(ev.get("event_id").and_then(|x| x.as_str()).and_then(srv_of));
    }
    if v >= 8 {
        out.extend(c.and_then(|c| c.get("join_authorised_via_users_server")).and_then(|x| x.as_str()).and_then(srv_of));
    }
    out.sort();
    out.dedup();
    out
}

pub fn run(tier: &str, seed: u64, em: &mut Emitter) {
    let mut r = Rng::new(seed ^ 0xC03);
    let n = if tier == "thorough" { 15_000 } else { 700 };
    for i in 0..n {
        let v = 1 + (i % 11) as u32;
        let ev = gen_pdu(&mut r, v);
        // signing itself
        let (case, out) = sign_case(v, &ev, *r.pick(SERVERS), r.below(N_KEYS), "1");
        em.emit("sign", case, out);

        let need = demanded(v, &ev);
        let need_refs: Vec<&str> = need.iter().map(String::as_str).collect();
        // signed by exactly the demanded servers (plus sometimes one more)
        let mut signers = need_refs.clone();
        if signers.is_empty() || r.chance(1, 4) {
            let extra = *r.pick(SERVERS);
            if !signers.contains(&extra) {
                signers.push(extra);
            }
        }
        let Some((signed, pk, table)) = sign_by(v, &ev, &signers) else { continue };
        let (case, out) = verify_case(v, &signed, &pk, &table, 1);
        em.emit("verify-honest", case, out);

        // redacted copy: signatures still valid
        if let Ok(red) = redact(signed.clone(), &rules(v).redaction, None) {
            // a third-party invite loses its marker under redaction before v11: then the sender's
            // server is demanded of the redacted copy although the original did not need it
            let tpi_lost = demanded(v, &red) != need;
            let (case, out) = verify_case(v, &red, &pk, &table, if tpi_lost { 0 } else { 2 });
            em.emit("verify-redacted-copy", case, out);
        }

        for _ in 0..5 {
            let mut o = signed.clone();
            let mut pk2 = pk.clone();
            let (tag, expect) = match r.below(9) {
                0 => {
                    o.insert("unsigned".into(), gen_json(&mut r, 2));
                    ("mutate-unsigned", 1)
                }
                1 if r.chance(1, 2) => {
                    // a hashed field that redaction strips (content.body / unknown top-level key)
                    if let Some(CanonicalJsonValue::Object(c)) = o.get_mut("content") {
                        c.insert("body".into(), s(&format!("changed{}", r.below(1000))));
                    }
                    ("mutate-stripped-field", 0)
                }
                1 => {
                    // a top-level key named by some literal of the anchored sources (age_ts, outlier, ...)
                    // that redaction does not keep and that is not one of the three uncovered members:
                    // only the content hash protects it (seed3 C03-2)
                    let pool: Vec<&String> = crate::jgen::source_keys()
                        .iter()
                        .filter(|k| !["unsigned", "signatures", "hashes"].contains(&k.as_str()))
                        .filter(|k| {
                            let mut probe = signed.clone();
                            probe.insert((*k).clone(), s("probe"));
                            redact(probe, &rules(v).redaction, None).is_ok_and(|red| !red.contains_key(k.as_str()))
                        })
                        .collect();
                    if pool.is_empty() {
                        continue;
                    }
                    let k = (*r.pick(&pool)).clone();
                    o.insert(k, s(&format!("changed{}", r.below(1000))));
                    ("mutate-stripped-top-level", 0)
                }
                2 => {
                    o.insert("depth".into(), CanonicalJsonValue::Integer(1000.into()));
                    ("mutate-kept-field", 0)
                }
                3 => {
                    o.insert("origin_server_ts".into(), CanonicalJsonValue::Integer(7.into()));
                    ("mutate-kept-field", 0)
                }
                4 => {
                    // drop one signer
                    if let Some(CanonicalJsonValue::Object(sm)) = o.get_mut("signatures") {
                        let ents: Vec<String> = sm.keys().cloned().collect();
                        if !ents.is_empty() {
                            sm.remove(r.pick(&ents));
                        }
                    }
                    ("drop-signature", 0)
                }
                5 => {
                    let ents: Vec<String> = pk2.keys().cloned().collect();
                    if !ents.is_empty() {
                        pk2.remove(r.pick(&ents));
                    }
                    ("drop-keys", 0)
                }
                6 => {
                    if let Some(CanonicalJsonValue::Object(h)) = o.get_mut("hashes") {
                        let v = match r.below(4) {
                            0 => s("AAAA"),
                            1 => s("not base64!"),
                            2 => gen_json(&mut r, 0),
                            _ => {
                                let cur = h.get("sha256").and_then(|x| x.as_str()).unwrap_or("").to_owned();
                                s(&format!("{cur}="))
                            }
                        };
                        h.insert("sha256".into(), v);
                    }
                    ("mutate-hashes", 0)
                }
                7 => {
                    match r.below(3) {
                        0 => {
                            o.remove("hashes");
                        }
                        1 => {
                            o.insert("hashes".into(), gen_json(&mut r, 0));
                        }
                        _ => {
                            o.insert("signatures".into(), gen_json(&mut r, 0));
                        }
                    }
                    ("mutate-shape", 0)
                }
                _ => {
                    // change who must have signed
                    match r.below(3) {
                        0 => {
                            o.insert("sender".into(), s(&format!("@mallory:{}", r.pick(SERVERS))));
                        }
                        1 => {
                            o.insert("sender".into(), s("not a user id"));
                        }
                        _ => {
                            if let Some(CanonicalJsonValue::Object(c)) = o.get_mut("content") {
                                c.insert("join_authorised_via_users_server".into(), s(&format!("@x:{}", r.pick(SERVERS))));
                            }
                        }
                    }
                    ("mutate-required-signers", 0)
                }
            };
            let (case, out) = verify_case(v, &o, &pk2, &table, expect);
            em.emit(tag, case, out);
        }
    }
}
