// A sample of real endpoints of the five API crates, built from hostile strings.
// Included into c16.rs.  `v` are the string values of the case; a builder gives `None`
// when the strings do not make valid field values (the identifier parser rejected them).

mod realhelp {
    use ruma_common::{
        OwnedDeviceId, OwnedEventId, OwnedRoomAliasId, OwnedRoomId, OwnedTransactionId, OwnedUserId,
    };

    pub fn uid(s: &str) -> Option<OwnedUserId> {
        OwnedUserId::try_from(format!("@{s}:x.y")).ok()
    }
    pub fn rid(s: &str) -> Option<OwnedRoomId> {
        OwnedRoomId::try_from(format!("!{s}:x.y")).ok()
    }
    pub fn alias(s: &str) -> Option<OwnedRoomAliasId> {
        OwnedRoomAliasId::try_from(format!("#{s}:x.y")).ok()
    }
    pub fn eid(s: &str) -> Option<OwnedEventId> {
        OwnedEventId::try_from(format!("${s}")).ok()
    }
    pub fn did(s: &str) -> OwnedDeviceId {
        OwnedDeviceId::from(s)
    }
    pub fn txn(s: &str) -> OwnedTransactionId {
        OwnedTransactionId::from(s)
    }
    pub fn raw<T>(s: &str) -> ruma_common::serde::Raw<T> {
        ruma_common::serde::Raw::from_json(serde_json::value::to_raw_value(&serde_json::json!({ "body": s })).unwrap())
    }
    /// a room event filter whose shape is chosen by the length of the string
    pub fn room_event_filter(s: &str) -> ruma_client_api::filter::RoomEventFilter {
        use ruma_client_api::filter::RoomEventFilter;
        let mut f = RoomEventFilter::default();
        match s.chars().count() % 7 {
            0 => {}
            1 => f = RoomEventFilter::ignore_all(),
            2 => f.rooms = Some(vec![]),
            3 => f.senders = Some(vec![]),
            4 => {
                f.types = Some(vec![s.to_owned()]);
                f.limit = Some(js_int::uint!(7));
            }
            5 => f.not_types = vec![s.to_owned()],
            _ => {
                f.types = Some(vec![]);
                f.not_senders = uid("a").into_iter().collect();
            }
        }
        f
    }
    pub fn rawjson(s: &str) -> Box<serde_json::value::RawValue> {
        serde_json::value::to_raw_value(&serde_json::json!({ "k": s })).unwrap()
    }
}

macro_rules! ep {
    ($name:literal, $n:literal, $($m:ident)::+, |$v:ident| $req:expr, |$w:ident| $resp:expr) => {
        Ep {
            name: $name,
            nvals: $n,
            meta: || <$($m)::+::Request as OutgoingRequest>::METADATA,
            req: |$v: &[String], cx: &ReqCtx<'_>| {
                #[allow(unused_imports)]
                use realhelp::*;
                let r: $($m)::+::Request = (|| -> Option<_> { Some($req) })()?;
                Some(rt_request(r, cx))
            },
            resp: |$w: &[String]| {
                #[allow(unused_imports)]
                use realhelp::*;
                let r: $($m)::+::Response = (|| -> Option<_> { $resp })()?;
                Some(rt_response(r))
            },
        }
    };
}

#[allow(deprecated)]
fn real_eps() -> Vec<Ep> {
    use js_int::uint;
    use ruma_client_api as c;
    use ruma_federation_api as f;
    vec![
        // ---- federation media: multipart/mixed with a random boundary (compared by value) ----------
        Ep {
            name: "federation::authenticated_media::get_content",
            nvals: 2,
            meta: || <f::authenticated_media::get_content::v1::Request as OutgoingRequest>::METADATA,
            req: |v: &[String], cx: &ReqCtx<'_>| Some(rt_request(f::authenticated_media::get_content::v1::Request::new(v[0].clone()), cx)),
            resp: |v: &[String]| {
                use f::authenticated_media::{Content, ContentMetadata, FileOrLocation};
                // the payload ends (or consists) of bytes a lenient text parser would trim (seed5 C16-2)
                const TAILS: [&str; 8] = ["", "\n", " ", "\r\n", "\t", "\r\n--", "\x0c", "\r\n\r\n"];
                let mut file = v[0].as_bytes().to_vec();
                let k = v[1].chars().count();
                file.extend_from_slice(TAILS[k % 8].as_bytes());
                if k % 5 == 4 {
                    file = TAILS[k % 8].as_bytes().to_vec();
                }
                let content = if k % 9 == 8 {
                    // a header value of a body part: no optional whitespace around it (HTTP field syntax)
                    if !v[0].is_ascii() || v[0].chars().any(|c| c.is_control()) || v[0].is_empty() || v[0].trim() != v[0] {
                        return None;
                    }
                    FileOrLocation::Location(v[0].clone())
                } else {
                    let disp = ruma_common::http_headers::ContentDisposition::new(ruma_common::http_headers::ContentDispositionType::Attachment)
                        .with_filename(Some("a.txt".to_owned()));
                    FileOrLocation::File(Content::new(file, "text/plain".to_owned(), disp))
                };
                Some(rt_response_by_value(f::authenticated_media::get_content::v1::Response::new(ContentMetadata::new(), content)))
            },
        },
        // ---- client-server --------------------------------------------------------------------
        ep!("client::profile::get_display_name", 2, c::profile::get_display_name::v3,
            |v| c::profile::get_display_name::v3::Request::new(uid(&v[0])?),
            |v| Some(c::profile::get_display_name::v3::Response::new(Some(v[1].clone())))),
        // a response with a 3xx status (the only non-2xx success status ruma declares)
        ep!("client::session::sso_login", 1, c::session::sso_login::v3,
            |v| c::session::sso_login::v3::Request::new(v[0].clone()),
            // (non-ASCII header values are the separate known class C16-header-non-ascii)
            |v| if v[0].is_ascii() { Some(c::session::sso_login::v3::Response::new(v[0].clone())) } else { None }),
        ep!("client::profile::set_display_name", 2, c::profile::set_display_name::v3,
            |v| c::profile::set_display_name::v3::Request::new(uid(&v[0])?, Some(v[1].clone())),
            |_v| Some(c::profile::set_display_name::v3::Response::new())),
        ep!("client::profile::get_avatar_url", 1, c::profile::get_avatar_url::v3,
            |v| c::profile::get_avatar_url::v3::Request::new(uid(&v[0])?),
            |_v| Some(c::profile::get_avatar_url::v3::Response::new(None))),
        ep!("client::profile::get_profile", 1, c::profile::get_profile::v3,
            |v| c::profile::get_profile::v3::Request::new(uid(&v[0])?),
            |_v| None),
        ep!("client::membership::join_room_by_id", 2, c::membership::join_room_by_id::v3,
            |v| { let mut r = c::membership::join_room_by_id::v3::Request::new(rid(&v[0])?); r.reason = Some(v[1].clone()); r },
            |v| Some(c::membership::join_room_by_id::v3::Response::new(rid(&v[0])?))),
        ep!("client::membership::leave_room", 1, c::membership::leave_room::v3,
            |v| c::membership::leave_room::v3::Request::new(rid(&v[0])?),
            |_v| Some(c::membership::leave_room::v3::Response::new())),
        ep!("client::membership::kick_user", 3, c::membership::kick_user::v3,
            |v| { let mut r = c::membership::kick_user::v3::Request::new(rid(&v[0])?, uid(&v[1])?); r.reason = Some(v[2].clone()); r },
            |_v| Some(c::membership::kick_user::v3::Response::new())),
        ep!("client::membership::ban_user", 2, c::membership::ban_user::v3,
            |v| c::membership::ban_user::v3::Request::new(rid(&v[0])?, uid(&v[1])?),
            |_v| Some(c::membership::ban_user::v3::Response::new())),
        ep!("client::membership::forget_room", 1, c::membership::forget_room::v3,
            |v| c::membership::forget_room::v3::Request::new(rid(&v[0])?),
            |_v| Some(c::membership::forget_room::v3::Response::new())),
        ep!("client::alias::get_alias", 2, c::alias::get_alias::v3,
            |v| c::alias::get_alias::v3::Request::new(alias(&v[0])?),
            |v| Some(c::alias::get_alias::v3::Response::new(rid(&v[1])?, vec!["x.y".try_into().ok()?]))),
        ep!("client::alias::delete_alias", 1, c::alias::delete_alias::v3,
            |v| c::alias::delete_alias::v3::Request::new(alias(&v[0])?),
            |_v| Some(c::alias::delete_alias::v3::Response::new())),
        ep!("client::alias::create_alias", 2, c::alias::create_alias::v3,
            |v| c::alias::create_alias::v3::Request::new(alias(&v[0])?, rid(&v[1])?),
            |_v| Some(c::alias::create_alias::v3::Response::new())),
        ep!("client::room::get_room_event", 2, c::room::get_room_event::v3,
            |v| c::room::get_room_event::v3::Request::new(rid(&v[0])?, eid(&v[1])?),
            |v| Some(c::room::get_room_event::v3::Response::new(raw(&v[0])))),
        ep!("client::redact::redact_event", 4, c::redact::redact_event::v3,
            |v| { let mut r = c::redact::redact_event::v3::Request::new(rid(&v[0])?, eid(&v[1])?, txn(&v[2])); r.reason = Some(v[3].clone()); r },
            |v| Some(c::redact::redact_event::v3::Response::new(eid(&v[1])?))),
        ep!("client::tag::delete_tag", 3, c::tag::delete_tag::v3,
            |v| c::tag::delete_tag::v3::Request::new(uid(&v[0])?, rid(&v[1])?, v[2].clone()),
            |_v| Some(c::tag::delete_tag::v3::Response::new())),
        ep!("client::tag::get_tags", 2, c::tag::get_tags::v3,
            |v| c::tag::get_tags::v3::Request::new(uid(&v[0])?, rid(&v[1])?),
            |_v| None),
        ep!("client::device::get_device", 1, c::device::get_device::v3,
            |v| c::device::get_device::v3::Request::new(did(&v[0])),
            |v| Some(c::device::get_device::v3::Response::new(c::device::Device::new(did(&v[0]))))),
        ep!("client::device::delete_device", 1, c::device::delete_device::v3,
            |v| c::device::delete_device::v3::Request::new(did(&v[0])),
            |_v| Some(c::device::delete_device::v3::Response::new())),
        ep!("client::device::update_device", 2, c::device::update_device::v3,
            |v| { let mut r = c::device::update_device::v3::Request::new(did(&v[0])); r.display_name = Some(v[1].clone()); r },
            |_v| Some(c::device::update_device::v3::Response::new())),
        ep!("client::directory::get_room_visibility", 1, c::directory::get_room_visibility::v3,
            |v| c::directory::get_room_visibility::v3::Request::new(rid(&v[0])?),
            |_v| Some(c::directory::get_room_visibility::v3::Response::new(c::room::Visibility::Public))),
        ep!("client::directory::set_room_visibility", 1, c::directory::set_room_visibility::v3,
            |v| c::directory::set_room_visibility::v3::Request::new(rid(&v[0])?, c::room::Visibility::Private),
            |_v| Some(c::directory::set_room_visibility::v3::Response::new())),
        ep!("client::user_directory::search_users", 2, c::user_directory::search_users::v3,
            |v| { let mut r = c::user_directory::search_users::v3::Request::new(v[0].clone()); r.language = Some(v[1].clone()); r },
            |v| Some(c::user_directory::search_users::v3::Response::new(vec![c::user_directory::search_users::v3::User::new(uid(&v[0])?)], true))),
        ep!("client::state::get_state_events", 1, c::state::get_state_events::v3,
            |v| c::state::get_state_events::v3::Request::new(rid(&v[0])?),
            |v| Some(c::state::get_state_events::v3::Response::new(vec![raw(&v[0])]))),
        ep!("client::state::get_state_events_for_key", 3, c::state::get_state_events_for_key::v3,
            |v| c::state::get_state_events_for_key::v3::Request::new(rid(&v[0])?, v[1].as_str().into(), v[2].clone()),
            |v| Some(c::state::get_state_events_for_key::v3::Response::new(raw(&v[0])))),
        ep!("client::state::send_state_event", 4, c::state::send_state_event::v3,
            |v| c::state::send_state_event::v3::Request::new_raw(rid(&v[0])?, v[1].as_str().into(), v[2].clone(), raw(&v[3])),
            |v| Some(c::state::send_state_event::v3::Response::new(eid(&v[0])?))),
        ep!("client::message::send_message_event", 4, c::message::send_message_event::v3,
            |v| c::message::send_message_event::v3::Request::new_raw(rid(&v[0])?, txn(&v[1]), v[2].as_str().into(), raw(&v[3])),
            |v| Some(c::message::send_message_event::v3::Response::new(eid(&v[0])?))),
        // the JSON-in-query `filter` parameter: omitted when RoomEventFilter::is_empty; an EMPTY allow-list
        // (Some([]) = allow nothing) is not an absent one (seed5 C16-1)
        ep!("client::message::get_message_events+filter", 2, c::message::get_message_events::v3,
            |v| { let mut r = c::message::get_message_events::v3::Request::new(rid(&v[0])?, ruma_common::api::Direction::Backward); r.filter = room_event_filter(&v[1]); r },
            |_v| None),
        ep!("client::context::get_context+filter", 2, c::context::get_context::v3,
            |v| { let mut r = c::context::get_context::v3::Request::new(rid(&v[0])?, eid(&v[0])?); r.filter = room_event_filter(&v[1]); r },
            |_v| None),
        ep!("client::message::get_message_events", 3, c::message::get_message_events::v3,
            |v| { let mut r = c::message::get_message_events::v3::Request::new(rid(&v[0])?, ruma_common::api::Direction::Forward); r.from = Some(v[1].clone()); r.to = Some(v[2].clone()); r },
            |v| { let mut r = c::message::get_message_events::v3::Response::new(); r.start = v[0].clone(); r.end = Some(v[1].clone()); Some(r) }),
        ep!("client::config::get_global_account_data", 2, c::config::get_global_account_data::v3,
            |v| c::config::get_global_account_data::v3::Request::new(uid(&v[0])?, v[1].as_str().into()),
            |v| Some(c::config::get_global_account_data::v3::Response::new(raw(&v[0])))),
        ep!("client::filter::get_filter", 2, c::filter::get_filter::v3,
            |v| c::filter::get_filter::v3::Request::new(uid(&v[0])?, v[1].clone()),
            |_v| None),
        ep!("client::media::get_content", 2, c::media::get_content::v3,
            |v| { let mut r = c::media::get_content::v3::Request::new(v[0].clone(), "x.y".try_into().ok()?); r.timeout_ms = std::time::Duration::from_millis([20_000u64, 20_500, 20_999, 19_999, 21_000, 1, 0, 20_001][v[1].chars().count() % 8]); r.allow_redirect = v[1].len() % 3 == 1; r },
            |v| { let mut r = c::media::get_content::v3::Response::new(v[0].as_bytes().to_vec(), "text/plain".to_owned(), ruma_common::http_headers::ContentDisposition::new(ruma_common::http_headers::ContentDispositionType::Inline).with_filename(Some(v[1].clone()))); if v[1] == "-" { r.content_type = None; r.content_disposition = None; r.cross_origin_resource_policy = None; } Some(r) }),
        ep!("client::authenticated_media::get_content_as_filename", 2, c::authenticated_media::get_content_as_filename::v1,
            |v| c::authenticated_media::get_content_as_filename::v1::Request::new(v[0].clone(), "x.y:8448".try_into().ok()?, v[1].clone()),
            |_v| None),
        ep!("client::backup::delete_backup_keys_for_session", 3, c::backup::delete_backup_keys_for_session::v3,
            |v| c::backup::delete_backup_keys_for_session::v3::Request::new(v[0].clone(), rid(&v[1])?, v[2].clone()),
            |v| Some(c::backup::delete_backup_keys_for_session::v3::Response::new(v[0].clone(), uint!(7)))),
        ep!("client::backup::get_backup_keys_for_room", 2, c::backup::get_backup_keys_for_room::v3,
            |v| c::backup::get_backup_keys_for_room::v3::Request::new(v[0].clone(), rid(&v[1])?),
            |_v| None),
        ep!("client::threads::get_threads", 2, c::threads::get_threads::v1,
            |v| { let mut r = c::threads::get_threads::v1::Request::new(rid(&v[0])?); r.from = Some(v[1].clone()); r.limit = Some(uint!(3)); r },
            |v| { let mut r = c::threads::get_threads::v1::Response::new(vec![raw(&v[0])]); r.next_batch = Some(v[1].clone()); Some(r) }),
        ep!("client::relations::get_relating_events", 4, c::relations::get_relating_events::v1,
            |v| { let mut r = c::relations::get_relating_events::v1::Request::new(rid(&v[0])?, eid(&v[1])?); r.from = Some(v[2].clone()); r.to = Some(v[3].clone()); r.recurse = true; r },
            |v| { let mut r = c::relations::get_relating_events::v1::Response::new(vec![]); r.next_batch = Some(v[0].clone()); Some(r) }),
        ep!("client::space::get_hierarchy", 2, c::space::get_hierarchy::v1,
            |v| { let mut r = c::space::get_hierarchy::v1::Request::new(rid(&v[0])?); r.from = Some(v[1].clone()); r.suggested_only = true; r },
            |v| { let mut r = c::space::get_hierarchy::v1::Response::new(); r.next_batch = Some(v[0].clone()); Some(r) }),
        ep!("client::room::upgrade_room", 1, c::room::upgrade_room::v3,
            |v| c::room::upgrade_room::v3::Request::new(rid(&v[0])?, ruma_common::RoomVersionId::V10),
            |v| Some(c::room::upgrade_room::v3::Response::new(rid(&v[0])?))),
        ep!("client::room::aliases", 2, c::room::aliases::v3,
            |v| c::room::aliases::v3::Request::new(rid(&v[0])?),
            |v| Some(c::room::aliases::v3::Response::new(vec![alias(&v[0])?, alias(&v[1])?]))),
        ep!("client::presence::get_presence", 2, c::presence::get_presence::v3,
            |v| c::presence::get_presence::v3::Request::new(uid(&v[0])?),
            |v| { let mut r = c::presence::get_presence::v3::Response::new(ruma_common::presence::PresenceState::Online); r.status_msg = Some(v[1].clone()); Some(r) }),
        ep!("client::presence::set_presence", 2, c::presence::set_presence::v3,
            |v| { let mut r = c::presence::set_presence::v3::Request::new(uid(&v[0])?, ruma_common::presence::PresenceState::Unavailable); r.status_msg = Some(v[1].clone()); r },
            |_v| Some(c::presence::set_presence::v3::Response::new())),
        ep!("client::push::delete_pushrule", 1, c::push::delete_pushrule::v3,
            |v| c::push::delete_pushrule::v3::Request::new(c::push::RuleKind::Content, v[0].clone()),
            |_v| Some(c::push::delete_pushrule::v3::Response::new())),
        ep!("client::push::get_pushrule_enabled", 1, c::push::get_pushrule_enabled::v3,
            |v| c::push::get_pushrule_enabled::v3::Request::new(c::push::RuleKind::Override, v[0].clone()),
            |_v| Some(c::push::get_pushrule_enabled::v3::Response::new(true))),
        ep!("client::search::search_events", 2, c::search::search_events::v3,
            |v| { let mut cat = c::search::search_events::v3::Categories::new(); cat.room_events = Some(c::search::search_events::v3::Criteria::new(v[0].clone())); let mut r = c::search::search_events::v3::Request::new(cat); r.next_batch = Some(v[1].clone()); r },
            |v| { let mut rc = c::search::search_events::v3::ResultCategories::new(); let mut sr = c::search::search_events::v3::SearchResult::new(); sr.result = Some(raw(&v[0])); rc.room_events.results.push(sr); rc.room_events.next_batch = Some(v[1].clone()); Some(c::search::search_events::v3::Response::new(rc)) }),
        ep!("client::directory::get_public_rooms_filtered", 1, c::directory::get_public_rooms_filtered::v3,
            |v| { let mut r = c::directory::get_public_rooms_filtered::v3::Request::new(); r.since = Some(v[0].clone()); r },
            |v| { let mut r = c::directory::get_public_rooms_filtered::v3::Response::new(); r.next_batch = Some(v[0].clone()); Some(r) }),
        ep!("client::directory::get_public_rooms", 1, c::directory::get_public_rooms::v3,
            |v| { let mut r = c::directory::get_public_rooms::v3::Request::new(); r.since = Some(v[0].clone()); r },
            |v| { let mut r = c::directory::get_public_rooms::v3::Response::new(vec![]); r.next_batch = Some(v[0].clone()); Some(r) }),
        // ---- federation -----------------------------------------------------------------------
        ep!("federation::directory::get_public_rooms", 1, f::directory::get_public_rooms::v1,
            |v| { let mut r = f::directory::get_public_rooms::v1::Request::new(); r.since = Some(v[0].clone()); r },
            |v| { let mut r = f::directory::get_public_rooms::v1::Response::new(); r.next_batch = Some(v[0].clone()); Some(r) }),
        // the flattened RoomNetwork in a QUERY string (its deserializer was written for JSON bodies)
        ep!("federation::directory::get_public_rooms+network", 2, f::directory::get_public_rooms::v1,
            |v| { let mut r = f::directory::get_public_rooms::v1::Request::new(); r.limit = Some(uint!(5)); r.room_network = match v[1].chars().count() % 3 { 0 => ruma_common::directory::RoomNetwork::Matrix, 1 => ruma_common::directory::RoomNetwork::All, _ => ruma_common::directory::RoomNetwork::ThirdParty(v[0].clone()) }; r },
            |_v| None),
        ep!("federation::directory::get_public_rooms_filtered", 1, f::directory::get_public_rooms_filtered::v1,
            |v| { let mut r = f::directory::get_public_rooms_filtered::v1::Request::new(); r.since = Some(v[0].clone()); r },
            |v| { let mut r = f::directory::get_public_rooms_filtered::v1::Response::new(); r.next_batch = Some(v[0].clone()); Some(r) }),
        ep!("federation::query::get_profile_information", 2, f::query::get_profile_information::v1,
            |v| f::query::get_profile_information::v1::Request::new(uid(&v[0])?),
            |v| { let mut r = f::query::get_profile_information::v1::Response::new(); r.displayname = Some(v[1].clone()); Some(r) }),
        ep!("federation::query::get_room_information", 2, f::query::get_room_information::v1,
            |v| f::query::get_room_information::v1::Request::new(alias(&v[0])?),
            |v| Some(f::query::get_room_information::v1::Response::new(rid(&v[1])?, vec![]))),
        ep!("federation::event::get_event", 1, f::event::get_event::v1,
            |v| f::event::get_event::v1::Request::new(eid(&v[0])?),
            |v| Some(f::event::get_event::v1::Response::new("x.y".try_into().ok()?, ruma_common::MilliSecondsSinceUnixEpoch(uint!(5)), rawjson(&v[0])))),
        ep!("federation::event::get_room_state_ids", 2, f::event::get_room_state_ids::v1,
            |v| f::event::get_room_state_ids::v1::Request::new(eid(&v[0])?, rid(&v[1])?),
            |v| Some(f::event::get_room_state_ids::v1::Response::new(vec![eid(&v[0])?], vec![eid(&v[1])?]))),
        ep!("federation::membership::prepare_leave_event", 2, f::membership::prepare_leave_event::v1,
            |v| f::membership::prepare_leave_event::v1::Request::new(rid(&v[0])?, uid(&v[1])?),
            |v| Some(f::membership::prepare_leave_event::v1::Response::new(Some(ruma_common::RoomVersionId::V6), rawjson(&v[0])))),
        ep!("federation::knock::create_knock_event_template", 2, f::knock::create_knock_event_template::v1,
            |v| { let mut r = f::knock::create_knock_event_template::v1::Request::new(rid(&v[0])?, uid(&v[1])?); r.ver = vec![ruma_common::RoomVersionId::V7, ruma_common::RoomVersionId::V10]; r },
            |v| Some(f::knock::create_knock_event_template::v1::Response::new(ruma_common::RoomVersionId::V7, rawjson(&v[0])))),
        ep!("federation::device::get_devices", 1, f::device::get_devices::v1,
            |v| f::device::get_devices::v1::Request::new(uid(&v[0])?),
            |v| Some(f::device::get_devices::v1::Response::new(uid(&v[0])?, uint!(9)))),
        ep!("federation::openid::get_openid_userinfo", 1, f::openid::get_openid_userinfo::v1,
            |v| f::openid::get_openid_userinfo::v1::Request::new(v[0].clone()),
            |v| Some(f::openid::get_openid_userinfo::v1::Response::new(uid(&v[0])?))),
        ep!("federation::space::get_hierarchy", 1, f::space::get_hierarchy::v1,
            |v| { let mut r = f::space::get_hierarchy::v1::Request::new(rid(&v[0])?); r.suggested_only = true; r },
            |_v| None),
        // ---- appservice -----------------------------------------------------------------------
        ep!("appservice::query::query_room_alias", 1, ruma_appservice_api::query::query_room_alias::v1,
            |v| ruma_appservice_api::query::query_room_alias::v1::Request::new(alias(&v[0])?),
            |_v| Some(ruma_appservice_api::query::query_room_alias::v1::Response::new())),
        ep!("appservice::query::query_user_id", 1, ruma_appservice_api::query::query_user_id::v1,
            |v| ruma_appservice_api::query::query_user_id::v1::Request::new(uid(&v[0])?),
            |_v| Some(ruma_appservice_api::query::query_user_id::v1::Response::new())),
        ep!("appservice::thirdparty::get_protocol", 1, ruma_appservice_api::thirdparty::get_protocol::v1,
            |v| ruma_appservice_api::thirdparty::get_protocol::v1::Request::new(v[0].clone()),
            |_v| None),
        ep!("appservice::thirdparty::get_user_for_user_id", 1, ruma_appservice_api::thirdparty::get_user_for_user_id::v1,
            |v| ruma_appservice_api::thirdparty::get_user_for_user_id::v1::Request::new(uid(&v[0])?),
            |_v| Some(ruma_appservice_api::thirdparty::get_user_for_user_id::v1::Response::new(vec![]))),
        ep!("appservice::thirdparty::get_location_for_room_alias", 1, ruma_appservice_api::thirdparty::get_location_for_room_alias::v1,
            |v| ruma_appservice_api::thirdparty::get_location_for_room_alias::v1::Request::new(alias(&v[0])?),
            |_v| Some(ruma_appservice_api::thirdparty::get_location_for_room_alias::v1::Response::new(vec![]))),
        ep!("appservice::ping::send_ping", 1, ruma_appservice_api::ping::send_ping::v1,
            |v| { let mut r = ruma_appservice_api::ping::send_ping::v1::Request::new(); r.transaction_id = Some(txn(&v[0])); r },
            |_v| Some(ruma_appservice_api::ping::send_ping::v1::Response::new())),
        // ---- identity service -------------------------------------------------------------------
        ep!("identity::keys::get_public_key", 1, ruma_identity_service_api::keys::get_public_key::v2,
            |v| ruma_identity_service_api::keys::get_public_key::v2::Request::new(ruma_common::OwnedServerSigningKeyId::try_from(format!("ed25519:{}", v[0])).ok()?),
            |v| Some(ruma_identity_service_api::keys::get_public_key::v2::Response::new(ruma_common::third_party_invite::IdentityServerBase64PublicKey(v[0].clone())))),
        ep!("identity::keys::check_public_key_validity", 1, ruma_identity_service_api::keys::check_public_key_validity::v2,
            |v| ruma_identity_service_api::keys::check_public_key_validity::v2::Request::new(ruma_common::third_party_invite::IdentityServerBase64PublicKey(v[0].clone())),
            |_v| Some(ruma_identity_service_api::keys::check_public_key_validity::v2::Response::new(true))),
        ep!("identity::association::email::validate_email_by_end_user", 1, ruma_identity_service_api::association::email::validate_email_by_end_user::v2,
            |v| ruma_identity_service_api::association::email::validate_email_by_end_user::v2::Request::new("sid1".try_into().ok()?, "secret".try_into().ok()?, v[0].clone()),
            |_v| Some(ruma_identity_service_api::association::email::validate_email_by_end_user::v2::Response::new())),
        ep!("identity::lookup::get_hash_parameters", 1, ruma_identity_service_api::lookup::get_hash_parameters::v2,
            |_v| ruma_identity_service_api::lookup::get_hash_parameters::v2::Request::new(),
            |v| Some(ruma_identity_service_api::lookup::get_hash_parameters::v2::Response::new(v[0].clone(), vec![]))),
        ep!("identity::authentication::get_account_information", 1, ruma_identity_service_api::authentication::get_account_information::v2,
            |_v| ruma_identity_service_api::authentication::get_account_information::v2::Request::new(),
            |v| Some(ruma_identity_service_api::authentication::get_account_information::v2::Response::new(uid(&v[0])?))),
        // ---- push gateway ---------------------------------------------------------------------
        ep!("push_gateway::send_event_notification", 3, ruma_push_gateway_api::send_event_notification::v1,
            |v| { let mut n = ruma_push_gateway_api::send_event_notification::v1::Notification::new(vec![ruma_push_gateway_api::send_event_notification::v1::Device::new(v[0].clone(), v[1].clone())]); n.room_name = Some(v[2].clone()); n.room_id = rid(&v[2]); ruma_push_gateway_api::send_event_notification::v1::Request::new(n) },
            |v| Some(ruma_push_gateway_api::send_event_notification::v1::Response::new(vec![v[0].clone(), v[1].clone()]))),
    ]
}
