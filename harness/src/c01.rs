//! C01 — canonical JSON.  case = ( text-bytes ).  outcome = ok( value canonical-bytes ) | err(0)
//! | ( N3 code ) when ruma's own observation points disagree with each other.
use ruma_common::{canonical_json::to_canonical_value, CanonicalJsonObject, CanonicalJsonValue};

use crate::{
    rng::Rng,
    sx::{guarded, json_to_sx, Sx},
    Emitter,
};

/// A JSON value as the generator sees it, before rendering to text.
#[derive(Clone, Debug)]
enum G {
    Null,
    Bool(bool),
    Num(String),
    Str(String),
    Arr(Vec<G>),
    Obj(Vec<(String, G)>),
}

const CHARS: &[char] = &[
    'a', 'b', 'z', 'A', '0', ' ', '"', '\\', '/', '\u{8}', '\u{c}', '\n', '\r', '\t', '\u{0}', '\u{1}', '\u{1f}', '\u{7f}',
    '\u{80}', '\u{e9}', '\u{7ff}', '\u{800}', '\u{2028}', '\u{d7ff}', '\u{e000}', '\u{fffd}', '\u{ffff}', '\u{10000}',
    '\u{1F600}', '\u{10ffff}', '\u{65e5}', '\u{672c}',
];

const NUMS: &[&str] = &[
    "0", "1", "-1", "10", "123", "9007199254740990", "9007199254740991", "9007199254740992", "-9007199254740991",
    "-9007199254740992", "9223372036854775807", "9223372036854775808", "-9223372036854775808", "-9223372036854775809",
    "18446744073709551615", "18446744073709551616", "-0", "0.0", "1.0", "1e2", "1E2", "1e+2", "1e-2", "1.5", "-1.5",
    "1E400", "123456789012345678901234567890", "0e0", "-0.0", "-0e1", "2e0",
];

fn gen_str(r: &mut Rng) -> String {
    let n = match r.below(8) {
        0 => 0,
        1..=5 => 1 + r.below(3),
        _ => 4 + r.below(6),
    };
    (0..n).map(|_| *r.pick(CHARS)).collect()
}

fn gen_g(r: &mut Rng, depth: usize) -> G {
    let k = if depth == 0 { r.below(5) } else { r.below(8) };
    match k {
        0 => G::Null,
        1 => G::Bool(r.chance(1, 2)),
        2 | 3 => {
            if r.chance(3, 4) {
                G::Num((*r.pick(NUMS)).to_owned())
            } else {
                G::Num(((r.next() % 4000) as i64 - 2000).to_string())
            }
        }
        4 => G::Str(gen_str(r)),
        5 => G::Arr((0..r.below(4)).map(|_| gen_g(r, depth - 1)).collect()),
        _ => {
            let n = r.below(5);
            // keys: mostly hostile strings, sometimes a member name ruma's own code mentions
            let mut m: Vec<(String, G)> = (0..n)
                .map(|_| (if r.chance(1, 5) { crate::jgen::gen_key(r) } else { gen_str(r) }, gen_g(r, depth - 1)))
                .collect();
            // sometimes an explicit duplicate key
            if n > 0 && r.chance(1, 6) {
                let k = m[r.below(n)].0.clone();
                m.push((k, gen_g(r, depth - 1)));
            }
            G::Obj(m)
        }
    }
}

fn ws(r: &mut Rng, level: u32, out: &mut String) {
    if level == 0 {
        return;
    }
    for _ in 0..r.below(3) {
        out.push(*r.pick(&[' ', '\n', '\t', '\r']));
    }
}

/// Render a string with a randomly chosen spelling for every character.
fn render_str(r: &mut Rng, s: &str, esc: u32, out: &mut String) {
    out.push('"');
    for c in s.chars() {
        let cp = c as u32;
        let must = cp < 0x20 || c == '"' || c == '\\';
        let choice = if must { 1 + r.below(2) } else if esc == 0 { 0 } else { r.below(4) };
        match choice {
            0 => out.push(c),
            1 => match c {
                '"' => out.push_str("\\\""),
                '\\' => out.push_str("\\\\"),
                '/' => out.push_str("\\/"),
                '\u{8}' => out.push_str("\\b"),
                '\u{c}' => out.push_str("\\f"),
                '\n' => out.push_str("\\n"),
                '\r' => out.push_str("\\r"),
                '\t' => out.push_str("\\t"),
                _ => {
                    if must {
                        push_u(r, cp, out)
                    } else {
                        out.push(c)
                    }
                }
            },
            _ => push_u(r, cp, out),
        }
    }
    out.push('"');
}

fn push_u(r: &mut Rng, cp: u32, out: &mut String) {
    let upper = r.chance(1, 2);
    let mut one = |u: u32, out: &mut String| {
        if upper {
            out.push_str(&format!("\\u{u:04X}"));
        } else {
            out.push_str(&format!("\\u{u:04x}"));
        }
    };
    if cp >= 0x10000 {
        let v = cp - 0x10000;
        one(0xD800 + (v >> 10), out);
        one(0xDC00 + (v & 0x3ff), out);
    } else {
        one(cp, out);
    }
}

fn render(r: &mut Rng, g: &G, wsl: u32, esc: u32, shuffle: bool, out: &mut String) {
    match g {
        G::Null => out.push_str("null"),
        G::Bool(b) => out.push_str(if *b { "true" } else { "false" }),
        G::Num(n) => out.push_str(n),
        G::Str(s) => render_str(r, s, esc, out),
        G::Arr(a) => {
            out.push('[');
            ws(r, wsl, out);
            for (i, x) in a.iter().enumerate() {
                if i > 0 {
                    out.push(',');
                    ws(r, wsl, out);
                }
                render(r, x, wsl, esc, shuffle, out);
                ws(r, wsl, out);
            }
            out.push(']');
        }
        G::Obj(m) => {
            let mut idx: Vec<usize> = (0..m.len()).collect();
            if shuffle {
                // permute, but keep the relative order of equal keys (last duplicate wins)
                for i in (1..idx.len()).rev() {
                    let j = r.below(i + 1);
                    idx.swap(i, j);
                }
                let mut fixed = idx.clone();
                for (pos, &i) in idx.iter().enumerate() {
                    let _ = (pos, i);
                }
                // stable re-sort of positions holding equal keys
                for a in 0..fixed.len() {
                    for b in a + 1..fixed.len() {
                        if m[fixed[a]].0 == m[fixed[b]].0 && fixed[a] > fixed[b] {
                            fixed.swap(a, b);
                        }
                    }
                }
                idx = fixed;
            }
            out.push('{');
            ws(r, wsl, out);
            for (n, &i) in idx.iter().enumerate() {
                if n > 0 {
                    out.push(',');
                    ws(r, wsl, out);
                }
                render_str(r, &m[i].0, esc, out);
                ws(r, wsl, out);
                out.push(':');
                ws(r, wsl, out);
                render(r, &m[i].1, wsl, esc, shuffle, out);
                ws(r, wsl, out);
            }
            out.push('}');
        }
    }
}

/// All of ruma's observation points on one text; they must agree with each other.
pub fn observe(text: &str) -> Sx {
    let text = text.to_owned();
    guarded(move || {
        let parsed: Result<CanonicalJsonValue, _> = serde_json::from_str(&text);
        // second route: serde_json::Value -> to_canonical_value
        let via_value = serde_json::from_str::<serde_json::Value>(&text).ok().map(to_canonical_value);
        match parsed {
            Err(_) => {
                if let Some(Ok(_)) = via_value {
                    return Sx::L(vec![Sx::N(3), Sx::N(1)]);
                }
                Sx::err(0)
            }
            Ok(v) => {
                match via_value {
                    Some(Ok(v2)) if v2 == v => {}
                    _ => return Sx::L(vec![Sx::N(3), Sx::N(2)]),
                }
                let s1 = serde_json::to_string(&v).unwrap();
                let s2 = v.to_string();
                if s1 != s2 {
                    return Sx::L(vec![Sx::N(3), Sx::N(3)]);
                }
                if let CanonicalJsonValue::Object(o) = &v {
                    let mut stripped: CanonicalJsonObject = o.clone();
                    stripped.remove("signatures");
                    stripped.remove("unsigned");
                    let want = serde_json::to_string(&CanonicalJsonValue::Object(stripped)).unwrap();
                    match ruma_signatures::canonical_json(o) {
                        Ok(s3) if s3 == want => {}
                        _ => return Sx::L(vec![Sx::N(3), Sx::N(4)]),
                    }
                }
                // parsing the canonical string back gives an equal value
                match serde_json::from_str::<CanonicalJsonValue>(&s1) {
                    Ok(back) if back == v => {}
                    _ => return Sx::L(vec![Sx::N(3), Sx::N(5)]),
                }
                Sx::ok(Sx::L(vec![json_to_sx(&v), Sx::s(&s1)]))
            }
        }
    })
}

pub fn replay(case: &Sx) -> Option<Sx> {
    let l = case.as_list()?;
    let text = l.first()?.as_string()?;
    Some(observe(&text))
}

pub fn dump(_dir: &str) {}

fn emit(em: &mut Emitter, tag: &str, text: &str) -> Sx {
    let out = observe(text);
    em.emit(tag, Sx::L(vec![Sx::s(text)]), out.clone());
    out
}

pub fn run(tier: &str, seed: u64, em: &mut Emitter) {
    let mut r = Rng::new(seed ^ 0xC01);
    let n_values = if tier == "thorough" { 30_000 } else { 1_200 };

    // Systematic: every number literal alone, in an array, as an object member; escapes of every
    // listed character, each spelling; nesting depth around the recursion limit.
    for n in NUMS {
        emit(em, "systematic-number", n);
        emit(em, "systematic-number", &format!("[{n}]"));
        emit(em, "systematic-number", &format!("{{\"a\":{n}}}"));
        emit(em, "systematic-number", &format!(" {n} "));
    }
    for c in CHARS {
        let cp = *c as u32;
        let mut spellings = vec![];
        if cp >= 0x20 && *c != '"' && *c != '\\' {
            spellings.push(c.to_string());
        }
        let mut s = String::new();
        push_u(&mut Rng::new(1), cp, &mut s);
        spellings.push(s.clone());
        spellings.push(s.to_uppercase().replace("\\U", "\\u"));
        for sp in spellings {
            emit(em, "systematic-escape", &format!("\"{sp}\""));
            emit(em, "systematic-escape", &format!("{{\"{sp}\":\"{sp}x\"}}"));
        }
    }
    for short in ["\\\"", "\\\\", "\\/", "\\b", "\\f", "\\n", "\\r", "\\t"] {
        emit(em, "systematic-escape", &format!("\"{short}\""));
    }
    for d in [1usize, 2, 126, 127, 128, 129] {
        emit(em, "systematic-depth", &format!("{}{}", "[".repeat(d), "]".repeat(d)));
        emit(em, "systematic-depth", &format!("{}1{}", "{\"a\":".repeat(d), "}".repeat(d)));
    }
    // every member name ruma's source mentions, at the top level and nested, next to an ordinary member
    for k in crate::jgen::source_keys() {
        emit(em, "systematic-source-key", &format!("{{\"b\":1,\"{k}\":1000000}}"));
        emit(em, "systematic-source-key", &format!("{{\"{k}\":{{\"{k}\":[\"{k}\"]}},\"zz\":null}}"));
    }
    // all key permutations for up to 4 keys from a pool whose byte order and UTF-16 order differ
    let pool = ["\u{ffff}", "\u{10000}", "a", "", "\u{e9}", "B", "\u{1F600}", "\u{7f}"];
    for n in 1..=4usize {
        let keys: Vec<&str> = pool.iter().copied().take(n + 2).skip(r.below(3)).take(n).collect();
        let mut perm: Vec<usize> = (0..keys.len()).collect();
        let mut texts = vec![];
        permute(&mut perm, 0, &mut |p| {
            let body: Vec<String> =
                p.iter().map(|&i| format!("{}:{}", serde_json::to_string(keys[i]).unwrap(), i)).collect();
            texts.push(format!("{{{}}}", body.join(",")));
        });
        let mut first: Option<Sx> = None;
        for t in texts {
            let out = emit(em, "systematic-permutation", &t);
            match &first {
                None => first = Some(out),
                Some(f) => {
                    if *f != out {
                        em.emit("order-dependence", Sx::L(vec![Sx::s(&t)]), Sx::L(vec![Sx::N(3), Sx::N(6)]));
                    }
                }
            }
        }
    }

    // Exhaustive small texts: every string up to a length bound over the structural alphabet (ties
    // the tokenizer model to serde_json on all short inputs, well- and ill-formed).
    {
        const ALPHA: &[u8] = b"{}[]\":,10-.e a\\u";
        let max_len = if tier == "thorough" { 5 } else { 3 };
        let mut cur: Vec<usize> = vec![];
        loop {
            // next string in length-lexicographic order
            let mut i = cur.len();
            loop {
                if i == 0 {
                    cur = vec![0; cur.len() + 1];
                    break;
                }
                i -= 1;
                if cur[i] + 1 < ALPHA.len() {
                    cur[i] += 1;
                    for c in cur.iter_mut().skip(i + 1) {
                        *c = 0;
                    }
                    break;
                }
            }
            if cur.len() > max_len {
                break;
            }
            let t: String = cur.iter().map(|&k| ALPHA[k] as char).collect();
            emit(em, "exhaustive-short", &t);
        }
    }

    // Random structured: one value, several textual spellings that must give the same outcome.
    for _ in 0..n_values {
        let g = gen_g(&mut r, 3);
        let mut plain = String::new();
        render(&mut r, &g, 0, 0, false, &mut plain);
        let base = emit(em, "random-plain", &plain);
        for variant in 0..3 {
            let mut t = String::new();
            render(&mut r, &g, 1 + variant % 2, 1, true, &mut t);
            let out = emit(em, "random-variant", &t);
            if out != base {
                em.emit("spelling-dependence", Sx::L(vec![Sx::s(&t)]), Sx::L(vec![Sx::N(3), Sx::N(7)]));
            }
        }
        // malformed stream: one byte-level edit of the plain text
        if !plain.is_empty() && r.chance(1, 2) {
            let bytes = plain.as_bytes();
            let i = r.below(bytes.len());
            let mut m = bytes.to_vec();
            match r.below(3) {
                0 => {
                    m.remove(i);
                }
                1 => m.insert(i, *r.pick(b"\"\\,:[]{}0-e. u\x01")),
                _ => m[i] = *r.pick(b"\"\\,:[]{}0-e. u\x01"),
            }
            if let Ok(t) = String::from_utf8(m) {
                emit(em, "malformed", &t);
            }
        }
    }
    for t in ["\"\\ud800\"", "\"\\udc00\"", "\"\\ud800\\u0041\"", "\"\\ud83d\\ude00\"", "\"\\uD83D\\uDE00\"", "\"\\ud83d\"",
              "\"\\ud83dx\"", "\"\\u12\"", "\"\\x\"", "\"", "", " ", "nul", "truex", "[1,]", "{\"a\"}", "{\"a\":1,}", "[1 2]", "01",
              "-", "1.", "1e", "1e+", ".5", "+1", "\"a\x01b\"", "\"\x7f\"", "[]x", "{}{}"] {
        emit(em, "malformed", t);
    }
}

fn permute(p: &mut Vec<usize>, k: usize, f: &mut dyn FnMut(&[usize])) {
    if k == p.len() {
        f(p);
        return;
    }
    for i in k..p.len() {
        p.swap(k, i);
        permute(p, k + 1, f);
        p.swap(k, i);
    }
}
