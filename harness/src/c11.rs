//! C11 — Matrix URIs: cases and implementation outcomes.
//!
//! value encodings
//!   id     = ( N0 S<room id> ) | ( N1 S<room alias> ) | ( N2 S<user id> ) | ( N3 S<room or alias> S<event id> )
//!   via    = ( S<server name> ... )
//!   action = ( ) | ( N0 ) join | ( N1 ) chat | ( N2 S<custom> )
//!   to     = ( id via )                 a `MatrixToUri` read back through `id()`, `via()`
//!   uri    = ( id via action )          a `MatrixUri` read back through `id()`, `via()`, `action()`
//!
//! case = ( N0 id via )        build a `MatrixToUri` with ruma's public constructors
//!                             (`RoomId::matrix_to_uri{,_via}`, `matrix_to_event_uri{,_via}`,
//!                             `RoomAliasId::matrix_to_uri`, `matrix_to_event_uri`, `UserId::matrix_to_uri`),
//!                             format it, parse the text back
//!      | ( N1 id via N<flag> ) the same for `MatrixUri` (`matrix_uri{,_via}(.., join)`, `matrix_event_uri{,_via}`,
//!                             `UserId::matrix_uri(chat)`)
//!      | ( N2 S<text> )       `MatrixToUri::parse(text)`; when accepted: format the value, parse that text again
//!      | ( N3 S<text> )       `MatrixUri::parse(text)`; likewise
//!      | ( N5 S<text> )       the same as N3, for a text that the implementation parses to an identifier of the
//!                             open finding C11-empty-opaque-id (room id "!" or event id "$"); Run.v checks the
//!                             label against the model
//!
//! outcome of N0/N1:  ( N0 ( S<text> <reparse> ) )          reparse = ( N0 value ) | ( N1 N0 ) | ( N2 )
//! outcome of N2/N3:  ( N1 N0 ) | ( N2 ) | ( N0 ( value S<text> <reparse> ) )
//! All errors carry code 0 (the property does not speak of error kinds).  A value read back through the
//! accessors is compared with the original both as s-expression and through ruma's `PartialEq`; if the two
//! comparisons differ the outcome is ( N9 ), which the model never produces.  The three parse entry
//! points (`parse`, `FromStr`, `TryFrom<&str>`) must agree, else ( N8 ).
use std::panic::AssertUnwindSafe;

use ruma_common::{
    api::{MatrixVersion, OutgoingRequest},
    matrix_uri::{MatrixId, UriAction},
    EventId, MatrixToUri, MatrixUri, OwnedServerName, RoomAliasId, RoomId, RoomOrAliasId, ServerName, UserId,
};

use crate::{
    rng::Rng,
    sx::{guarded, Sx},
    Emitter,
};

// ---------------------------------------------------------------------------------------------
// value encoding
// ---------------------------------------------------------------------------------------------
fn id_sx(id: &MatrixId) -> Sx {
    match id {
        MatrixId::Room(r) => Sx::L(vec![Sx::N(0), Sx::s(r.as_str())]),
        MatrixId::RoomAlias(a) => Sx::L(vec![Sx::N(1), Sx::s(a.as_str())]),
        MatrixId::User(u) => Sx::L(vec![Sx::N(2), Sx::s(u.as_str())]),
        MatrixId::Event(r, e) => Sx::L(vec![Sx::N(3), Sx::s(r.as_str()), Sx::s(e.as_str())]),
        _ => Sx::L(vec![Sx::N(7)]),
    }
}
fn via_sx(via: &[OwnedServerName]) -> Sx {
    Sx::L(via.iter().map(|s| Sx::s(s.as_str())).collect())
}
fn action_sx(a: Option<&UriAction>) -> Sx {
    match a {
        None => Sx::L(vec![]),
        Some(UriAction::Join) => Sx::L(vec![Sx::N(0)]),
        Some(UriAction::Chat) => Sx::L(vec![Sx::N(1)]),
        Some(other) => Sx::L(vec![Sx::N(2), Sx::s(other.as_str())]),
    }
}
fn to_sx(u: &MatrixToUri) -> Sx {
    Sx::L(vec![id_sx(u.id()), via_sx(u.via())])
}
fn uri_sx(u: &MatrixUri) -> Sx {
    Sx::L(vec![id_sx(u.id()), via_sx(u.via()), action_sx(u.action())])
}

/// `MatrixToUri::parse` through its three entry points.
fn parse_to(s: &str) -> Result<Option<MatrixToUri>, ()> {
    let a = MatrixToUri::parse(s).ok();
    let b = s.parse::<MatrixToUri>().ok();
    let c = MatrixToUri::try_from(s).ok();
    if a == b && b == c {
        Ok(a)
    } else {
        Err(())
    }
}
fn parse_uri(s: &str) -> Result<Option<MatrixUri>, ()> {
    let a = MatrixUri::parse(s).ok();
    let b = s.parse::<MatrixUri>().ok();
    let c = MatrixUri::try_from(s).ok();
    if a == b && b == c {
        Ok(a)
    } else {
        Err(())
    }
}

/// Parse the formatted text again and compare with the value it was formatted from.
fn reparse_to(orig: &MatrixToUri, text: &str) -> Sx {
    let text = text.to_owned();
    let orig = orig.clone();
    guarded(AssertUnwindSafe(move || match parse_to(&text) {
        Err(()) => Sx::L(vec![Sx::N(8)]),
        Ok(None) => Sx::err(0),
        Ok(Some(v)) => {
            if (to_sx(&v) == to_sx(&orig)) != (v == orig) {
                Sx::L(vec![Sx::N(9)])
            } else {
                Sx::ok(to_sx(&v))
            }
        }
    }))
}
fn reparse_uri(orig: &MatrixUri, text: &str) -> Sx {
    let text = text.to_owned();
    let orig = orig.clone();
    guarded(AssertUnwindSafe(move || match parse_uri(&text) {
        Err(()) => Sx::L(vec![Sx::N(8)]),
        Ok(None) => Sx::err(0),
        Ok(Some(v)) => {
            if (uri_sx(&v) == uri_sx(&orig)) != (v == orig) {
                Sx::L(vec![Sx::N(9)])
            } else {
                Sx::ok(uri_sx(&v))
            }
        }
    }))
}

// ---------------------------------------------------------------------------------------------
// running one case
// ---------------------------------------------------------------------------------------------
enum Id {
    Room(String),
    Alias(String),
    User(String),
    Event(String, String),
}

fn id_case(id: &Id) -> Sx {
    match id {
        Id::Room(r) => Sx::L(vec![Sx::N(0), Sx::s(r)]),
        Id::Alias(a) => Sx::L(vec![Sx::N(1), Sx::s(a)]),
        Id::User(u) => Sx::L(vec![Sx::N(2), Sx::s(u)]),
        Id::Event(r, e) => Sx::L(vec![Sx::N(3), Sx::s(r), Sx::s(e)]),
    }
}

fn decode_id(x: &Sx) -> Option<Id> {
    let l = x.as_list()?;
    match (l.first()?.as_int()?, &l[1..]) {
        (0, [r]) => Some(Id::Room(r.as_string()?)),
        (1, [a]) => Some(Id::Alias(a.as_string()?)),
        (2, [u]) => Some(Id::User(u.as_string()?)),
        (3, [r, e]) => Some(Id::Event(r.as_string()?, e.as_string()?)),
        _ => None,
    }
}

fn servers(via: &[String]) -> Option<Vec<OwnedServerName>> {
    via.iter().map(|s| <&ServerName>::try_from(s.as_str()).ok().map(ToOwned::to_owned)).collect()
}

/// Build a `MatrixToUri` with the public constructors; `None` when the identifiers are not accepted by
/// ruma's parsers or no constructor offers this combination.
#[allow(deprecated)]
fn build_to(id: &Id, via: &[String]) -> Option<MatrixToUri> {
    let v = servers(via)?;
    Some(match id {
        Id::Room(r) => {
            let r = <&RoomId>::try_from(r.as_str()).ok()?;
            if v.is_empty() {
                r.matrix_to_uri()
            } else {
                r.matrix_to_uri_via(v)
            }
        }
        Id::Alias(a) if v.is_empty() => <&RoomAliasId>::try_from(a.as_str()).ok()?.matrix_to_uri(),
        Id::User(u) if v.is_empty() => <&UserId>::try_from(u.as_str()).ok()?.matrix_to_uri(),
        Id::Event(r, e) => {
            let e = <&EventId>::try_from(e.as_str()).ok()?;
            let roa = <&RoomOrAliasId>::try_from(r.as_str()).ok()?;
            if roa.is_room_id() {
                let r = <&RoomId>::try_from(r.as_str()).ok()?;
                if v.is_empty() {
                    r.matrix_to_event_uri(e)
                } else {
                    r.matrix_to_event_uri_via(e, v)
                }
            } else if v.is_empty() {
                <&RoomAliasId>::try_from(r.as_str()).ok()?.matrix_to_event_uri(e)
            } else {
                return None;
            }
        }
        _ => return None,
    })
}

#[allow(deprecated)]
fn build_uri(id: &Id, via: &[String], flag: bool) -> Option<MatrixUri> {
    let v = servers(via)?;
    Some(match id {
        Id::Room(r) => {
            let r = <&RoomId>::try_from(r.as_str()).ok()?;
            if v.is_empty() {
                r.matrix_uri(flag)
            } else {
                r.matrix_uri_via(v, flag)
            }
        }
        Id::Alias(a) if v.is_empty() => <&RoomAliasId>::try_from(a.as_str()).ok()?.matrix_uri(flag),
        Id::User(u) if v.is_empty() => <&UserId>::try_from(u.as_str()).ok()?.matrix_uri(flag),
        Id::Event(r, e) if !flag => {
            let e = <&EventId>::try_from(e.as_str()).ok()?;
            let roa = <&RoomOrAliasId>::try_from(r.as_str()).ok()?;
            if roa.is_room_id() {
                let r = <&RoomId>::try_from(r.as_str()).ok()?;
                if v.is_empty() {
                    r.matrix_event_uri(e)
                } else {
                    r.matrix_event_uri_via(e, v)
                }
            } else if v.is_empty() {
                <&RoomAliasId>::try_from(r.as_str()).ok()?.matrix_event_uri(e)
            } else {
                return None;
            }
        }
        _ => return None,
    })
}

fn run_ctor_to(id: &Id, via: &[String]) -> Option<Sx> {
    let u = build_to(id, via)?;
    Some(guarded(AssertUnwindSafe(move || {
        let text = u.to_string();
        let re = reparse_to(&u, &text);
        Sx::ok(Sx::L(vec![Sx::s(&text), re]))
    })))
}
fn run_ctor_uri(id: &Id, via: &[String], flag: bool) -> Option<Sx> {
    let u = build_uri(id, via, flag)?;
    Some(guarded(AssertUnwindSafe(move || {
        let text = u.to_string();
        let re = reparse_uri(&u, &text);
        Sx::ok(Sx::L(vec![Sx::s(&text), re]))
    })))
}

fn run_text_to(s: &str) -> Sx {
    let s = s.to_owned();
    guarded(AssertUnwindSafe(move || match parse_to(&s) {
        Err(()) => Sx::L(vec![Sx::N(8)]),
        Ok(None) => Sx::err(0),
        Ok(Some(v)) => {
            let text = v.to_string();
            let re = reparse_to(&v, &text);
            Sx::ok(Sx::L(vec![to_sx(&v), Sx::s(&text), re]))
        }
    }))
}
fn run_text_uri(s: &str) -> Sx {
    let s = s.to_owned();
    guarded(AssertUnwindSafe(move || match parse_uri(&s) {
        Err(()) => Sx::L(vec![Sx::N(8)]),
        Ok(None) => Sx::err(0),
        Ok(Some(v)) => {
            let text = v.to_string();
            let re = reparse_uri(&v, &text);
            Sx::ok(Sx::L(vec![uri_sx(&v), Sx::s(&text), re]))
        }
    }))
}

fn run_case(case: &Sx) -> Option<Sx> {
    let l = case.as_list()?;
    match (l.first()?.as_int()?, &l[1..]) {
        (0, [id, via]) => {
            let via: Vec<String> = via.as_list()?.iter().map(|x| x.as_string()).collect::<Option<_>>()?;
            run_ctor_to(&decode_id(id)?, &via)
        }
        (1, [id, via, flag]) => {
            let via: Vec<String> = via.as_list()?.iter().map(|x| x.as_string()).collect::<Option<_>>()?;
            run_ctor_uri(&decode_id(id)?, &via, flag.as_int()? != 0)
        }
        (2, [s]) => Some(run_text_to(&s.as_string()?)),
        (3 | 5, [s]) => Some(run_text_uri(&s.as_string()?)),
        _ => None,
    }
}

pub fn replay(case: &Sx) -> Option<Sx> {
    run_case(case)
}

// ---------------------------------------------------------------------------------------------
// dump: membership of PATH_PERCENT_ENCODE_SET, read off the compiled code
// ---------------------------------------------------------------------------------------------
/// `PATH_PERCENT_ENCODE_SET` is `pub(crate)`.  Its membership is observed twice:
///  * `set b x`  — `Metadata::make_endpoint_url` with the one-character path argument `b` (all 128 ASCII
///    bytes; `x` = 1 when the argument came back as `%XX`);
///  * `room b x` — `RoomId("!" b).matrix_to_uri()` for b in 1..=127 (identifiers cannot contain NUL).
/// The translator requires the two observations to agree and cross-checks them with the `.add(b'x')` chain
/// in the source text.  `nonascii x`: a two-byte character is always escaped.
pub fn dump(dir: &str) {
    use std::fmt::Write;
    let meta = <ruma_client_api::profile::get_profile::v3::Request as OutgoingRequest>::METADATA;
    let mut out = String::new();
    for b in 0u8..128 {
        let arg = (b as char).to_string();
        let url = meta
            .make_endpoint_url(&[MatrixVersion::V1_1], "https://h", &[&arg], "")
            .expect("endpoint url");
        let tail = url.rsplit('/').next().unwrap().to_owned();
        let enc = format!("%{b:02X}");
        let x = if tail == enc {
            1
        } else if tail == arg {
            0
        } else {
            // '/' cannot be told apart by rsplit when it is not escaped: the tail is then empty
            assert!(b == b'/' && tail.is_empty(), "unexpected endpoint url {url:?} for byte {b}");
            0
        };
        writeln!(out, "set {b} {x}").unwrap();
        if b != 0 {
            let id = format!("!{}", b as char);
            let r = <&RoomId>::try_from(id.as_str()).expect("room id");
            let text = r.matrix_to_uri().to_string();
            let tail = text.strip_prefix("https://matrix.to/#/!").expect("matrix.to prefix");
            let x = if tail == enc {
                1
            } else {
                assert!(tail == arg, "unexpected matrix.to text {text:?} for byte {b}");
                0
            };
            writeln!(out, "room {b} {x}").unwrap();
        }
    }
    let r = <&RoomId>::try_from("!\u{e9}").unwrap();
    let text = r.matrix_to_uri().to_string();
    writeln!(out, "nonascii {}", (text == "https://matrix.to/#/!%C3%A9") as u8).unwrap();
    std::fs::write(format!("{dir}/c11_percent_set.txt"), out).unwrap();
}

// ---------------------------------------------------------------------------------------------
// generators
// ---------------------------------------------------------------------------------------------
const LOCALS: &[&str] = &[
    "carl",
    "a",
    "",
    "a.b-c_d=e/f+g",
    "CARL",
    "a%41",
    "%",
    "%%",
    "%2",
    "%zz",
    "%2F",
    "%e9",
    "a/b",
    "/",
    "//",
    "a?b",
    "?",
    "a#b",
    "#",
    "a+b",
    "a&b=c",
    "&via=x.y",
    "?via=x.y",
    "\u{e9}t\u{e9}",
    "\u{20ac}uro",
    "\u{1f600}",
    "sp ace",
    " ",
    "ta\tb",
    "a\nb",
    "\r",
    "\u{1}",
    "del\u{7f}",
    "\u{80}",
    "[irc]",
    "{x}",
    "`",
    "\"q\"",
    "<a>",
    "\\",
    "^|",
    "~",
    ".",
    "..",
    "%2e",
    "!#$@",
    "$",
    "e",
    "u",
    "roomid",
];
const SERVERS: &[&str] = &[
    "x.y",
    "example.com",
    "a",
    "matrix.org:8448",
    "EXAMPLE.Com",
    "a-b.c-d",
    "1.2.3.4",
    "1.2.3.4:80",
    "[::1]",
    "[::1]:8448",
    "[1234:5678::abcd]",
    "[::ffff:1.2.3.4]:1",
    "[FE80::A]",
    "-",
    "..",
    "h:0",
    "h:65535",
];
const BAD_SERVERS: &[&str] = &["", "a b", "a/b", "a:b", "[::1", "h:+80", "h:65536", "\u{e9}.x", "a%2Eb", "a+b", "a&b", "a=b", "a#b"];
const OPAQUE: &[&str] = &[
    "",
    "a",
    "Tf2cCLh-6rDSoExj_9oGHqU8QFrs8Xk8CXJEcFEKvzU",
    "abc+def/ghi=",
    "a/b",
    "%",
    "%41",
    "a?b#c",
    "\u{e9}",
    "a b",
    "..",
    ".",
    "e",
    "/",
    "a&b",
];
const ACTIONS: &[&str] = &[
    "",
    "join",
    "chat",
    "a",
    "JOIN",
    "join ",
    " chat",
    "a&b",
    "a#b",
    "a+b",
    "a%b",
    "a%41",
    "%",
    "a b",
    "\u{e9}",
    "\u{1f600}",
    "a=b",
    "a?b",
    "a/b",
    "\t",
    "a\nb",
    "+",
    "&via=x.y",
    "&action=join",
    "*-._~",
    "'\"<>`{}",
    "\u{1}\u{7f}",
];

fn gen_local(r: &mut Rng) -> String {
    if r.chance(2, 3) {
        (*r.pick(LOCALS)).to_owned()
    } else {
        let n = r.below(10);
        (0..n)
            .map(|_| {
                *r.pick(&[
                    "a", "z", "0", "-", ".", "=", "_", "/", "+", "%", "?", "#", "&", "A", "~", "!", "[", "]", "\u{e9}",
                    "\u{20ac}", " ", "@", "$", "\t", "%2F", "%25",
                ])
            })
            .collect()
    }
}
fn gen_server(r: &mut Rng) -> String {
    (*r.pick(SERVERS)).to_owned()
}
fn gen_room(r: &mut Rng) -> String {
    if r.chance(1, 2) {
        format!("!{}", r.pick(OPAQUE))
    } else {
        format!("!{}:{}", gen_local(r), gen_server(r))
    }
}
fn gen_alias(r: &mut Rng) -> String {
    format!("#{}:{}", gen_local(r), gen_server(r))
}
fn gen_user(r: &mut Rng) -> String {
    format!("@{}:{}", gen_local(r), gen_server(r))
}
fn gen_event(r: &mut Rng) -> String {
    if r.chance(1, 2) {
        format!("${}", r.pick(OPAQUE))
    } else {
        format!("${}:{}", gen_local(r), gen_server(r))
    }
}
fn gen_id(r: &mut Rng) -> Id {
    match r.below(5) {
        0 => Id::Room(gen_room(r)),
        1 => Id::Alias(gen_alias(r)),
        2 => Id::User(gen_user(r)),
        3 => Id::Event(gen_room(r), gen_event(r)),
        _ => Id::Event(gen_alias(r), gen_event(r)),
    }
}
fn gen_via(r: &mut Rng) -> Vec<String> {
    let n = *r.pick(&[0usize, 0, 1, 1, 2, 3]);
    (0..n).map(|_| if r.chance(1, 12) { (*r.pick(BAD_SERVERS)).to_owned() } else { gen_server(r) }).collect()
}

/// The harness's own encoder (independent of ruma's): everything but RFC 3986 `unreserved` becomes `%XX`.
fn enc_strict(s: &str) -> String {
    let mut o = String::new();
    for &b in s.as_bytes() {
        if b.is_ascii_alphanumeric() || matches!(b, b'-' | b'.' | b'_' | b'~') {
            o.push(b as char);
        } else {
            o.push_str(&format!("%{b:02X}"));
        }
    }
    o
}
/// A laxer encoder: only the delimiters of the enclosing syntax and `%`, lower-case hex.
fn enc_lax(s: &str) -> String {
    let mut o = String::new();
    for c in s.chars() {
        if matches!(c, '/' | '?' | '#' | '%' | '&' | '=' | '+') {
            o.push_str(&format!("%{:02x}", c as u32));
        } else {
            o.push(c);
        }
    }
    o
}

fn to_text(id: &Id, via: &[String], style: usize) -> String {
    let e: &dyn Fn(&str) -> String = match style {
        0 => &enc_strict,
        1 => &enc_lax,
        _ => &|s: &str| s.to_owned(),
    };
    let mut t = String::from("https://matrix.to/#/");
    match id {
        Id::Room(x) | Id::Alias(x) | Id::User(x) => t.push_str(&e(x)),
        Id::Event(r, ev) => {
            if style == 1 {
                t.push_str(&format!("{}/{}", e(ev), e(r)));
            } else {
                t.push_str(&format!("{}/{}", e(r), e(ev)));
            }
        }
    }
    for (i, v) in via.iter().enumerate() {
        t.push_str(if i == 0 { "?via=" } else { "&via=" });
        t.push_str(&e(v));
    }
    t
}

fn uri_text(id: &Id, via: &[String], action: Option<&str>, style: usize, r: &mut Rng) -> String {
    let e: &dyn Fn(&str) -> String = match style {
        0 => &enc_strict,
        1 => &enc_lax,
        _ => &|s: &str| s.to_owned(),
    };
    let long = style == 1;
    let tail = |s: &str| e(&s[s.char_indices().nth(1).map_or(s.len(), |(i, _)| i)..]);
    let roomty = |x: &str| {
        if x.starts_with('!') {
            "roomid"
        } else if long {
            "room"
        } else {
            "r"
        }
    };
    let mut t = String::from("matrix:");
    match id {
        Id::Room(x) => t.push_str(&format!("roomid/{}", tail(x))),
        Id::Alias(x) => t.push_str(&format!("{}/{}", if long { "room" } else { "r" }, tail(x))),
        Id::User(x) => t.push_str(&format!("{}/{}", if long { "user" } else { "u" }, tail(x))),
        Id::Event(ro, ev) => {
            let et = if long { "event" } else { "e" };
            if r.chance(1, 4) {
                t.push_str(&format!("{et}/{}/{}/{}", tail(ev), roomty(ro), tail(ro)));
            } else {
                t.push_str(&format!("{}/{}/{et}/{}", roomty(ro), tail(ro), tail(ev)));
            }
        }
    }
    let mut items: Vec<String> = via.iter().map(|v| format!("via={}", e(v))).collect();
    if let Some(a) = action {
        let pos = r.below(items.len() + 1);
        items.insert(pos, format!("action={}", e(a)));
    }
    for (i, it) in items.iter().enumerate() {
        t.push(if i == 0 { '?' } else { '&' });
        t.push_str(it);
    }
    t
}

/// Single-edit mutants of `s` (on characters) over `alphabet`, plus every truncation.
fn mutants(s: &str, alphabet: &[&str], out: &mut Vec<String>) {
    let chars: Vec<char> = s.chars().collect();
    for i in 0..chars.len() {
        let mut d: String = chars[..i].iter().collect();
        out.push(d.clone()); // truncation
        d.extend(chars[i + 1..].iter());
        out.push(d); // deletion
    }
    for i in 0..=chars.len() {
        for a in alphabet {
            let mut d: String = chars[..i].iter().collect();
            d.push_str(a);
            d.extend(chars[i..].iter());
            out.push(d);
        }
    }
    for i in 0..chars.len() {
        for a in alphabet {
            let mut d: String = chars[..i].iter().collect();
            d.push_str(a);
            d.extend(chars[i + 1..].iter());
            out.push(d);
        }
    }
}

fn exhaustive(alphabet: &[&str], n: usize, f: &mut dyn FnMut(&str)) {
    let mut idx: Vec<usize> = vec![];
    loop {
        let s: String = idx.iter().map(|&i| alphabet[i]).collect();
        f(&s);
        let mut k = idx.len();
        loop {
            if k == 0 {
                if idx.len() == n {
                    return;
                }
                idx = vec![0; idx.len() + 1];
                break;
            }
            k -= 1;
            if idx[k] + 1 < alphabet.len() {
                idx[k] += 1;
                for j in k + 1..idx.len() {
                    idx[j] = 0;
                }
                break;
            }
        }
    }
}

fn emit_to(em: &mut Emitter, tag: &str, s: &str) {
    em.emit(tag, Sx::L(vec![Sx::N(2), Sx::s(s)]), run_text_to(s));
}
/// Whether the accepted value's identifier is in the class of the open finding C11-empty-opaque-id
/// (room id "!" / event id "$"): such texts are recorded under the case kind N5 instead of N3.
fn empty_opaque(out: &Sx) -> bool {
    let id = (|| out.as_list()?.get(1)?.as_list()?.first()?.as_list()?.first())();
    match id.and_then(Sx::as_list) {
        Some([Sx::N(0), r]) => r.as_bytes() == Some(b"!"),
        Some([Sx::N(3), _, e]) => e.as_bytes() == Some(b"$"),
        _ => false,
    }
}
fn emit_uri(em: &mut Emitter, tag: &str, s: &str) {
    let out = run_text_uri(s);
    let kind = if empty_opaque(&out) { 5 } else { 3 };
    em.emit(tag, Sx::L(vec![Sx::N(kind), Sx::s(s)]), out);
}
fn emit_ctor(em: &mut Emitter, tag: &str, id: &Id, via: &[String]) {
    let vs = Sx::L(via.iter().map(|s| Sx::s(s)).collect());
    if let Some(o) = run_ctor_to(id, via) {
        em.emit(tag, Sx::L(vec![Sx::N(0), id_case(id), vs.clone()]), o);
    }
    for flag in [false, true] {
        if let Some(o) = run_ctor_uri(id, via, flag) {
            em.emit(tag, Sx::L(vec![Sx::N(1), id_case(id), vs.clone(), Sx::b(flag)]), o);
        }
    }
}

const MUT: &[&str] = &[
    "/", "?", "#", "%", "&", "=", "+", ":", "!", "$", "@", "a", "e", "%2F", "%00", "%FF", "%C3", "%c3%a9", "\t", "\n", " ",
    "\u{e9}", "//", "..", "%2", "\\", "[", "]",
];

/// Hand-written texts: the tests' examples, the candidate defects of DESIGN section 11, and the corners of
/// the `url` crate that a `matrix:` URI can reach.
const FIXED_TO: &[&str] = &[
    "",
    "https://matrix.to/#/",
    "https://matrix.to/#",
    "https://matrix.to/#//",
    "https://matrix.to/#///",
    "https://matrix.to/#/!x///",
    "https://matrix.to/#/!x//",
    "https://matrix.to/#/!x/",
    "https://matrix.to/#///x",
    "https://matrix.to/#//x/",
    "https://matrix.to/#/!x//$y",
    "https://matrix.to/#/!x/$y/",
    "https://matrix.to/#//!x/$y",
    "https://matrix.to/#/$y/!x",
    "https://matrix.to/#/$y/#x:a.b",
    "https://matrix.to/#/$y",
    "https://matrix.to/#/%24y/%21x",
    "https://matrix.to/#/!",
    "https://matrix.to/#/!/$",
    "https://matrix.to/#/!/$/",
    "https://matrix.to/#/%",
    "https://matrix.to/#/%2",
    "https://matrix.to/#/%2F",
    "https://matrix.to/#/%2F!x",
    "https://matrix.to/#/!x%2F",
    "https://matrix.to/#/!x%2F$y",
    "https://matrix.to/#/%00",
    "https://matrix.to/#/!%00",
    "https://matrix.to/#/!%FF",
    "https://matrix.to/#/!%C3",
    "https://matrix.to/#/!%C3%A9",
    "https://matrix.to/#/!%c3%a9",
    "https://matrix.to/#/!x?",
    "https://matrix.to/#/!x??",
    "https://matrix.to/#/!x?via=a.b?",
    "https://matrix.to/#/!x?via=a.b?via=c.d",
    "https://matrix.to/#/!x?via=a.b/",
    "https://matrix.to/#/!x/?via=a.b",
    "https://matrix.to/#/!x?via=a.b&",
    "https://matrix.to/#/!x?&&via=a.b&&",
    "https://matrix.to/#/!x?via",
    "https://matrix.to/#/!x?via=",
    "https://matrix.to/#/!x?=a.b",
    "https://matrix.to/#/!x?via=a.b=c",
    "https://matrix.to/#/!x?v%69a=a.b",
    "https://matrix.to/#/!x?via=a%2Eb",
    "https://matrix.to/#/!x?via=a+b",
    "https://matrix.to/#/!x?via=%FF",
    "https://matrix.to/#/!x?via=a.b#c",
    "https://matrix.to/#/!x?VIA=a.b",
    "https://matrix.to/#/!x?via=a.b&custom=data",
    "https://matrix.to/#/!x?via=[::1]:80",
    "https://matrix.to/#/@a%2541:x.y",
    "https://matrix.to/#/@a%41:x.y",
    "https://matrix.to/#/%40jplatte%3Anotareal.hs",
    "https://matrix.to/#/#ruma:notareal.hs/$event:notareal.hs",
    "https://matrix.to/#/%40jplatte%3Anotareal.hs/%24event%3Anotareal.hs",
    "HTTPS://matrix.to/#/!x",
    "https://matrix.to/#/!x\n",
    " https://matrix.to/#/!x",
    "https://matrix.to/#/notanidentifier",
    "https://notreal.to/#/",
];
const FIXED_URI: &[&str] = &[
    "",
    "matrix",
    "matrix:",
    "matrix:/",
    "matrix://",
    "matrix:///",
    "matrix:u",
    "matrix:u/",
    "matrix:u//",
    "matrix:/u/a:x.y",
    "matrix://h/u/a:x.y",
    "matrix://h:80/u/a:x.y",
    "matrix://h:99999/u/a:x.y",
    "matrix://h:/u/a:x.y",
    "matrix://h:80\\u/a:x.y",
    "matrix://u@h/u/a:x.y",
    "matrix://u:p@h/u/a:x.y",
    "matrix://@h/u/a:x.y",
    "matrix://@/u/a:x.y",
    "matrix://a@b@h/u/a:x.y",
    "matrix://[::1]/u/a:x.y",
    "matrix://[::1]:8/u/a:x.y",
    "matrix://[::1/u/a:x.y",
    "matrix://[1:2:3:4:5:6:7:8]/u/a:x.y",
    "matrix://[1:2:3:4:5:6:1.2.3.4]/u/a:x.y",
    "matrix://[::1.2.3.4]/u/a:x.y",
    "matrix://[::1.2.3]/u/a:x.y",
    "matrix://[::01.2.3.4]/u/a:x.y",
    "matrix://[1::2::3]/u/a:x.y",
    "matrix://[:1]/u/a:x.y",
    "matrix://[1:]/u/a:x.y",
    "matrix://[12345::]/u/a:x.y",
    "matrix://[]/u/a:x.y",
    "matrix://h h/u/a:x.y",
    "matrix://h%20h/u/a:x.y",
    "matrix://h^/u/a:x.y",
    "matrix://h|/u/a:x.y",
    "matrix://\u{e9}/u/a:x.y",
    "matrix:///u/a:x.y",
    "matrix:////u/a:x.y",
    "matrix://?via=x.y",
    "matrix://h?via=x.y",
    "matrix://h#f",
    "matrix:/./u/a:x.y",
    "matrix:/../u/a:x.y",
    "matrix:/x/../u/a:x.y",
    "matrix:/u/x/../a:x.y",
    "matrix:/u/a:x.y/..",
    "matrix:/u/a:x.y/.",
    "matrix:/u/a:x.y/./",
    "matrix:/u/%2e/a:x.y",
    "matrix:/u/%2E%2e/a:x.y",
    "matrix:/u/.%2e/u/a:x.y",
    "matrix:/c:/../u/a:x.y",
    "matrix:/c|/../u/a:x.y",
    "matrix:/x/c:/../u/a:x.y",
    "matrix:/c:/../../u/a:x.y",
    "matrix:/.//u/a:x.y",
    "matrix:/..//u/a:x.y",
    "matrix:/u\\a:x.y",
    "matrix:/u/a b:x.y",
    "matrix:/u/a{b}:x.y",
    "matrix:/u/\u{e9}:x.y",
    "matrix:/u/%C3%A9:x.y",
    "matrix:/\tu/a:x.y",
    "matrix:u/./a:x.y",
    "matrix:u/../a:x.y",
    "matrix:u/..",
    "matrix:u/a:x.y/",
    "matrix:u/a:x.y//",
    "matrix:/u/a:x.y/",
    "matrix://u/a:x.y",
    "matrix:roomid//",
    "matrix:roomid/",
    "matrix:roomid//e/x",
    "matrix:roomid/x/e/",
    "matrix:roomid/x/e//",
    "matrix:e//roomid/x",
    "matrix:r/a:x.y/e//",
    "matrix:u/a:x.y/r/b:x.y/e",
    "matrix:u/a:x.y/r/b:x.y",
    "matrix:u/a:x.y/e/b",
    "matrix:e/b/u/a:x.y",
    "matrix:e/b/e/c",
    "matrix:e/b",
    "matrix:x/a:x.y",
    "matrix:U/a:x.y",
    "MATRIX:u/a:x.y",
    "mAtRiX:u/a:x.y",
    "ma\ttrix:u/a:x.y",
    "matrix\n:u/a:x.y",
    " matrix:u/a:x.y ",
    "\u{0}matrix:u/a:x.y\u{1f}",
    "\u{a0}matrix:u/a:x.y",
    "matrix:u/a:x.y\u{a0}",
    "matrix:u/a\t:x\n.y\r",
    "matrix:u/a\u{1}:x.y",
    "matrix:u/a\u{7f}:x.y",
    "matrix:u/a :x.y",
    "matrix:u/ a:x.y",
    "matrix:u/\u{e9}:x.y",
    "matrix:u/a%41:x.y",
    "matrix:u/a%2541:x.y",
    "matrix:u/a%:x.y",
    "matrix:u/a%2:x.y",
    "matrix:u/a%2Fb:x.y",
    "matrix:u/a%00b:x.y",
    "matrix:u/%FF:x.y",
    "matrix:u/a:x.y#",
    "matrix:u/a:x.y#frag",
    "matrix:u/a:x.y#?action=join",
    "matrix:u/a:x.y?",
    "matrix:u/a:x.y?#",
    "matrix:u/a:x.y??",
    "matrix:u/a:x.y?action=join#f",
    "matrix:u/a:x.y?action=join?",
    "matrix:u/a:x.y?action=a?b",
    "matrix:u/a:x.y?action=chat&action=chat",
    "matrix:u/a:x.y?action=&action=",
    "matrix:u/a:x.y?action",
    "matrix:u/a:x.y?action=",
    "matrix:u/a:x.y?=join",
    "matrix:u/a:x.y?action=jo%69n",
    "matrix:u/a:x.y?action=JOIN",
    "matrix:u/a:x.y?action=a%26b",
    "matrix:u/a:x.y?action=a%23b",
    "matrix:u/a:x.y?action=a%2Bb",
    "matrix:u/a:x.y?action=a+b",
    "matrix:u/a:x.y?action=a%25b",
    "matrix:u/a:x.y?action=a%b",
    "matrix:u/a:x.y?action=%",
    "matrix:u/a:x.y?action=%4",
    "matrix:u/a:x.y?action=%FF",
    "matrix:u/a:x.y?action=%C3",
    "matrix:u/a:x.y?action=%C3%A9",
    "matrix:u/a:x.y?action=%E2%82",
    "matrix:u/a:x.y?action=%E2%82%AC",
    "matrix:u/a:x.y?action=%E0%80%80",
    "matrix:u/a:x.y?action=%ED%A0%80",
    "matrix:u/a:x.y?action=%F0%9F%98",
    "matrix:u/a:x.y?action=%F0%9F%98%80",
    "matrix:u/a:x.y?action=%F4%90%80%80",
    "matrix:u/a:x.y?action=%F5%80",
    "matrix:u/a:x.y?action=%80",
    "matrix:u/a:x.y?action=%C0%80",
    "matrix:u/a:x.y?action=%C3%C3%A9",
    "matrix:u/a:x.y?action=\u{e9}",
    "matrix:u/a:x.y?action=a b",
    "matrix:u/a:x.y?action=a\"b'<>",
    "matrix:u/a:x.y?action=a\tb",
    "matrix:u/a:x.y?action=%09",
    "matrix:u/a:x.y?action=%0A",
    "matrix:u/a:x.y?action=%00",
    "matrix:u/a:x.y?action=%20",
    "matrix:u/a:x.y?action=join%20",
    "matrix:u/a:x.y?action=join ",
    "matrix:u/a:x.y?via=x.y",
    "matrix:u/a:x.y?via=",
    "matrix:u/a:x.y?via",
    "matrix:u/a:x.y?via=x.y&&via=z",
    "matrix:u/a:x.y?&via=x.y&",
    "matrix:u/a:x.y?via=x+y",
    "matrix:u/a:x.y?via=x%2Ey",
    "matrix:u/a:x.y?via=[::1]:80",
    "matrix:u/a:x.y?via=%5B::1%5D",
    "matrix:u/a:x.y?via=h:+80",
    "matrix:u/a:x.y?via=%FF",
    "matrix:u/a:x.y?VIA=x.y",
    "matrix:u/a:x.y?v%69a=x.y",
    "matrix:u/a:x.y?via=x.y=z",
    "matrix:u/a:x.y?custom=data",
    "matrix:roomid/ruma:notareal.hs/e/event:notareal.hs?via=notareal.hs&action=join&via=anotherinexistant.hs",
    "http://matrix.to/",
    "https://matrix.to/#/!x",
    "file:///u/a:x.y",
    "matri:u/a:x.y",
    "matrixx:u/a:x.y",
    "matrix+x:u/a:x.y",
    "1matrix:u/a:x.y",
    ":u/a:x.y",
    "u/a:x.y",
    "matrix;u/a:x.y",
    "mátrix:u/a:x.y",
];

pub fn run(tier: &str, seed: u64, em: &mut Emitter) {
    let thorough = tier == "thorough";
    let mut r = Rng::new(seed ^ 0xC11);

    // ---- systematic 1: hand-written texts ---------------------------------------------------------
    for s in FIXED_TO {
        emit_to(em, "systematic-fixed", s);
        emit_uri(em, "systematic-fixed", s);
    }
    for s in FIXED_URI {
        emit_uri(em, "systematic-fixed", s);
        emit_to(em, "systematic-fixed", s);
    }

    // ---- systematic 2: every local part x every id kind through the constructors ------------------
    for l in LOCALS {
        for sn in ["x.y", "[::1]:8448"] {
            let room = format!("!{l}:{sn}");
            let alias = format!("#{l}:{sn}");
            let user = format!("@{l}:{sn}");
            let ev = format!("${l}:{sn}");
            let via1 = vec!["x.y".to_owned()];
            let via2 = vec!["[::1]:8448".to_owned(), "a-b.c:1".to_owned(), "1.2.3.4".to_owned()];
            for via in [&vec![], &via1, &via2] {
                emit_ctor(em, "systematic-ctor", &Id::Room(room.clone()), via);
                emit_ctor(em, "systematic-ctor", &Id::Event(room.clone(), ev.clone()), via);
                emit_ctor(em, "systematic-ctor", &Id::Event(room.clone(), "$opaque".into()), via);
            }
            emit_ctor(em, "systematic-ctor", &Id::Alias(alias.clone()), &[]);
            emit_ctor(em, "systematic-ctor", &Id::User(user), &[]);
            emit_ctor(em, "systematic-ctor", &Id::Event(alias, ev), &[]);
        }
    }
    for o in OPAQUE {
        for p in OPAQUE {
            emit_ctor(em, "systematic-ctor", &Id::Room(format!("!{o}")), &[]);
            emit_ctor(em, "systematic-ctor", &Id::Event(format!("!{o}"), format!("${p}")), &["x.y".to_owned()]);
        }
    }
    // every ASCII byte (and a few non-ASCII characters) inside each identifier kind
    let mut specials: Vec<String> = (1u8..128).map(|b| (b as char).to_string()).collect();
    specials.extend(["\u{80}", "\u{e9}", "\u{7ff}", "\u{800}", "\u{20ac}", "\u{ffff}", "\u{10000}", "\u{10ffff}"].map(String::from));
    for c in &specials {
        emit_ctor(em, "systematic-bytes", &Id::Room(format!("!a{c}b")), &[]);
        emit_ctor(em, "systematic-bytes", &Id::Room(format!("!{c}")), &["x.y".to_owned()]);
        emit_ctor(em, "systematic-bytes", &Id::User(format!("@a{c}b:x.y")), &[]);
        emit_ctor(em, "systematic-bytes", &Id::Alias(format!("#{c}:x.y")), &[]);
        emit_ctor(em, "systematic-bytes", &Id::Event(format!("!{c}"), format!("${c}")), &[]);
        // the same characters, raw, in texts
        emit_to(em, "systematic-bytes", &format!("https://matrix.to/#/!a{c}b"));
        emit_to(em, "systematic-bytes", &format!("https://matrix.to/#/!a?via=x{c}y"));
        emit_uri(em, "systematic-bytes", &format!("matrix:roomid/a{c}b"));
        emit_uri(em, "systematic-bytes", &format!("matrix:/roomid/a{c}b"));
        emit_uri(em, "systematic-bytes", &format!("matrix://h{c}/roomid/ab"));
        emit_uri(em, "systematic-bytes", &format!("matrix:roomid/ab?action=x{c}y"));
        emit_uri(em, "systematic-bytes", &format!("matrix:roomid/ab?via=x{c}y"));
        emit_uri(em, "systematic-bytes", &format!("matrix:roomid/ab#x{c}y"));
        emit_uri(em, "systematic-bytes", &format!("ma{c}trix:roomid/ab"));
        emit_uri(em, "systematic-bytes", &format!("{c}matrix:roomid/ab{c}"));
    }
    // every %XX escape in a path segment and in a query value
    for b in 0u32..256 {
        emit_to(em, "systematic-bytes", &format!("https://matrix.to/#/!a%{b:02X}"));
        emit_uri(em, "systematic-bytes", &format!("matrix:roomid/a%{b:02x}"));
        emit_uri(em, "systematic-bytes", &format!("matrix:roomid/a?action=%{b:02X}"));
        emit_uri(em, "systematic-bytes", &format!("matrix:roomid/a?action=%C3%{b:02X}"));
        emit_uri(em, "systematic-bytes", &format!("matrix:roomid/a?action=%E2%{b:02X}%AC"));
        emit_uri(em, "systematic-bytes", &format!("matrix:roomid/a?action=%F0%{b:02X}%98%80"));
        emit_uri(em, "systematic-bytes", &format!("matrix:roomid/a?action=%{b:02X}%80%80%80"));
    }

    // identifiers at and around the 255-byte limit, made of characters that stay as they are, that
    // are escaped (1 byte -> 3) and that are multi-byte and escaped (3 bytes -> 9): the text of a
    // legal value is up to three times as long as the identifiers
    for fill in ["a", "%", "/", "\u{e9}", "\u{90e8}", "\u{1F600}"] {
        for total in [200usize, 252, 253, 254, 255, 256] {
            let mk = |sigil: &str, tail: &str| {
                let room = total.saturating_sub(sigil.len() + tail.len());
                format!("{sigil}{}{tail}", fill.repeat(room / fill.len()))
            };
            let room = mk("!", ":x.y");
            let opaque = mk("!", "");
            let alias = mk("#", ":x.y");
            let user = mk("@", ":x.y");
            let ev = mk("$", ":x.y");
            let via = vec!["x.y".to_owned()];
            emit_ctor(em, "systematic-long", &Id::Room(room.clone()), &via);
            emit_ctor(em, "systematic-long", &Id::Room(opaque), &[]);
            emit_ctor(em, "systematic-long", &Id::Alias(alias.clone()), &[]);
            emit_ctor(em, "systematic-long", &Id::User(user), &[]);
            emit_ctor(em, "systematic-long", &Id::Event(room, ev.clone()), &via);
            emit_ctor(em, "systematic-long", &Id::Event(alias, ev), &[]);
        }
    }

    // ---- systematic 3: every action string on every id kind, through texts ------------------------
    for a in ACTIONS {
        for style in 0..3 {
            for id in [
                Id::User("@a:x.y".into()),
                Id::Room("!r".into()),
                Id::Alias("#a%b:x.y".into()),
                Id::Event("!r:x.y".into(), "$e".into()),
            ] {
                for via in [vec![], vec!["x.y".to_owned(), "[::1]:80".to_owned()]] {
                    let t = uri_text(&id, &via, Some(a), style, &mut r);
                    emit_uri(em, "systematic-actions", &t);
                }
            }
        }
    }

    // ---- systematic 4: exhaustive short strings after each base prefix ----------------------------
    let alpha: &[&str] = &["/", "?", "#", "%", "!", "$", "@", "a", ":", "."];
    let n = if thorough { 5 } else { 3 };
    for pre in ["https://matrix.to/#/", "https://matrix.to/#/!a:b/", "https://matrix.to/#/!a?via="] {
        exhaustive(alpha, n, &mut |w| emit_to(em, "systematic-exhaustive", &format!("{pre}{w}")));
    }
    for pre in ["matrix:", "matrix:u/", "matrix:roomid/a/", "matrix:r/a:b/e/", "matrix:u/a:b?"] {
        exhaustive(alpha, n, &mut |w| emit_uri(em, "systematic-exhaustive", &format!("{pre}{w}")));
    }
    // the hierarchical forms (authority, dot segments) over their own alphabets
    let n2 = if thorough { 6 } else { 4 };
    exhaustive(&["/", ".", "%2e", "%2E", "a", "c:", "?", "u/a:b"], if thorough { 5 } else { 4 }, &mut |w| {
        emit_uri(em, "systematic-exhaustive", &format!("matrix:/{w}"));
    });
    exhaustive(&["/", "@", ":", "[", "]", "a", "1", "?", "#", "\\"], if thorough { 5 } else { 3 }, &mut |w| {
        emit_uri(em, "systematic-exhaustive", &format!("matrix://{w}"));
        emit_uri(em, "systematic-exhaustive", &format!("matrix://{w}/u/a:b"));
    });
    exhaustive(&["0", "1", "f", "g", ":", "."], n2, &mut |w| {
        emit_uri(em, "systematic-exhaustive", &format!("matrix://[{w}]/u/a:b"));
    });
    exhaustive(&["&", "=", "+", "%", "via", "action", "a", "join", "x.y", "%41", "#"], if thorough { 5 } else { 4 }, &mut |w| {
        emit_uri(em, "systematic-exhaustive", &format!("matrix:u/a:b?{w}"));
    });
    exhaustive(&["&", "=", "+", "%", "via", "a", "x.y", "%2E", "?", "/"], if thorough { 5 } else { 3 }, &mut |w| {
        emit_to(em, "systematic-exhaustive", &format!("https://matrix.to/#/!a?{w}"));
    });

    // ---- random structured: values -> constructors, values -> texts in three styles, mutants ------
    let n_vals = if thorough { 60000 } else { 2500 };
    for i in 0..n_vals {
        let id = gen_id(&mut r);
        let via = gen_via(&mut r);
        emit_ctor(em, "random-ctor", &id, &via);
        let style = r.below(3);
        let t = to_text(&id, &via, style);
        emit_to(em, "random-text", &t);
        let action = match r.below(4) {
            0 => None,
            1 => Some("join"),
            2 => Some("chat"),
            _ => Some(*r.pick(ACTIONS)),
        };
        let u = uri_text(&id, &via, action, style, &mut r);
        emit_uri(em, "random-text", &u);
        let every = if thorough { 600 } else { 500 };
        if i % every == 0 {
            let mut ms = vec![];
            mutants(&t, MUT, &mut ms);
            for m in &ms {
                emit_to(em, "random-mutant", m);
            }
            ms.clear();
            mutants(&u, MUT, &mut ms);
            for m in &ms {
                emit_uri(em, "random-mutant", m);
            }
        }
    }

    // ---- malformed: unstructured strings --------------------------------------------------------------
    let n_mal = if thorough { 40000 } else { 3000 };
    for _ in 0..n_mal {
        let n = r.below(20);
        let mut s = String::new();
        for _ in 0..n {
            if r.chance(1, 3) {
                s.push_str(*r.pick(&[
                    "/", "?", "#", "%", "&", "=", "+", ":", "!", "$", "@", "u", "r", "e", "roomid", "via", "action", "%2F", "%C3",
                    "\u{e9}", "\t", " ", "x.y", "..", "[", "]", "\\",
                ]));
            } else {
                s.push((0x20 + r.below(0x5f)) as u8 as char);
            }
        }
        match r.below(4) {
            0 => emit_to(em, "malformed", &format!("https://matrix.to/#/{s}")),
            1 => emit_uri(em, "malformed", &format!("matrix:{s}")),
            2 => emit_uri(em, "malformed", &s),
            _ => emit_to(em, "malformed", &s),
        }
    }
}
