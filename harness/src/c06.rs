//! C06 — determinism of state resolution at run time: every scenario is resolved many times,
//! on several threads, with the state sets / auth chains passed in permuted orders and freshly
//! built HashMaps/HashSets (fresh `RandomState` seeds on every call).  All results must be equal;
//! the common result is the outcome compared with the model's single answer.
//!
//! case    = as C07 ( N0 Nversion EVENTS SETS CHAINS )
//! outcome = ( N0 RESULT ORACLE ) | ( N1 N0 ORACLE )       all runs agree
//!         | ( N3 A B ORACLE )                              two runs disagree (A, B their results)
//! large scenarios: case ( N7 Nsize ), outcome ( N0 ( N<all runs agree> S<power-levels winner> ) )
use std::sync::Arc;

use crate::{
    c07::{call_resolve_via, case_sx, decode_case, histories, oracle, outcome_sx, pick_subsets, scenario_chain_through_unconflicted,
          scenario_concurrent_moderators, scenario_long_fork, scenario_mainline, smap_sx, ResolveCase, SMap, Sim},
    rng::Rng,
    sx::{guarded, Sx},
    Emitter,
};

const THREADS: usize = 4;
const RUNS_PER_THREAD: usize = 4;

fn res_sx(r: &Result<SMap, ()>) -> Sx {
    match r {
        Ok(m) => Sx::ok(smap_sx(m)),
        Err(()) => Sx::err(0),
    }
}

pub fn run_many(c: &ResolveCase, seed: u64) -> Option<Sx> {
    let store = c.store();
    let c2 = c.clone();
    let st2 = store.clone();
    let orc = match std::panic::catch_unwind(move || oracle(&c2, &st2)) {
        Ok(Some(o)) => o,
        Ok(None) => return None,
        Err(_) => return Some(Sx::panic()),
    };
    let c = Arc::new(c.clone());
    let store = Arc::new(store);
    let mut handles = vec![];
    for t in 0..THREADS {
        let c = c.clone();
        let store = store.clone();
        handles.push(std::thread::spawn(move || {
            let mut r = Rng::new(seed ^ (0xC06 + t as u64 * 7919));
            let mut out = vec![];
            for _ in 0..RUNS_PER_THREAD {
                let mut order: Vec<usize> = (0..c.sets.len()).collect();
                for i in (1..order.len()).rev() {
                    let j = r.below(i + 1);
                    order.swap(i, j);
                }
                out.push(call_resolve_via(&c, &store, &order, r.below(4)));
            }
            out
        }));
    }
    let mut all: Vec<Result<SMap, ()>> = vec![];
    for h in handles {
        match h.join() {
            Ok(v) => all.extend(v),
            Err(_) => return Some(Sx::panic()),
        }
    }
    let first = all[0].clone();
    for r in &all[1..] {
        if *r != first {
            return Some(Sx::L(vec![Sx::N(3), res_sx(&first), res_sx(r), orc]));
        }
    }
    Some(outcome_sx(&first, orc))
}

/// A scenario too large for the wire format and the list-based model: the case is its size only, the
/// outcome says whether all runs agreed and which power-levels event won.
/// case ( N7 Nn )   outcome ( N0 N<all runs agree> S<winning m.room.power_levels event> )
fn run_large(n: usize, seed: u64) -> Sx {
    let c = Arc::new(scenario_long_fork(n));
    let store = Arc::new(c.store());
    let mut handles = vec![];
    for t in 0..THREADS {
        let (c, store) = (c.clone(), store.clone());
        handles.push(std::thread::spawn(move || {
            let mut r = Rng::new(seed ^ (0xC06 + t as u64 * 104_729));
            (0..RUNS_PER_THREAD)
                .map(|_| {
                    let order = if r.chance(1, 2) { vec![0, 1] } else { vec![1, 0] };
                    call_resolve_via(&c, &store, &order, r.below(4))
                })
                .collect::<Vec<_>>()
        }));
    }
    let mut all: Vec<Result<SMap, ()>> = vec![];
    for h in handles {
        match h.join() {
            Ok(v) => all.extend(v),
            Err(_) => return Sx::panic(),
        }
    }
    let agree = all.iter().all(|r| *r == all[0]);
    let winner = match &all[0] {
        Ok(m) => m.get(&("m.room.power_levels".to_owned(), String::new())).map(|i| i.to_string()).unwrap_or_default(),
        Err(()) => "error".to_owned(),
    };
    Sx::ok(Sx::L(vec![Sx::b(agree), Sx::s(&winner)]))
}

fn emit(em: &mut Emitter, tag: &str, c: &ResolveCase, seed: u64) {
    if let Some(out) = run_many(c, seed) {
        em.emit(tag, case_sx(c), out);
    }
}

pub fn run(tier: &str, seed: u64, em: &mut Emitter) {
    let mut r = Rng::new(seed ^ 0xC06);
    for tx in [5u64, 10, 20] {
        for ty in [5u64, 10, 20] {
            emit(em, "systematic", &scenario_mainline(tx, ty), r.next());
            emit(em, "systematic", &scenario_chain_through_unconflicted(tx, ty), r.next());
            emit(em, "systematic", &scenario_concurrent_moderators(tx, ty), r.next());
            for f in [false, true] {
                emit(em, "systematic", &crate::c07::scenario_duplicate_power_levels_slot(tx + 10, ty + 10, f), r.next());
            }
            for v in [8u8, 10] {
                emit(em, "systematic", &crate::c07::scenario_restricted_join_vs_ban(v, tx + 10, ty + 10), r.next());
            }
        }
    }
    for ts in [5u64, 25, 40] {
        for f in [false, true] {
            emit(em, "systematic", &crate::c07::scenario_duplicate_member_slot(ts, f), r.next());
        }
    }
    // long one-sided forks (sizes around the powers of two and ten that caps and batch sizes like)
    let sizes: &[usize] = if tier == "thorough" { &[40, 130, 260, 520, 1030, 2100, 4200, 8300, 16500] } else { &[70, 300, 1100, 4500, 9000] };
    for n in sizes {
        let (n, sd) = (*n, r.next());
        em.emit("large-fork", Sx::L(vec![Sx::N(7), Sx::N(n as i128)]), guarded(move || run_large(n, sd)));
    }
    for h in 0..histories(tier) {
        let steps = 6 + r.below(22);
        // histories differ from C07's (different seed mix)
        let mut s = Sim::history(seed.wrapping_mul(7_000_003).wrapping_add(h as u64) ^ 0xC06, steps);
        for nodes in pick_subsets(&mut s, 4) {
            let c = s.case_for(&nodes);
            emit(em, "history", &c, r.next());
            if r.chance(1, 4) {
                if let Some(m) = crate::c07::duplicate_slot_variant(&c, &mut r) {
                    emit(em, "duplicate-slot", &m, r.next());
                }
            }
        }
    }
}

pub fn replay(case: &Sx) -> Option<Sx> {
    if let Some([k, n]) = case.as_list() {
        if k.as_int() == Some(7) {
            let n = n.as_int()? as usize;
            return Some(guarded(move || run_large(n, 1)));
        }
    }
    let c = decode_case(case)?;
    run_many(&c, 1)
}

pub fn dump(_dir: &str) {}
