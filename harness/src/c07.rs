//! C07 — state resolution v2: cases and implementation outcomes (shared with C06).
//!
//! case (resolve) = ( N0 Nversion EVENTS SETS CHAINS )
//!   EVENTS = ( EV* )            the event store, in creation order (an event after the events it cites)
//!   EV     = ( Sid Stype (Sskey)? Ssender Nts ( Sauth* ) Scontent )
//!   SETS   = ( ( ( Stype Sskey Sid )* )* )    one state map per fork, entries sorted by key
//!   CHAINS = ( ( Sid* )* )                    full auth chain of each state map, sorted
//! outcome = ( N0 RESULT ORACLE ) | ( N1 N0 ORACLE ) | ( N2 )
//!   RESULT = ( ( Stype Sskey Sid )* )  sorted by key
//!   ORACLE = ( EVO* )  one entry per event of EVENTS, same order: everything the state
//!            resolution code obtains from *other* anchored code about one event, observed on the
//!            real implementation (ruma_state_res::events helpers, auth_types_for_event, auth_check):
//!     EVO  = ( MEM CRE PL ATY VER )
//!     MEM  = ( ) | ( Smembership )          RoomMemberEvent::membership() if Ok (m.room.member only)
//!     CRE  = ( ) | ( ( ) ) | ( ( Suser ) )  not a create event | creator(rules) Err | Ok
//!     PL   = ( ) | ( USERS DEF )            not a power-levels event | ...
//!       USERS = ( ) | ( ( ( Suser Nlevel )* ) )   users(rules) Err | Ok (absent = empty)
//!       DEF   = ( ) | ( ( ) ) | ( ( N ) )         get_as_int(UsersDefault) Err | Ok(None) | Ok(Some)
//!     ATY  = ( ) | ( ( ( Stype Sskey )* ) )  auth_types_for_event Err | Ok   (only for events that can
//!                                            reach the iterative auth check; `( )` otherwise)
//!     VER  = ( ( ( (Sid)? * ) Nverdict )* )  auth_check verdict for every combination of candidate
//!            auth events at the ATY keys (candidates: nothing, the event's own auth event of that
//!            key, the unconflicted entry, every event of the full conflicted set with that key);
//!            the other keys of the auth map are the event's own auth events, as in
//!            iterative_auth_check (lib.rs:460-495).
//!
//! case (exposed sort) = ( N1 GRAPH KEYS )   GRAPH = ( ( Sid ( Sid* ) )* )   KEYS = ( ( Sid Npl Nts )* )
//! outcome = ( N0 ( Sid* ) ) | ( N1 N0 ) | ( N2 )
use std::{
    collections::{BTreeMap, BTreeSet, HashMap, HashSet},
    sync::Arc,
};

use js_int::{Int, UInt};
use ruma_common::{
    room_version_rules::AuthorizationRules, EventId, MilliSecondsSinceUnixEpoch, OwnedEventId, OwnedRoomId,
    OwnedUserId, RoomId, UserId,
};
use ruma_events::{StateEventType, TimelineEventType};
use ruma_state_res::{
    auth_check, auth_types_for_event,
    events::{RoomCreateEvent, RoomMemberEvent, RoomPowerLevelsEvent, RoomPowerLevelsIntField},
    Event, StateMap,
};
use serde_json::value::RawValue as RawJsonValue;

use crate::{
    rng::Rng,
    sx::{guarded, Sx},
    Emitter,
};

pub type Id = OwnedEventId;

#[derive(Clone, Debug)]
pub struct Ev {
    pub id: Id,
    pub room: OwnedRoomId,
    pub sender: OwnedUserId,
    pub ts: u64,
    pub ty: TimelineEventType,
    pub skey: Option<String>,
    pub content: Box<RawJsonValue>,
    pub prev: Vec<Id>,
    pub auth: Vec<Id>,
}

impl Event for Ev {
    type Id = Id;
    fn event_id(&self) -> &Id {
        &self.id
    }
    fn room_id(&self) -> &RoomId {
        &self.room
    }
    fn sender(&self) -> &UserId {
        &self.sender
    }
    fn origin_server_ts(&self) -> MilliSecondsSinceUnixEpoch {
        MilliSecondsSinceUnixEpoch(UInt::new(self.ts).unwrap_or(UInt::MAX))
    }
    fn event_type(&self) -> &TimelineEventType {
        &self.ty
    }
    fn content(&self) -> &RawJsonValue {
        &self.content
    }
    fn state_key(&self) -> Option<&str> {
        self.skey.as_deref()
    }
    fn prev_events(&self) -> Box<dyn DoubleEndedIterator<Item = &Id> + '_> {
        Box::new(self.prev.iter())
    }
    fn auth_events(&self) -> Box<dyn DoubleEndedIterator<Item = &Id> + '_> {
        Box::new(self.auth.iter())
    }
    fn redacts(&self) -> Option<&Id> {
        None
    }
}

pub type Store = HashMap<Id, Arc<Ev>>;
pub type Key = (String, String);
pub type SMap = BTreeMap<Key, Id>;

pub const VERSIONS: &[u8] = &[6, 9, 10, 11];

pub fn rules_of(v: u8) -> AuthorizationRules {
    match v {
        1 | 2 => AuthorizationRules::V1,
        3..=5 => AuthorizationRules::V3,
        6 => AuthorizationRules::V6,
        7 => AuthorizationRules::V7,
        8 | 9 => AuthorizationRules::V8,
        10 => AuthorizationRules::V10,
        _ => AuthorizationRules::V11,
    }
}

pub fn eid(s: &str) -> Id {
    <&EventId>::try_from(s).map(|e| e.to_owned()).unwrap_or_else(|_| panic!("bad event id {s}"))
}
pub fn uid(s: &str) -> OwnedUserId {
    <&UserId>::try_from(s).unwrap().to_owned()
}
pub fn raw(s: &str) -> Box<RawJsonValue> {
    RawJsonValue::from_string(s.to_owned()).unwrap()
}

#[derive(Clone)]
pub struct ResolveCase {
    pub version: u8,
    pub events: Vec<Arc<Ev>>, // creation order
    pub sets: Vec<SMap>,
    pub chains: Vec<BTreeSet<Id>>,
}

impl ResolveCase {
    pub fn store(&self) -> Store {
        self.events.iter().map(|e| (e.id.clone(), e.clone())).collect()
    }
}

// ---------------------------------------------------------------------------------------------
// encoding
// ---------------------------------------------------------------------------------------------
fn key_sx(k: &Key) -> Vec<Sx> {
    vec![Sx::s(&k.0), Sx::s(&k.1)]
}

pub fn smap_sx(m: &SMap) -> Sx {
    Sx::L(m.iter().map(|(k, v)| Sx::L(vec![Sx::s(&k.0), Sx::s(&k.1), Sx::s(v.as_str())])).collect())
}

fn ev_sx(e: &Ev) -> Sx {
    Sx::L(vec![
        Sx::s(e.id.as_str()),
        Sx::s(&e.ty.to_string()),
        Sx::opt(e.skey.as_deref().map(Sx::s)),
        Sx::s(e.sender.as_str()),
        Sx::N(e.ts as i128),
        Sx::L(e.auth.iter().map(|a| Sx::s(a.as_str())).collect()),
        Sx::s(e.content.get()),
    ])
}

pub fn case_sx(c: &ResolveCase) -> Sx {
    Sx::L(vec![
        Sx::N(0),
        Sx::N(c.version as i128),
        Sx::L(c.events.iter().map(|e| ev_sx(e)).collect()),
        Sx::L(c.sets.iter().map(smap_sx).collect()),
        Sx::L(c.chains.iter().map(|ch| Sx::L(ch.iter().map(|i| Sx::s(i.as_str())).collect())).collect()),
    ])
}

fn decode_ev(x: &Sx) -> Option<Ev> {
    let l = x.as_list()?;
    if l.len() != 7 {
        return None;
    }
    let id = <&EventId>::try_from(l[0].as_string()?.as_str()).ok()?.to_owned();
    let ty = TimelineEventType::from(l[1].as_string()?);
    let skey = match l[2].as_opt()? {
        None => None,
        Some(s) => Some(s.as_string()?),
    };
    let sender = <&UserId>::try_from(l[3].as_string()?.as_str()).ok()?.to_owned();
    let ts = u64::try_from(l[4].as_int()?).ok()?;
    let mut auth = vec![];
    for a in l[5].as_list()? {
        auth.push(<&EventId>::try_from(a.as_string()?.as_str()).ok()?.to_owned());
    }
    let content = RawJsonValue::from_string(l[6].as_string()?).ok()?;
    Some(Ev { id, room: room(), sender, ts, ty, skey, content, prev: vec![], auth })
}

pub fn decode_case(x: &Sx) -> Option<ResolveCase> {
    let l = x.as_list()?;
    if l.len() != 5 || l[0].as_int()? != 0 {
        return None;
    }
    let version = u8::try_from(l[1].as_int()?).ok()?;
    let mut events = vec![];
    for e in l[2].as_list()? {
        events.push(Arc::new(decode_ev(e)?));
    }
    let mut sets = vec![];
    for s in l[3].as_list()? {
        let mut m = SMap::new();
        for ent in s.as_list()? {
            let t = ent.as_list()?;
            if t.len() != 3 {
                return None;
            }
            m.insert((t[0].as_string()?, t[1].as_string()?), <&EventId>::try_from(t[2].as_string()?.as_str()).ok()?.to_owned());
        }
        sets.push(m);
    }
    let mut chains = vec![];
    for s in l[4].as_list()? {
        let mut m = BTreeSet::new();
        for i in s.as_list()? {
            m.insert(<&EventId>::try_from(i.as_string()?.as_str()).ok()?.to_owned());
        }
        chains.push(m);
    }
    Some(ResolveCase { version, events, sets, chains })
}

fn room() -> OwnedRoomId {
    <&RoomId>::try_from("!r:a").unwrap().to_owned()
}

// ---------------------------------------------------------------------------------------------
// running the implementation
// ---------------------------------------------------------------------------------------------
pub fn to_state_map(m: &SMap) -> StateMap<Id> {
    m.iter().map(|((t, k), v)| ((StateEventType::from(t.as_str()), k.clone()), v.clone())).collect()
}

pub fn from_state_map(m: &StateMap<Id>) -> SMap {
    m.iter().map(|((t, k), v)| ((t.to_string(), k.clone()), v.clone())).collect()
}

/// One call of the real `resolve`; fresh HashMaps/HashSets (fresh RandomState seeds) every call.
pub fn call_resolve(c: &ResolveCase, store: &Store, set_order: &[usize]) -> Result<SMap, ()> {
    call_resolve_via(c, store, set_order, 0)
}

/// `how` selects the kind of iterator the state sets arrive in (`resolve` takes any `IntoIterator`):
/// 0 a slice iterator (exact size), 1 a filtered iterator (size_hint lower bound 0), 2 a chained
/// iterator over two halves, 3 a by-value iterator of references collected in a linked list.
pub fn call_resolve_via(c: &ResolveCase, store: &Store, set_order: &[usize], how: usize) -> Result<SMap, ()> {
    let rules = rules_of(c.version);
    let sets: Vec<StateMap<Id>> = set_order.iter().map(|&i| to_state_map(&c.sets[i])).collect();
    let chains: Vec<HashSet<Id>> = set_order.iter().map(|&i| c.chains[i].iter().cloned().collect()).collect();
    let fetch = |id: &ruma_common::EventId| store.get(id).cloned();
    let r = match how % 4 {
        0 => ruma_state_res::resolve(&rules, sets.iter(), chains, fetch),
        1 => ruma_state_res::resolve(&rules, sets.iter().filter(|_| true), chains, fetch),
        2 => {
            let (a, b) = sets.split_at(sets.len() / 2);
            ruma_state_res::resolve(&rules, a.iter().chain(b.iter().take_while(|_| true)), chains, fetch)
        }
        _ => {
            let l: std::collections::LinkedList<&StateMap<Id>> = sets.iter().collect();
            ruma_state_res::resolve(&rules, l, chains, fetch)
        }
    };
    match r {
        Ok(m) => Ok(from_state_map(&m)),
        Err(_) => Err(()),
    }
}

fn key_of(e: &Ev) -> Option<Key> {
    e.skey.as_ref().map(|k| (e.ty.to_string(), k.clone()))
}

/// Events that can reach the iterative auth check, and per key the state candidates.
fn candidates(c: &ResolveCase, store: &Store) -> (BTreeSet<Id>, BTreeMap<Key, BTreeSet<Id>>) {
    let n = c.sets.len();
    let mut per_key: BTreeMap<Key, BTreeMap<Id, usize>> = BTreeMap::new();
    for s in &c.sets {
        for (k, v) in s {
            *per_key.entry(k.clone()).or_default().entry(v.clone()).or_default() += 1;
        }
    }
    let mut full: BTreeSet<Id> = BTreeSet::new();
    let mut cand: BTreeMap<Key, BTreeSet<Id>> = BTreeMap::new();
    for (k, vs) in &per_key {
        for (v, cnt) in vs {
            if *cnt == n {
                if store.contains_key(v) {
                    cand.entry(k.clone()).or_default().insert(v.clone());
                }
            } else if store.contains_key(v) {
                full.insert(v.clone());
            }
        }
    }
    let mut cnt: BTreeMap<Id, usize> = BTreeMap::new();
    for ch in &c.chains {
        for i in ch {
            *cnt.entry(i.clone()).or_default() += 1;
        }
    }
    for (i, k) in cnt {
        if k < c.chains.len() && store.contains_key(&i) {
            full.insert(i);
        }
    }
    for i in &full {
        if let Some(k) = key_of(&store[i]) {
            cand.entry(k).or_default().insert(i.clone());
        }
    }
    (full, cand)
}

const MAX_ROWS_PER_EVENT: usize = 1500;
const MAX_ROWS_PER_CASE: usize = 12000;

/// The oracle: per event, what state resolution learns about it from other anchored code.
/// `None` when the verdict table would be too large (the case is then dropped by the caller).
pub fn oracle(c: &ResolveCase, store: &Store) -> Option<Sx> {
    let rules = rules_of(c.version);
    let (full, cand) = candidates(c, store);
    let mut total_rows = 0usize;
    let mut out = vec![];
    for e in &c.events {
        let ev: &Ev = e;
        let mem = if ev.ty == TimelineEventType::RoomMember {
            match RoomMemberEvent::new(ev).membership() {
                Ok(m) => Sx::L(vec![Sx::s(m.as_str())]),
                Err(_) => Sx::L(vec![]),
            }
        } else {
            Sx::L(vec![])
        };
        let cre = if ev.ty == TimelineEventType::RoomCreate {
            match RoomCreateEvent::new(ev).creator(&rules) {
                Ok(u) => Sx::L(vec![Sx::L(vec![Sx::s(u.as_str())])]),
                Err(_) => Sx::L(vec![Sx::L(vec![])]),
            }
        } else {
            Sx::L(vec![])
        };
        let pl = if ev.ty == TimelineEventType::RoomPowerLevels {
            let p = RoomPowerLevelsEvent::new(ev);
            let users = match p.users(&rules) {
                Ok(u) => Sx::L(vec![Sx::L(
                    u.map(|m| m.iter().map(|(k, v)| Sx::L(vec![Sx::s(k.as_str()), Sx::N(i64::from(*v) as i128)])).collect())
                        .unwrap_or_default(),
                )]),
                Err(_) => Sx::L(vec![]),
            };
            let def = match p.get_as_int(RoomPowerLevelsIntField::UsersDefault, &rules) {
                Ok(None) => Sx::L(vec![Sx::L(vec![])]),
                Ok(Some(i)) => Sx::L(vec![Sx::L(vec![Sx::N(i64::from(i) as i128)])]),
                Err(_) => Sx::L(vec![]),
            };
            Sx::L(vec![users, def])
        } else {
            Sx::L(vec![])
        };
        let (aty, ver) = if full.contains(&ev.id) && ev.skey.is_some() {
            match auth_types_for_event(&ev.ty, &ev.sender, ev.skey.as_deref(), &ev.content, &rules) {
                Err(_) => (Sx::L(vec![]), Sx::L(vec![])),
                Ok(types) => {
                    let keys: Vec<Key> = types.iter().map(|(t, k)| (t.to_string(), k.clone())).collect();
                    // the event's own auth events, as a map (later entries win, lib.rs:461-472)
                    let mut own: HashMap<Key, Arc<Ev>> = HashMap::new();
                    let mut own_ok = true;
                    for a in &ev.auth {
                        if let Some(x) = store.get(a) {
                            match key_of(x) {
                                Some(k) => {
                                    own.insert(k, x.clone());
                                }
                                None => own_ok = false,
                            }
                        }
                    }
                    if !own_ok {
                        // resolve returns MissingStateKey before auth_check is reached
                        (Sx::L(vec![Sx::L(keys.iter().map(|k| Sx::L(key_sx(k))).collect())]), Sx::L(vec![]))
                    } else {
                        let mut opts: Vec<Vec<Option<Id>>> = vec![];
                        let mut rows = 1usize;
                        for k in &keys {
                            let mut o: BTreeSet<Option<Id>> = BTreeSet::new();
                            o.insert(None);
                            if let Some(x) = own.get(k) {
                                o.insert(Some(x.id.clone()));
                            }
                            if let Some(cs) = cand.get(k) {
                                for i in cs {
                                    o.insert(Some(i.clone()));
                                }
                            }
                            rows = rows.saturating_mul(o.len());
                            opts.push(o.into_iter().collect());
                        }
                        if rows > MAX_ROWS_PER_EVENT {
                            return None;
                        }
                        total_rows += rows;
                        if total_rows > MAX_ROWS_PER_CASE {
                            return None;
                        }
                        let mut table = vec![];
                        let mut idx = vec![0usize; keys.len()];
                        loop {
                            let mut amap: HashMap<Key, Arc<Ev>> = own.clone();
                            let mut row = vec![];
                            for (j, k) in keys.iter().enumerate() {
                                match &opts[j][idx[j]] {
                                    None => {
                                        amap.remove(k);
                                        row.push(Sx::L(vec![]));
                                    }
                                    Some(i) => {
                                        amap.insert(k.clone(), store[i].clone());
                                        row.push(Sx::L(vec![Sx::s(i.as_str())]));
                                    }
                                }
                            }
                            let verdict = auth_check(&rules, ev, |ty, key| amap.get(&(ty.to_string(), key.to_owned())).cloned())
                                .is_ok();
                            table.push(Sx::L(vec![Sx::L(row), Sx::b(verdict)]));
                            // next combination
                            let mut j = 0;
                            loop {
                                if j == keys.len() {
                                    break;
                                }
                                idx[j] += 1;
                                if idx[j] < opts[j].len() {
                                    break;
                                }
                                idx[j] = 0;
                                j += 1;
                            }
                            if j == keys.len() {
                                break;
                            }
                        }
                        (Sx::L(vec![Sx::L(keys.iter().map(|k| Sx::L(key_sx(k))).collect())]), Sx::L(table))
                    }
                }
            }
        } else {
            (Sx::L(vec![]), Sx::L(vec![]))
        };
        out.push(Sx::L(vec![mem, cre, pl, aty, ver]));
    }
    Some(Sx::L(out))
}

pub fn outcome_sx(r: &Result<SMap, ()>, oracle: Sx) -> Sx {
    match r {
        Ok(m) => Sx::L(vec![Sx::N(0), smap_sx(m), oracle]),
        Err(()) => Sx::L(vec![Sx::N(1), Sx::N(0), oracle]),
    }
}

/// Implementation outcome of one resolve case (None: verdict table too large, case dropped).
pub fn run_resolve(c: &ResolveCase) -> Option<Sx> {
    let store = c.store();
    let c2 = c.clone();
    let store2 = store.clone();
    let orc = match std::panic::catch_unwind(move || oracle(&c2, &store2)) {
        Ok(Some(o)) => o,
        Ok(None) => return None,
        Err(_) => return Some(Sx::panic()),
    };
    let c3 = c.clone();
    Some(guarded(move || {
        let order: Vec<usize> = (0..c3.sets.len()).collect();
        outcome_sx(&call_resolve(&c3, &store, &order), orc)
    }))
}

// ---------------------------------------------------------------------------------------------
// the exposed sort
// ---------------------------------------------------------------------------------------------
#[derive(Clone)]
pub struct SortCase {
    pub graph: Vec<(String, Vec<String>)>,
    pub keys: Vec<(String, i64, u64)>,
}

pub fn sort_case_sx(c: &SortCase) -> Sx {
    Sx::L(vec![
        Sx::N(1),
        Sx::L(c.graph.iter().map(|(n, es)| Sx::L(vec![Sx::s(n), Sx::L(es.iter().map(|e| Sx::s(e)).collect())])).collect()),
        Sx::L(c.keys.iter().map(|(n, p, t)| Sx::L(vec![Sx::s(n), Sx::N(*p as i128), Sx::N(*t as i128)])).collect()),
    ])
}

fn decode_sort(x: &Sx) -> Option<SortCase> {
    let l = x.as_list()?;
    if l.len() != 3 || l[0].as_int()? != 1 {
        return None;
    }
    let mut graph = vec![];
    for g in l[1].as_list()? {
        let g = g.as_list()?;
        let mut es = vec![];
        for e in g.get(1)?.as_list()? {
            es.push(e.as_string()?);
        }
        graph.push((g.first()?.as_string()?, es));
    }
    let mut keys = vec![];
    for k in l[2].as_list()? {
        let k = k.as_list()?;
        keys.push((k.first()?.as_string()?, i64::try_from(k.get(1)?.as_int()?).ok()?, u64::try_from(k.get(2)?.as_int()?).ok()?));
    }
    Some(SortCase { graph, keys })
}

pub fn run_sort(c: &SortCase) -> Sx {
    let c = c.clone();
    guarded(move || {
        let graph: HashMap<Id, HashSet<Id>> =
            c.graph.iter().map(|(n, es)| (eid(n), es.iter().map(|e| eid(e)).collect())).collect();
        let keys: HashMap<Id, (Int, MilliSecondsSinceUnixEpoch)> = c
            .keys
            .iter()
            .map(|(n, p, t)| (eid(n), (Int::new(*p).unwrap(), MilliSecondsSinceUnixEpoch(UInt::new(*t).unwrap()))))
            .collect();
        let r = ruma_state_res::lexicographical_topological_sort(&graph, |id| {
            keys.get(id).copied().ok_or_else(|| ruma_state_res::Error::NotFound(id.to_owned()))
        });
        match r {
            Ok(l) => Sx::ok(Sx::L(l.iter().map(|i| Sx::s(i.as_str())).collect())),
            Err(_) => Sx::err(0),
        }
    })
}

// ---------------------------------------------------------------------------------------------
// room simulator
// ---------------------------------------------------------------------------------------------
pub const USERS: &[&str] = &["@alice:a", "@bob:b", "@carol:c", "@dave:a"];

pub struct Sim {
    pub version: u8,
    pub rules: AuthorizationRules,
    pub store: Store,
    pub order: Vec<Id>,
    pub state_after: HashMap<Id, SMap>,
    pub heads: Vec<Id>,
    pub rng: Rng,
    ts_mode: usize,
    clock: u64,
    used: HashSet<String>,
}

pub fn auth_chain_of(store: &Store, ids: impl Iterator<Item = Id>) -> BTreeSet<Id> {
    let mut out = BTreeSet::new();
    let mut stack: Vec<Id> = ids.collect();
    let mut seen: HashSet<Id> = HashSet::new();
    while let Some(i) = stack.pop() {
        if !seen.insert(i.clone()) {
            continue;
        }
        if let Some(e) = store.get(&i) {
            for a in &e.auth {
                out.insert(a.clone());
                stack.push(a.clone());
            }
        }
    }
    out
}

impl Sim {
    pub fn new(seed: u64) -> Sim {
        let mut rng = Rng::new(seed);
        let version = *rng.pick(VERSIONS);
        let ts_mode = rng.below(5);
        Sim {
            version,
            rules: rules_of(version),
            store: HashMap::new(),
            order: vec![],
            state_after: HashMap::new(),
            heads: vec![],
            rng,
            ts_mode,
            clock: 10,
            used: HashSet::new(),
        }
    }

    fn fresh_id(&mut self) -> Id {
        // ids uncorrelated with creation order; small alphabet so that ties in (power, ts) are
        // broken by ids in every direction
        const A: &[u8] = b"abcxyzABC019";
        loop {
            let n = 1 + self.rng.below(2);
            let mut s = String::from("$");
            for _ in 0..n {
                s.push(A[self.rng.below(A.len())] as char);
            }
            if self.used.insert(s.clone()) {
                return eid(&s);
            }
        }
    }

    fn next_ts(&mut self) -> u64 {
        match self.ts_mode {
            0 => {
                self.clock += 1 + self.rng.below(3) as u64;
                self.clock
            }
            1 => 7,                             // all equal
            2 => self.rng.below(4) as u64,      // heavy ties
            3 => {
                self.clock = self.clock.saturating_sub(1); // decreasing: later events claim to be older
                1000 + self.clock
            }
            _ => self.rng.below(40) as u64,
        }
    }

    pub fn state_before(&self, prevs: &[Id]) -> SMap {
        let sets: Vec<&SMap> = prevs.iter().filter_map(|p| self.state_after.get(p)).collect();
        match sets.len() {
            0 => SMap::new(),
            1 => sets[0].clone(),
            _ => {
                let c = ResolveCase {
                    version: self.version,
                    events: vec![],
                    sets: sets.iter().map(|s| (*s).clone()).collect(),
                    chains: sets.iter().map(|s| auth_chain_of(&self.store, s.values().cloned())).collect(),
                };
                let order: Vec<usize> = (0..c.sets.len()).collect();
                call_resolve(&c, &self.store, &order).unwrap_or_else(|_| sets[0].clone())
            }
        }
    }

    /// Build an event on top of `prevs`; auth events selected from the state before it.
    /// Returns (event, allowed by auth_check against that state).
    pub fn build(&mut self, sender: &str, ty: &str, skey: &str, content: String, prevs: Vec<Id>) -> (Ev, SMap, bool) {
        let before = self.state_before(&prevs);
        let tyt = TimelineEventType::from(ty);
        let content = raw(&content);
        let sender_id = uid(sender);
        let mut auth = vec![];
        if let Ok(types) = auth_types_for_event(&tyt, &sender_id, Some(skey), &content, &self.rules) {
            for (t, k) in types {
                if let Some(i) = before.get(&(t.to_string(), k)) {
                    if !auth.contains(i) {
                        auth.push(i.clone());
                    }
                }
            }
        }
        // order of auth_events is not fixed by anything: shuffle
        for i in (1..auth.len()).rev() {
            let j = self.rng.below(i + 1);
            auth.swap(i, j);
        }
        let ev = Ev {
            id: self.fresh_id(),
            room: room(),
            sender: sender_id,
            ts: self.next_ts(),
            ty: tyt,
            skey: Some(skey.to_owned()),
            content,
            prev: prevs,
            auth,
        };
        let store = &self.store;
        let ok = auth_check(&self.rules, &ev, |t, k| before.get(&(t.to_string(), k.to_owned())).and_then(|i| store.get(i)).cloned())
            .is_ok();
        (ev, before, ok)
    }

    pub fn commit(&mut self, ev: Ev, before: SMap, apply: bool) -> Id {
        let id = ev.id.clone();
        let mut after = before;
        if apply {
            after.insert((ev.ty.to_string(), ev.skey.clone().unwrap_or_default()), id.clone());
        }
        self.store.insert(id.clone(), Arc::new(ev));
        self.state_after.insert(id.clone(), after);
        self.order.push(id.clone());
        id
    }

    fn pl_content(&mut self, before: &SMap) -> String {
        // start from the current power levels (as JSON) and edit one or two fields
        let mut v: serde_json::Value = before
            .get(&("m.room.power_levels".to_owned(), String::new()))
            .and_then(|i| self.store.get(i))
            .and_then(|e| serde_json::from_str(e.content.get()).ok())
            .unwrap_or_else(|| serde_json::json!({"users": {"@alice:a": 100}}));
        let o = v.as_object_mut().unwrap();
        let levels = [0, 50, 100];
        for _ in 0..1 + self.rng.below(2) {
            match self.rng.below(7) {
                0 | 1 | 2 => {
                    let u = *self.rng.pick(USERS);
                    let l = *self.rng.pick(&levels);
                    let users = o.entry("users").or_insert_with(|| serde_json::json!({}));
                    if let Some(m) = users.as_object_mut() {
                        if self.rng.chance(1, 6) {
                            m.remove(u);
                        } else {
                            m.insert(u.to_owned(), l.into());
                        }
                    }
                }
                3 => {
                    o.insert("users_default".into(), (*self.rng.pick(&[0, 0, 50])).into());
                }
                4 => {
                    o.insert("state_default".into(), (*self.rng.pick(&[0, 50, 50])).into());
                }
                5 => {
                    let f = *self.rng.pick(&["ban", "kick", "invite"]);
                    o.insert(f.into(), (*self.rng.pick(&levels)).into());
                }
                _ => {
                    let t = *self.rng.pick(&["m.room.topic", "m.room.name", "m.room.power_levels", "m.room.join_rules"]);
                    let l = *self.rng.pick(&levels);
                    let evs = o.entry("events").or_insert_with(|| serde_json::json!({}));
                    if let Some(m) = evs.as_object_mut() {
                        m.insert(t.to_owned(), l.into());
                    }
                }
            }
        }
        v.to_string()
    }

    /// One simulated history: create + creator join, then `steps` actions by random users on
    /// random server heads, with forks, merges and syncs.
    pub fn history(seed: u64, steps: usize) -> Sim {
        let mut s = Sim::new(seed);
        let create_content = if s.version >= 11 {
            format!(r#"{{"room_version":"{}"}}"#, s.version)
        } else {
            format!(r#"{{"creator":"@alice:a","room_version":"{}"}}"#, s.version)
        };
        let (c, b, _) = s.build("@alice:a", "m.room.create", "", create_content, vec![]);
        let c = s.commit(c, b, true);
        let (j, b, _) = s.build("@alice:a", "m.room.member", "@alice:a", r#"{"membership":"join"}"#.into(), vec![c]);
        let j = s.commit(j, b, true);
        s.heads = vec![j.clone(), j.clone(), j];
        // a public room early on makes most histories lively
        let early_public = s.rng.chance(3, 4);
        let mut step = 0;
        let mut tries = 0;
        while step < steps && tries < steps * 6 {
            tries += 1;
            let h = s.rng.below(s.heads.len());
            let mut prevs = vec![s.heads[h].clone()];
            if s.rng.chance(1, 6) {
                let o = s.heads[s.rng.below(s.heads.len())].clone();
                if !prevs.contains(&o) {
                    prevs.push(o);
                }
            }
            if s.rng.chance(1, 12) {
                // fork from the past
                let o = s.order[s.rng.below(s.order.len())].clone();
                prevs = vec![o];
            }
            let before = s.state_before(&prevs);
            let u = *s.rng.pick(USERS);
            let v = *s.rng.pick(USERS);
            let (ty, sk, content): (&str, String, String) = if early_public && step == 0 {
                ("m.room.join_rules", String::new(), r#"{"join_rule":"public"}"#.into())
            } else {
                match s.rng.below(16) {
                    0 | 1 => ("m.room.topic", String::new(), format!(r#"{{"topic":"t{}"}}"#, s.rng.below(9))),
                    2 => ("m.room.name", String::new(), format!(r#"{{"name":"n{}"}}"#, s.rng.below(9))),
                    3 | 4 | 5 => ("m.room.power_levels", String::new(), s.pl_content(&before)),
                    6 => {
                        let jr = if s.rules.knocking { *s.rng.pick(&["public", "invite", "knock", "public"]) } else { *s.rng.pick(&["public", "invite"]) };
                        ("m.room.join_rules", String::new(), format!(r#"{{"join_rule":"{jr}"}}"#))
                    }
                    7 | 8 | 9 => ("m.room.member", u.to_owned(), r#"{"membership":"join"}"#.into()),
                    10 => ("m.room.member", u.to_owned(), r#"{"membership":"leave"}"#.into()),
                    11 => ("m.room.member", v.to_owned(), r#"{"membership":"invite"}"#.into()),
                    12 => ("m.room.member", v.to_owned(), r#"{"membership":"leave"}"#.into()),
                    13 | 14 => ("m.room.member", v.to_owned(), r#"{"membership":"ban"}"#.into()),
                    _ => {
                        if s.rules.knocking {
                            ("m.room.member", u.to_owned(), r#"{"membership":"knock"}"#.into())
                        } else {
                            ("m.room.member", u.to_owned(), r#"{"membership":"join"}"#.into())
                        }
                    }
                }
            };
            let (ev, before, ok) = s.build(u, ty, &sk, content, prevs);
            // mostly keep authorised events; sometimes keep an unauthorised one as part of a
            // (byzantine) server's state, so that merges see events that must be rejected
            let keep = ok || s.rng.chance(1, 10);
            if !keep {
                s.used.remove(ev.id.as_str());
                continue;
            }
            let id = s.commit(ev, before, true);
            s.heads[h] = id.clone();
            if s.rng.chance(1, 8) {
                let t = s.rng.below(s.heads.len());
                s.heads[t] = id;
            }
            step += 1;
        }
        s
    }

    /// A resolve call merging the states after the given DAG nodes.
    pub fn case_for(&self, nodes: &[Id]) -> ResolveCase {
        let sets: Vec<SMap> = nodes.iter().map(|n| self.state_after[n].clone()).collect();
        let chains: Vec<BTreeSet<Id>> = sets.iter().map(|s| auth_chain_of(&self.store, s.values().cloned())).collect();
        // the store shipped with the case: every event reachable from the sets
        let mut need: BTreeSet<Id> = BTreeSet::new();
        for (s, c) in sets.iter().zip(&chains) {
            need.extend(s.values().cloned());
            need.extend(c.iter().cloned());
        }
        // in creation order, which is a topological order of the auth graph
        let events = self.order.iter().filter(|i| need.contains(*i)).filter_map(|i| self.store.get(i).cloned()).collect();
        ResolveCase { version: self.version, events, sets, chains }
    }
}

// ---------------------------------------------------------------------------------------------
// hand-built scenarios (systematic stream)
// ---------------------------------------------------------------------------------------------
pub fn mk(id: &str, sender: &str, ty: &str, skey: &str, content: &str, ts: u64, auth: &[&str]) -> Arc<Ev> {
    Arc::new(Ev {
        id: eid(id),
        room: room(),
        sender: uid(sender),
        ts,
        ty: TimelineEventType::from(ty),
        skey: Some(skey.to_owned()),
        content: raw(content),
        prev: vec![],
        auth: auth.iter().map(|a| eid(a)).collect(),
    })
}

fn case_from(version: u8, evs: Vec<Arc<Ev>>, sets: &[&[&str]]) -> ResolveCase {
    let store: Store = evs.iter().map(|e| (e.id.clone(), e.clone())).collect();
    let sets: Vec<SMap> = sets
        .iter()
        .map(|ids| {
            ids.iter()
                .map(|i| {
                    let e = &store[&eid(i)];
                    ((e.ty.to_string(), e.skey.clone().unwrap()), e.id.clone())
                })
                .collect()
        })
        .collect();
    let chains = sets.iter().map(|s| auth_chain_of(&store, s.values().cloned())).collect();
    // events stay in the given (topological) order
    ResolveCase { version, events: evs, sets, chains }
}

const JOIN: &str = r#"{"membership":"join"}"#;
const LEAVE: &str = r#"{"membership":"leave"}"#;

/// DESIGN section 11: an event with no power-levels ancestor against an event on the oldest
/// mainline position.
pub fn scenario_mainline(ts_x: u64, ts_y: u64) -> ResolveCase {
    let evs = vec![
        mk("$c", "@alice:a", "m.room.create", "", r#"{"creator":"@alice:a","room_version":"6"}"#, 1, &[]),
        mk("$ja", "@alice:a", "m.room.member", "@alice:a", JOIN, 2, &["$c"]),
        mk("$jr", "@alice:a", "m.room.join_rules", "", r#"{"join_rule":"public"}"#, 3, &["$c", "$ja"]),
        mk("$jb", "@bob:b", "m.room.member", "@bob:b", JOIN, 4, &["$c", "$jr"]),
        mk("$p1", "@alice:a", "m.room.power_levels", "", r#"{"users":{"@alice:a":100,"@bob:b":50}}"#, 5, &["$c", "$ja"]),
        mk("$x", "@alice:a", "m.room.topic", "", r#"{"topic":"x"}"#, ts_x, &["$c", "$ja"]),
        mk("$y", "@bob:b", "m.room.topic", "", r#"{"topic":"y"}"#, ts_y, &["$c", "$jb", "$p1"]),
    ];
    case_from(6, evs, &[&["$c", "$ja", "$jr", "$jb", "$x"], &["$c", "$ja", "$jr", "$jb", "$p1", "$y"]])
}

/// A conflicted non-power event lying in the auth chain of a power event only through events
/// outside the full conflicted set (see coq/C07/Spec.v, `power_closure`).
pub fn scenario_chain_through_unconflicted(ts_join: u64, ts_leave: u64) -> ResolveCase {
    let evs = vec![
        mk("$c", "@alice:a", "m.room.create", "", r#"{"creator":"@alice:a","room_version":"6"}"#, 1, &[]),
        mk("$ja", "@alice:a", "m.room.member", "@alice:a", JOIN, 2, &["$c"]),
        mk("$j0", "@alice:a", "m.room.join_rules", "", r#"{"join_rule":"public"}"#, 3, &["$c", "$ja"]),
        mk(
            "$p1",
            "@alice:a",
            "m.room.power_levels",
            "",
            r#"{"users":{"@alice:a":100,"@bob:b":50,"@carol:c":100}}"#,
            4,
            &["$c", "$ja"],
        ),
        mk("$jb", "@bob:b", "m.room.member", "@bob:b", JOIN, ts_join, &["$c", "$p1", "$j0"]),
        mk("$j1", "@bob:b", "m.room.join_rules", "", r#"{"join_rule":"public"}"#, 6, &["$c", "$p1", "$jb"]),
        mk("$jc", "@carol:c", "m.room.member", "@carol:c", JOIN, 7, &["$c", "$p1", "$j1"]),
        mk(
            "$p2",
            "@carol:c",
            "m.room.power_levels",
            "",
            r#"{"users":{"@alice:a":100,"@bob:b":50,"@carol:c":100},"invite":50}"#,
            8,
            &["$c", "$p1", "$jc"],
        ),
        mk("$lb", "@bob:b", "m.room.member", "@bob:b", LEAVE, ts_leave, &["$c", "$p1", "$jb"]),
    ];
    case_from(6, evs, &[&["$c", "$ja", "$p2", "$jb", "$j1", "$jc"], &["$c", "$ja", "$p1", "$lb", "$j1", "$jc"]])
}

/// Two moderators (level 50, neither is the creator) send concurrent power-levels events on two
/// forks; every event lists the create event before the power-levels event in `auth_events`.
/// The reverse topological power ordering must give both senders level 50 whatever order the
/// power-event graph is enumerated in.
pub fn scenario_concurrent_moderators(ts_b: u64, ts_c: u64) -> ResolveCase {
    let pl = |extra: &str| format!(r#"{{"users":{{"@alice:a":100,"@bob:b":50,"@carol:c":50}}{extra}}}"#);
    let evs = vec![
        mk("$c", "@alice:a", "m.room.create", "", r#"{"creator":"@alice:a","room_version":"6"}"#, 1, &[]),
        mk("$ja", "@alice:a", "m.room.member", "@alice:a", JOIN, 2, &["$c"]),
        mk("$jr", "@alice:a", "m.room.join_rules", "", r#"{"join_rule":"public"}"#, 3, &["$c", "$ja"]),
        mk("$jb", "@bob:b", "m.room.member", "@bob:b", JOIN, 4, &["$c", "$jr"]),
        mk("$jc", "@carol:c", "m.room.member", "@carol:c", JOIN, 5, &["$c", "$jr"]),
        mk("$p1", "@alice:a", "m.room.power_levels", "", &pl(""), 6, &["$c", "$ja"]),
        mk("$pb", "@bob:b", "m.room.power_levels", "", &pl(r#","invite":50"#), ts_b, &["$c", "$p1", "$jb"]),
        mk("$pc", "@carol:c", "m.room.power_levels", "", &pl(r#","kick":40"#), ts_c, &["$c", "$p1", "$jc"]),
    ];
    case_from(6, evs, &[&["$c", "$ja", "$jr", "$jb", "$jc", "$pb"], &["$c", "$ja", "$jr", "$jb", "$jc", "$pc"]])
}

/// An event lists TWO power-levels auth events (the stale and the current one) before its create
/// event (found by a seeding sub-agent on the unchanged tree: the level used for the power ordering
/// depended on whether the creator was already cached, i.e. on the iteration order of the graph; fixed
/// in /repo by 2da10dd).  The duplicate-slot rejection rule of the specification is left to the
/// caller by ruma, so such an event reaches `resolve`.
pub fn scenario_duplicate_power_levels_slot(ts_x: u64, ts_y: u64, create_first: bool) -> ResolveCase {
    let xa: &[&str] = if create_first { &["$c", "$p1", "$p2", "$jb"] } else { &["$p1", "$p2", "$c", "$jb"] };
    let evs = vec![
        mk("$c", "@alice:a", "m.room.create", "", r#"{"creator":"@alice:a","room_version":"6"}"#, 1, &[]),
        mk("$ja", "@alice:a", "m.room.member", "@alice:a", JOIN, 2, &["$c"]),
        mk("$p1", "@alice:a", "m.room.power_levels", "", r#"{"users":{"@alice:a":100,"@bob:b":100}}"#, 3, &["$c", "$ja"]),
        mk("$jr", "@alice:a", "m.room.join_rules", "", r#"{"join_rule":"public"}"#, 4, &["$c", "$ja", "$p1"]),
        mk("$jb", "@bob:b", "m.room.member", "@bob:b", JOIN, 5, &["$c", "$p1", "$jr"]),
        mk("$p2", "@alice:a", "m.room.power_levels", "", r#"{"users":{"@alice:a":100,"@bob:b":50}}"#, 6, &["$c", "$ja", "$p1"]),
        mk("$t0", "@bob:b", "m.room.topic", "", r#"{"topic":"t"}"#, 7, &["$c", "$p2", "$jb"]),
        mk("$x", "@bob:b", "m.room.join_rules", "", r#"{"join_rule":"invite"}"#, ts_x, xa),
        mk("$y", "@alice:a", "m.room.join_rules", "", r#"{"join_rule":"knock"}"#, ts_y, &["$c", "$ja", "$p2"]),
    ];
    case_from(6, evs, &[&["$c", "$ja", "$p2", "$jb", "$t0", "$x"], &["$c", "$ja", "$p2", "$jb", "$t0", "$y"]])
}

/// An event lists two membership events of its sender (a stale `leave` and the current `join`): the
/// one listed LAST decides (`iterative_auth_check` fills its map in list order) unless the partial
/// state has the key.  Here bob's membership is conflicted (one fork never saw bob) and the topic is
/// older than his membership events, so it is checked first (seed5 C06-1).
pub fn scenario_duplicate_member_slot(ts_t: u64, join_last: bool) -> ResolveCase {
    let ta: &[&str] = if join_last { &["$c", "$p1", "$bl", "$bj"] } else { &["$c", "$p1", "$bj", "$bl"] };
    let evs = vec![
        mk("$c", "@alice:a", "m.room.create", "", r#"{"creator":"@alice:a","room_version":"6"}"#, 1, &[]),
        mk("$ja", "@alice:a", "m.room.member", "@alice:a", JOIN, 2, &["$c"]),
        mk("$p1", "@alice:a", "m.room.power_levels", "", r#"{"users":{"@alice:a":100,"@bob:b":50}}"#, 3, &["$c", "$ja"]),
        mk("$jr", "@alice:a", "m.room.join_rules", "", r#"{"join_rule":"public"}"#, 4, &["$c", "$ja", "$p1"]),
        mk("$bj0", "@bob:b", "m.room.member", "@bob:b", JOIN, 10, &["$c", "$p1", "$jr"]),
        mk("$bl", "@bob:b", "m.room.member", "@bob:b", LEAVE, 20, &["$c", "$p1", "$bj0"]),
        mk("$bj", "@bob:b", "m.room.member", "@bob:b", JOIN, 30, &["$c", "$p1", "$jr", "$bl"]),
        mk("$t", "@bob:b", "m.room.topic", "", r#"{"topic":"hello"}"#, ts_t, ta),
    ];
    case_from(6, evs, &[&["$c", "$ja", "$p1", "$jr", "$bj", "$t"], &["$c", "$ja", "$p1", "$jr"]])
}

/// Gives some event a second auth event for a slot it already cites (an older event of the same type
/// and state key), before or after the one it has.
pub fn duplicate_slot_variant(c: &ResolveCase, r: &mut Rng) -> Option<ResolveCase> {
    let mut c = c.clone();
    let store = c.store();
    let n = c.events.len();
    for _ in 0..8 {
        let i = r.below(n);
        let e = (*c.events[i]).clone();
        if e.auth.is_empty() {
            continue;
        }
        let Some(a) = store.get(r.pick(&e.auth)) else { continue };
        let (aty, ask, aid) = (a.ty.clone(), a.skey.clone(), a.id.clone());
        // an earlier event (the list is topological) for the same slot
        let older: Vec<Id> = c.events[..i]
            .iter()
            .filter(|o| o.ty == aty && o.skey == ask && o.id != aid && !e.auth.contains(&o.id))
            .map(|o| o.id.clone())
            .collect();
        if older.is_empty() {
            continue;
        }
        let o = r.pick(&older).clone();
        let mut e2 = e.clone();
        let pos = r.below(e2.auth.len() + 1);
        e2.auth.insert(pos, o);
        c.events[i] = Arc::new(e2);
        let st = c.store();
        c.chains = c.sets.iter().map(|s| auth_chain_of(&st, s.values().cloned())).collect();
        return Some(c);
    }
    None
}

/// A restricted join vouched for by a user who is banned concurrently on the other fork (room versions
/// 8 to 11): the vouching user's membership must be re-read from the partial state, so the join falls
/// with the ban (seed4 C07-2).
pub fn scenario_restricted_join_vs_ban(version: u8, ts_join: u64, ts_ban: u64) -> ResolveCase {
    let create = format!(r#"{{"creator":"@alice:a","room_version":"{version}"}}"#);
    let pl = r#"{"users":{"@alice:a":100,"@bob:b":50},"invite":50}"#;
    let evs = vec![
        mk("$c", "@alice:a", "m.room.create", "", &create, 1, &[]),
        mk("$ja", "@alice:a", "m.room.member", "@alice:a", JOIN, 2, &["$c"]),
        mk("$p1", "@alice:a", "m.room.power_levels", "", pl, 3, &["$c", "$ja"]),
        mk("$jr0", "@alice:a", "m.room.join_rules", "", r#"{"join_rule":"public"}"#, 4, &["$c", "$ja", "$p1"]),
        mk("$jb", "@bob:b", "m.room.member", "@bob:b", JOIN, 5, &["$c", "$p1", "$jr0"]),
        mk(
            "$jr",
            "@alice:a",
            "m.room.join_rules",
            "",
            r#"{"join_rule":"restricted","allow":[{"type":"m.room_membership","room_id":"!other:a"}]}"#,
            6,
            &["$c", "$ja", "$p1"],
        ),
        // fork A: dave joins, vouched for by bob
        mk(
            "$jd",
            "@dave:d",
            "m.room.member",
            "@dave:d",
            r#"{"membership":"join","join_authorised_via_users_server":"@bob:b"}"#,
            ts_join,
            &["$c", "$p1", "$jr", "$jb"],
        ),
        // fork B: alice bans bob
        mk("$bb", "@alice:a", "m.room.member", "@bob:b", r#"{"membership":"ban"}"#, ts_ban, &["$c", "$ja", "$p1", "$jb"]),
    ];
    case_from(version, evs, &[&["$c", "$ja", "$p1", "$jr", "$jb", "$jd"], &["$c", "$ja", "$p1", "$jr", "$bb"]])
}

/// One fork has a long history of its own: `n` users were invited and joined there only, so the
/// auth-chain difference holds `n` invites next to the one event that matters ($p1, which gives
/// Carol the level her later $p2 needs).  Any bound, cap or batch size applied to an unordered
/// collection of that difference shows as runs disagreeing (seed3 C06-1).  Expected winner: $p2.
pub fn scenario_long_fork(n: usize) -> ResolveCase {
    let mut evs = vec![
        mk("$c", "@alice:a", "m.room.create", "", r#"{"creator":"@alice:a","room_version":"6"}"#, 1, &[]),
        mk("$ja", "@alice:a", "m.room.member", "@alice:a", JOIN, 2, &["$c"]),
        mk("$ipl", "@alice:a", "m.room.power_levels", "", r#"{"users":{"@alice:a":100}}"#, 3, &["$c", "$ja"]),
        mk("$jr", "@alice:a", "m.room.join_rules", "", r#"{"join_rule":"public"}"#, 4, &["$c", "$ja", "$ipl"]),
        mk("$jc", "@carol:c", "m.room.member", "@carol:c", JOIN, 5, &["$c", "$ipl", "$jr"]),
        mk("$p1", "@alice:a", "m.room.power_levels", "", r#"{"users":{"@alice:a":100,"@carol:c":50}}"#, 6, &["$c", "$ja", "$ipl"]),
    ];
    let mut a: Vec<String> = ["$c", "$ja", "$jr", "$jc", "$p2"].iter().map(|s| s.to_string()).collect();
    for i in 0..n {
        let (u, inv, j) = (format!("@u{i}:a"), format!("$inv{i}"), format!("$j{i}"));
        evs.push(mk(&inv, "@alice:a", "m.room.member", &u, r#"{"membership":"invite"}"#, 10 + 2 * i as u64, &["$c", "$ja", "$p1"]));
        evs.push(mk(&j, &u, "m.room.member", &u, JOIN, 11 + 2 * i as u64, &["$c", "$p1", "$jr", &inv]));
        a.push(j);
    }
    evs.push(mk(
        "$p2",
        "@carol:c",
        "m.room.power_levels",
        "",
        r#"{"users":{"@alice:a":100,"@carol:c":50},"invite":50}"#,
        20 + 2 * n as u64,
        &["$c", "$jc", "$p1"],
    ));
    let a_refs: Vec<&str> = a.iter().map(String::as_str).collect();
    case_from(6, evs, &[&a_refs, &["$c", "$ja", "$jr", "$jc", "$ipl"]])
}

// ---------------------------------------------------------------------------------------------
// streams
// ---------------------------------------------------------------------------------------------
fn emit_resolve(em: &mut Emitter, tag: &str, c: &ResolveCase) -> bool {
    match run_resolve(c) {
        Some(out) => {
            em.emit(tag, case_sx(c), out);
            true
        }
        None => false,
    }
}

/// Node subsets (<= 4) whose states are merged.
pub fn pick_subsets(s: &mut Sim, how_many: usize) -> Vec<Vec<Id>> {
    let mut out: Vec<Vec<Id>> = vec![];
    let mut heads: Vec<Id> = s.heads.clone();
    heads.sort();
    heads.dedup();
    if heads.len() >= 2 {
        out.push(heads.clone());
    }
    for _ in 0..how_many {
        let n = 2 + s.rng.below(3);
        let mut v: Vec<Id> = vec![];
        for _ in 0..n {
            let i = if s.rng.chance(1, 2) { s.order.len() - 1 - s.rng.below(s.order.len().min(6)) } else { s.rng.below(s.order.len()) };
            let id = s.order[i].clone();
            if !v.contains(&id) {
                v.push(id);
            }
        }
        if s.rng.chance(1, 10) && !v.is_empty() {
            // identical sets / single set
            let x = v[0].clone();
            v = if s.rng.chance(1, 2) { vec![x] } else { vec![x.clone(), x.clone(), x] };
        }
        out.push(v);
    }
    out
}

fn gen_sort_cases(tier: &str, r: &mut Rng, em: &mut Emitter) {
    // node names: order of ids deliberately unrelated to the topological numbering
    let names = ["$m", "$b", "$z", "$a", "$q", "$c"];
    let maxn = if tier == "thorough" { 5 } else { 4 };
    for n in 0..=maxn {
        let pairs: Vec<(usize, usize)> = (0..n).flat_map(|i| (0..i).map(move |j| (i, j))).collect();
        for mask in 0u32..(1u32 << pairs.len()) {
            let graph: Vec<(String, Vec<String>)> = (0..n)
                .map(|i| {
                    (
                        names[i].to_owned(),
                        pairs.iter().enumerate().filter(|(b, (x, _))| *x == i && mask >> b & 1 == 1).map(|(_, (_, y))| names[*y].to_owned()).collect(),
                    )
                })
                .collect();
            // exhaustive key grid up to 3 nodes (quick) / 4 nodes (thorough), sampled above
            let reps: usize = if tier == "thorough" {
                if n <= 4 { 0 } else { 60 }
            } else if n <= 3 {
                0
            } else {
                8
            };
            if reps == 0 {
                // exhaustive 3x3 key grid per node
                let total = 9usize.pow(n as u32);
                for code in 0..total {
                    let mut c = code;
                    let keys = (0..n)
                        .map(|i| {
                            let d = c % 9;
                            c /= 9;
                            (names[i].to_owned(), (d / 3) as i64 * 50, (d % 3) as u64)
                        })
                        .collect();
                    let sc = SortCase { graph: graph.clone(), keys };
                    em.emit("sort-exhaustive", sort_case_sx(&sc), run_sort(&sc));
                }
            } else {
                for _ in 0..reps {
                    let keys = (0..n).map(|i| (names[i].to_owned(), r.below(3) as i64 * 50 - 50, r.below(3) as u64)).collect();
                    let sc = SortCase { graph: graph.clone(), keys };
                    em.emit("sort-dags", sort_case_sx(&sc), run_sort(&sc));
                }
            }
        }
    }
    // malformed: edges to non-nodes, cycles, missing keys
    let m = if tier == "thorough" { 20000 } else { 1500 };
    for _ in 0..m {
        let n = 1 + r.below(5);
        let mut graph: Vec<(String, Vec<String>)> = vec![];
        for i in 0..n {
            let mut es: Vec<String> = vec![];
            for j in 0..6 {
                if j != i && r.chance(1, 4) {
                    es.push(names[j].to_owned());
                }
            }
            graph.push((names[i].to_owned(), es));
        }
        let mut keys = vec![];
        for name in names.iter() {
            if !r.chance(1, 12) {
                keys.push(((*name).to_owned(), r.below(3) as i64, r.below(2) as u64));
            }
        }
        let sc = SortCase { graph, keys };
        em.emit("sort-malformed", sort_case_sx(&sc), run_sort(&sc));
    }
}

pub fn malformed_variant(c: &ResolveCase, r: &mut Rng) -> ResolveCase {
    let mut c = c.clone();
    match r.below(3) {
        0 => {
            // an event unknown to the store
            if !c.events.is_empty() {
                let i = r.below(c.events.len());
                if c.events[i].ty != TimelineEventType::RoomCreate {
                    c.events.remove(i);
                }
            }
        }
        1 => {
            // an event without state key
            if !c.events.is_empty() {
                let i = r.below(c.events.len());
                if c.events[i].ty != TimelineEventType::RoomCreate {
                    let mut e = (*c.events[i]).clone();
                    e.skey = None;
                    c.events[i] = Arc::new(e);
                }
            }
        }
        _ => {
            // malformed power levels content
            for i in 0..c.events.len() {
                if c.events[i].ty == TimelineEventType::RoomPowerLevels && r.chance(1, 2) {
                    let mut e = (*c.events[i]).clone();
                    e.content = raw(*r.pick(&[r#"{"users":"x"}"#, r#"{"users_default":[]}"#, r#"[]"#]));
                    c.events[i] = Arc::new(e);
                }
            }
        }
    }
    c
}

pub fn histories(tier: &str) -> usize {
    if tier == "thorough" {
        4000
    } else {
        300
    }
}

pub fn run(tier: &str, seed: u64, em: &mut Emitter) {
    let mut r = Rng::new(seed ^ 0xC07);
    // systematic: the hand-built scenarios over a timestamp grid, then the exposed sort
    for tx in [5u64, 10, 20] {
        for ty in [5u64, 10, 20] {
            emit_resolve(em, "systematic", &scenario_mainline(tx, ty));
            emit_resolve(em, "systematic", &scenario_concurrent_moderators(tx, ty));
            for v in [8u8, 9, 10, 11] {
                emit_resolve(em, "systematic", &scenario_restricted_join_vs_ban(v, tx + 10, ty + 10));
            }
            emit_resolve(em, "systematic", &scenario_chain_through_unconflicted(tx, ty));
            for f in [false, true] {
                emit_resolve(em, "systematic", &scenario_duplicate_power_levels_slot(tx + 10, ty + 10, f));
            }
        }
    }
    for ts in [5u64, 25, 40] {
        for f in [false, true] {
            emit_resolve(em, "systematic", &scenario_duplicate_member_slot(ts, f));
        }
    }
    gen_sort_cases(tier, &mut r, em);
    // random structured: simulated histories
    let mut dropped = 0usize;
    for h in 0..histories(tier) {
        let steps = 6 + r.below(22);
        let mut s = Sim::history(seed.wrapping_mul(1_000_003).wrapping_add(h as u64) ^ 0xC07, steps);
        let subsets = pick_subsets(&mut s, 5);
        for nodes in subsets {
            let c = s.case_for(&nodes);
            if !emit_resolve(em, "history", &c) {
                dropped += 1;
            }
            if r.chance(1, 8) {
                let m = malformed_variant(&c, &mut r);
                emit_resolve(em, "malformed", &m);
            }
            if r.chance(1, 6) {
                if let Some(m) = duplicate_slot_variant(&c, &mut r) {
                    emit_resolve(em, "duplicate-slot", &m);
                }
            }
        }
    }
    if dropped > 0 {
        eprintln!("c07: {dropped} cases dropped (verdict table too large)");
    }
}

pub fn replay(case: &Sx) -> Option<Sx> {
    match case.as_list()?.first()?.as_int()? {
        0 => {
            let c = decode_case(case)?;
            run_resolve(&c)
        }
        1 => Some(run_sort(&decode_sort(case)?)),
        _ => None,
    }
}

pub fn dump(_dir: &str) {}
