(** C16.ProofsTables — the obligations on the generated tables ([Gen.Versions],
    [Gen.PercentSet]), discharged by computation, and the general theorems instantiated with
    them.  These are the statements that re-check when ruma's tables change. *)
From Base Require Import Prelude Sx.
From Gen Require Import Versions PercentSet.
From C16 Require Import Model Spec Run ProofsSelect ProofsUrl.
From Coq Require Import ZifyBool ZifyNat ZifyN.

Definition hist_of_tuple (t : list str * list (N * str) * option N * option N) : history :=
  let '(u, s, d, r) := t in {| unstable := u; stable := s; deprecated := d; removed := r |}.

(** What [VersionHistory::new] enforces, over the versions [enum MatrixVersion] declares. *)
Definition wf_history (h : history) : Prop := hist_ok h = true.

(* ---- [const_ord] agrees with the declaration order -------------------------------------- *)
Definition cmp_eqb (a b : comparison) : bool :=
  match a, b with Eq, Eq | Lt, Lt | Gt, Gt => true | _, _ => false end.

Definition parts_order_okb : bool :=
  forallb (fun a => forallb (fun b => cmp_eqb (const_cmp vparts a b) (a ?= b))
                            (nseq 0 (N.to_nat nversions)))
          (nseq 0 (N.to_nat nversions)).

Lemma parts_order_ok : parts_order_okb = true.
Proof. vm_compute. reflexivity. Qed.

Lemma In_nseq n : forall start a, start <= a -> a < start + N.of_nat n -> In a (nseq start n).
Proof.
  induction n as [|n IH]; intros start a H1 H2; [change (N.of_nat 0) with 0 in H2; rewrite N.add_0_r in H2; exfalso; apply (N.lt_irrefl a); eapply N.lt_le_trans; eassumption|].
  cbn [nseq]. rewrite Nat2N.inj_succ in H2. destruct (N.eq_dec a start) as [->|Hne]; [left; reflexivity|right].
  apply IH; lia.
Qed.

Lemma parts_order a b : a < nversions -> b < nversions -> const_cmp vparts a b = (a ?= b).
Proof.
  intros Ha Hb. pose proof parts_order_ok as H. unfold parts_order_okb in H.
  assert (Hin : forall x, x < nversions -> In x (nseq 0 (N.to_nat nversions))).
  { intros x Hx. apply In_nseq; [apply N.le_0_l|]. rewrite N2Nat.id, N.add_0_l. exact Hx. }
  rewrite forallb_forall in H. specialize (H a (Hin a Ha)).
  rewrite forallb_forall in H. specialize (H b (Hin b Hb)).
  destruct (const_cmp vparts a b), (a ?= b); try discriminate; reflexivity.
Qed.

Lemma wf_history_ordered h : wf_history h -> ordered_history h.
Proof.
  unfold wf_history, hist_ok. intros H. apply andb_true_iff in H as [Hty Hwf].
  apply (wf_ordered vparts nversions parts_order h); [|exact Hwf].
  unfold hist_typed in Hty. apply andb_true_iff in Hty as [Hty Hr]. apply andb_true_iff in Hty as [Hs Hd].
  repeat split.
  - intros v p Hin. rewrite forallb_forall in Hs. specialize (Hs _ Hin). cbn [fst] in Hs. lia.
  - intros d E. rewrite E in Hd. lia.
  - intros r E. rewrite E in Hr. lia.
Qed.

Theorem select_path_eq_spec h :
  wf_history h -> forall vs, select_path h vs = outcome_of_selection (spec_select_h h vs).
Proof. intros H. apply select_path_eq_spec_ordered. apply wf_history_ordered. exact H. Qed.

(** The empty version list: every version in it is (vacuously) at or after the removal, none
    reaches a stable path. *)
Lemma select_path_nil h :
  select_path h [] =
  match removed h with
  | Some _ => Err E_REMOVED
  | None => match last_opt (unstable h) with Some p => Ok p | None => Err E_NO_UNSTABLE end
  end.
Proof.
  unfold select_path, versioning_decision_for.
  destruct (removed h); cbn [is_some_and ge_all forallb]; [reflexivity|].
  destruct (added_in h); reflexivity.
Qed.

Corollary select_path_no_panic h : wf_history h -> forall vs, is_panic (select_path h vs) = false.
Proof. intros H vs. rewrite (select_path_eq_spec h H). destruct (spec_select_h h vs); reflexivity. Qed.

(* ---- every generated endpoint history is well-formed -------------------------------------- *)
Lemma all_histories_wf : forallb (fun e => hist_ok (hist_of_tuple (snd e))) all_histories = true.
Proof. vm_compute. reflexivity. Qed.

Lemma endpoint_wf name t : In (name, t) all_histories -> wf_history (hist_of_tuple t).
Proof.
  intros Hin. pose proof all_histories_wf as H. rewrite forallb_forall in H.
  exact (H _ Hin).
Qed.

(* ---- the encode set and the endpoint paths ------------------------------------------------ *)
Lemma percent_set_ok : set_okb in_path_set = true.
Proof. vm_compute. reflexivity. Qed.

Lemma all_paths_routable :
  forallb (fun e => forallb routableb (all_paths (hist_of_tuple (snd e)))) all_histories = true.
Proof. vm_compute. reflexivity. Qed.

Theorem path_roundtrip_gen tmpl args q :
  routableb tmpl = true -> (forall a, In a args -> is_bytes a) ->
  List.length args = count_placeholders tmpl ->
  exists u, make_url in_path_set tmpl [] args q = Ok u /\ route tmpl u = Some args.
Proof. apply path_roundtrip. exact percent_set_ok. Qed.

Lemma percent_decode_encode_gen s : is_bytes s -> pct_decode (percent_encode in_path_set s) = s.
Proof. apply pct_decode_encode. reflexivity. Qed.

Lemma segments_no_separator_gen a : is_bytes a -> no_sep (percent_encode in_path_set a).
Proof. apply segments_no_separator. exact percent_set_ok. Qed.

(** The selected path is one of the history's paths. *)
Lemma last_opt_In {A} (l : list A) x : last_opt l = Some x -> In x l.
Proof.
  induction l as [|y l IH]; cbn [last_opt]; [discriminate|].
  destruct l as [|z l]; [intros E; inversion E; left; reflexivity|intros E; right; apply IH; exact E].
Qed.

Lemma select_path_in h vs p : select_path h vs = Ok p -> In p (all_paths h).
Proof.
  unfold select_path, all_paths. intros H. apply in_or_app.
  destruct (versioning_decision_for h vs) as [|a b c|].
  - left. destruct (last_opt (unstable h)) eqn:E; [|discriminate]. inversion H; subst.
    apply last_opt_In; exact E.
  - right. destruct (c && negb b && negb a); [discriminate|].
    unfold stable_endpoint_for in H.
    destruct (List.find _ (List.rev (stable h))) as [[v q]|] eqn:E; [|discriminate].
    inversion H; subst. apply List.find_some in E as [Hin _]. apply List.in_rev in Hin.
    apply in_map_iff. exists (v, p). split; [reflexivity|exact Hin].
  - destruct (removed h); discriminate.
Qed.

(** End to end for every endpoint of the five API crates: whatever the supported versions,
    if the contract selects a path then the URL is built on it and routes back to the
    arguments. *)
Theorem endpoint_url_roundtrip name t vs args q p :
  In (name, t) all_histories ->
  spec_select_h (hist_of_tuple t) vs = SelPath p ->
  (forall a, In a args -> is_bytes a) ->
  List.length args = count_placeholders p ->
  exists u, make_endpoint_url in_path_set (hist_of_tuple t) vs [] args q = Ok u /\ route p u = Some args.
Proof.
  intros Hin Hsel Hb Hlen. set (h := hist_of_tuple t) in *.
  pose proof (endpoint_wf name t Hin) as Hwf. fold h in Hwf.
  pose proof (select_path_eq_spec h Hwf vs) as E. rewrite Hsel in E. cbn [outcome_of_selection] in E.
  unfold make_endpoint_url. rewrite E. cbn [obind].
  apply path_roundtrip_gen; [|exact Hb|exact Hlen].
  pose proof all_paths_routable as H. rewrite forallb_forall in H. specialize (H _ Hin).
  cbn [snd] in H. fold h in H. rewrite forallb_forall in H. apply H.
  apply (select_path_in h vs). exact E.
Qed.
