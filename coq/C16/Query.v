(** C16.Query — model of the typed query string of an endpoint: the `#[request]` macro puts the
    `#[ruma_api(query)]` fields into a generated `RequestQuery` struct deriving Serialize / Deserialize
    (with the fields' own serde attributes), written with [serde_html_form::to_string] and read with
    [serde_html_form::from_str].  The derive part is the struct visitor of [C18.Serde]; what differs is
    the data format: a list of key / value *strings* instead of a JSON object.

    Mirrors serde_html_form 0.2 (ser: [PartSerializer] - strings as they are, booleans `true` / `false`,
    integers in decimal, `None` = the pair is left out, `Some(v)` = v, a sequence = one pair per element;
    de: values grouped by key, [deserialize_option]: an EMPTY value is [None], otherwise [Some];
    booleans and integers through [str::parse]) for the member types that occur in query structs:
    leaf (string, validated identifier, string enum, boolean, integer), [Option<leaf>], [Vec<leaf>].
    The urlencoding of the pairs is [Model.ser_qs] / [Model.parse_qs] (round trip: C16_query_roundtrip).
    No proofs here. *)
From Base Require Import Prelude Sx Json JsonText.
From C18 Require Import Serde.

Definition s_true : str := s!"true".
Definition s_false : str := s!"false".

Definition is_leaf (t : ty) : bool :=
  match t with TStr | TId _ | TEnum _ | TBool | TInt _ _ => true | _ => false end.

Definition query_ty_ok (t : ty) : bool :=
  match t with
  | TOpt t' | TVec t' => is_leaf t'
  | _ => is_leaf t
  end.

Section Query.
  Variable valid : N -> str -> bool.
  (** [u64::from_str] / [i64::from_str] on the value text (Rust std; instantiated by C08's model of it in
      the runs) *)
  Variable parse_int : bool -> str -> option Z.     (* [true]: a signed type *)

  Definition leaf_to (t : ty) (v : val) : option str :=
    match t, v with
    | TStr, VStr s | TId _, VStr s | TEnum _, VStr s => Some s
    | TBool, VBool b => Some (if b then s_true else s_false)
    | TInt _ _, VInt z => Some (print_Z z)
    | _, _ => None
    end.

  Definition leaf_of (t : ty) (s : str) : option val :=
    match t with
    | TStr => Some (VStr s)
    | TId c => if valid c s then Some (VStr s) else None
    | TEnum al => Some (VStr (assoc_alias s al))
    | TBool => if str_eqb s s_true then Some (VBool true) else if str_eqb s s_false then Some (VBool false) else None
    | TInt lo hi => match parse_int (lo <? 0)%Z s with
                    | Some z => if (lo <=? z)%Z && (z <=? hi)%Z then Some (VInt z) else None
                    | None => None
                    end
    | _ => None
    end.

  (** all values given under key [k], in order *)
  Fixpoint values_of (k : str) (q : list (str * str)) : list str :=
    match q with
    | [] => []
    | (k', v) :: r => if str_eqb k k' then v :: values_of k r else values_of k r
    end.

  Fixpoint all_leaf_of (t : ty) (l : list str) : option (list val) :=
    match l with
    | [] => Some []
    | s :: r => match leaf_of t s, all_leaf_of t r with
                | Some v, Some vs => Some (v :: vs)
                | _, _ => None
                end
    end.

  Fixpoint all_leaf_to (t : ty) (l : list val) : option (list str) :=
    match l with
    | [] => Some []
    | v :: r => match leaf_to t v, all_leaf_to t r with
                | Some s, Some ss => Some (s :: ss)
                | _, _ => None
                end
    end.

  (** the missing-member rule of the derive visitor (as in [C18.Serde.deser]) *)
  Definition q_missing (fm : fmeta) (ft : ty) : option val :=
    match f_default fm with
    | DDefault => default_of ft
    | DConst c => deser valid ft c
    | DRequired => match ft with TOpt _ => Some VNone | _ => None end
    | DStrict => None
    end.

  Definition q_field_value (fm : fmeta) (ft : ty) (q : list (str * str)) : option val :=
    match ft with
    | TVec t' =>
        match values_of (f_name fm) q with
        | [] => q_missing fm ft
        | l => option_map VVec (all_leaf_of t' l)
        end
    | TOpt t' =>
        match values_of (f_name fm) q with
        | [] => q_missing fm ft
        | [s] => if str_eqb s [] then Some VNone else option_map VSome (leaf_of t' s)
        | _ => None                (* a repeated key for a scalar member: outside the model *)
        end
    | _ =>
        match values_of (f_name fm) q with
        | [] => q_missing fm ft
        | [s] => leaf_of ft s
        | _ => None
        end
    end.

  Fixpoint qdeser (fs : list (fmeta * ty)) (q : list (str * str)) : option (list val) :=
    match fs with
    | [] => Some []
    | (fm, ft) :: r =>
        match q_field_value fm ft q, qdeser r q with
        | Some v, Some vs => Some (v :: vs)
        | _, _ => None
        end
    end.

  (** the omission rule is the one of the JSON serializer: it looks at the Rust value *)
  Definition q_skipped (fm : fmeta) (ft : ty) (x : val) : bool :=
    match f_skip fm with
    | SNever => false
    | SIfNone => match x with VNone => true | _ => false end
    | SIfEmpty => is_empty_val x
    | SIfDefault => match default_of ft with Some d => val_eqb x d | None => false end
    | SIfEq c => match ser ft x with Some y => json_eqb y c | None => false end
    end.

  Definition q_field_pairs (fm : fmeta) (ft : ty) (x : val) : option (list (str * str)) :=
    match ft, x with
    | TVec t', VVec l => option_map (List.map (fun s => (f_name fm, s))) (all_leaf_to t' l)
    | TOpt _, VNone => Some []
    | TOpt t', VSome v => option_map (fun s => [(f_name fm, s)]) (leaf_to t' v)
    | _, _ => option_map (fun s => [(f_name fm, s)]) (leaf_to ft x)
    end.

  Fixpoint qser (fs : list (fmeta * ty)) (vs : list val) : option (list (str * str)) :=
    match fs, vs with
    | [], [] => Some []
    | (fm, ft) :: r, x :: xs =>
        match q_field_pairs fm ft x, qser r xs with
        | Some ps, Some rest => Some (if q_skipped fm ft x then rest else ps ++ rest)
        | _, _ => None
        end
    | _, _ => None
    end.
End Query.
